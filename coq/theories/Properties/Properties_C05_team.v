(* C05 extension T: team completion at the granularity of src/teams.c (micro-step machine Kernel/TeamFinish.v).
   run false = the code as it is; run true = the leader's two waits of branch 1.1 swapped (independent change C05-3). *)
From Coq Require Import List ZArith Bool Arith.
From QV Require Import Kernel.Ret Kernel.TeamFinish Kernel.TeamFinishInv Kernel.TeamFinishTheorems Kernel.TeamFinishSwapped
  Kernel.TeamFinishFinal Kernel.TeamFinishRefine.
Import ListNotations.

Theorem tf_ret_after_all : forall tr a, let s := run false init tr in
  (a < nt s)%nat -> (0 < fills (obj s a))%nat -> forall d, desc s a d -> (d < nt s)%nat /\ team_quiet s d.
Proof. exact TeamFinishFinal.tf_ret_after_all. Qed.
Print Assumptions tf_ret_after_all.

Theorem tf_filled_once : forall tr t, let s := run false init tr in (t < nt s)%nat ->
  (fills (obj s t) <= 1)%nat /\ (fills (obj s t) = 1%nat <-> lpc (ctl s t) = TeamFinish.LDone).
Proof. exact TeamFinishFinal.tf_filled_once. Qed.
Print Assumptions tf_filled_once.

Theorem tf_no_use_after_free : forall tr, let s := run false init tr in
  uaf s = false /\
  forall k t, (k < nm s)%nat -> mteam (mem s k) = Some t -> mlive (mem s k) = true ->
    freed (obj s t) = false /\ sincok (obj s t) = true /\ subsok (obj s t) = true.
Proof. exact TeamFinishFinal.tf_no_use_after_free. Qed.
Print Assumptions tf_no_use_after_free.

Theorem tf_no_deadlock : forall tr, let s := run false init tr in
  all_done s = true \/ exists l s', step false s l = Some s'.
Proof. exact TeamFinishFinal.tf_no_deadlock. Qed.
Print Assumptions tf_no_deadlock.

Theorem tf_invariant_every_schedule : forall tr, inv (run false init tr).
Proof. exact TeamFinishProofs.reach_inv. Qed.
Print Assumptions tf_invariant_every_schedule.

Theorem tf_refines_automaton_local : forall s l s' t, inv s -> step false s l = Some s' -> (t < nt s)%nat ->
  abs_team s' t = abs_team s t \/ exists e, tstep (abs_team s t) e = Some (abs_team s' t).
Proof. exact TeamFinishRefine.step_refines_local. Qed.
Print Assumptions tf_refines_automaton_local.

Theorem tf_new_team_is_init : forall s l s', inv s -> step false s l = Some s' -> nt s' = S (nt s) ->
  abs_team s' (nt s) = team_init (is_ksub (tk (ctl s' (nt s)))).
Proof. exact TeamFinishRefine.new_team_is_init. Qed.
Print Assumptions tf_new_team_is_init.

Theorem tf_swapped_waits_refuted :
  exists tr, let s := run true init tr in
    (0 < fills (obj s 0))%nat /\ (1 < nt s)%nat /\ desc s 0 1 /\ lpc (ctl s 1) = LNasc /\ uaf s = false /\
    exists tr', uaf (run true s tr') = true.
Proof. exact TeamFinishSwapped.swapped_waits_refuted. Qed.
Print Assumptions tf_swapped_waits_refuted.
