From Coq Require Import List ZArith Bool Arith.
From QV Require Import Kernel.TeamFinish Kernel.TeamFinishInv Kernel.TeamFinishLive.
Import ListNotations.

Theorem tf_progress_under_invariant : forall s, inv s -> all_done s = true \/ exists l s', step false s l = Some s'.
Proof. exact inv_progress. Qed.
Print Assumptions tf_progress_under_invariant.
