(* Regeneration tie for C09 (task identity): Kernel.Ident.qthread_id equals qthread_id() of src/qthread.c as regenerated
   by tools/ctrans.py on every run (Gen/Ident.v); the atomic increment of qlib->max_thread_id is an oracle that
   receives its call-site number and the increment.  Theorems only; proofs in Gen/Tie_Ident.v. *)
From Coq Require Import ZArith NArith.
From QV Require Import Gen.CInt Gen.Ident Gen.Tie_Ident Kernel.Ident.
Local Open Scope Z_scope.

(* which increments are requested at which call site: 1 first; 2 (+1 on the result) after drawing UINT_MAX; 1 after drawing 0 *)
Theorem gen_c09_qthread_id_calls :
  forall (o : Z -> Z -> Z) (self fld : Z), self <> 0 ->
    Gen.Ident.qthread_id o self fld
    = Some (if fld =? 0
            then (let id1 := wrapU32 (o 0 1) in
                  if id1 =? 4294967295 then wrapU32 (wrapU64 (o 1 2 + 1))
                  else if id1 =? 0 then wrapU32 (o 2 1) else id1)
            else fld).
Proof. exact tie_qthread_id_calls. Qed.
Print Assumptions gen_c09_qthread_id_calls.

(* with a fetch-and-add counter at c as the oracle the returned id is the model's *)
Theorem gen_c09_qthread_id :
  forall (c fld : N) (self : Z), self <> 0 -> (c < Kernel.Ident.M64)%N ->
    Gen.Ident.qthread_id (ctr_oracle c) self (Z.of_N fld) = Some (Z.of_N (fst (fst (Kernel.Ident.qthread_id fld c)))).
Proof. exact tie_qthread_id. Qed.
Print Assumptions gen_c09_qthread_id.
