(* Regeneration tie for C17 (qarray): the functions of Qarray/Model.v that the C17 theorems are about are equal, on
   the stated no-overflow domain, to the definitions regenerated from src/ds/qarray.c + include/qthread/qarray.h by
   tools/ctrans.py on every run (Gen/Qarray.v).  Theorems only; proofs in Gen/Tie_Qarray.v. *)
From Coq Require Import ZArith NArith.
From QV Require Import Gen.CInt Gen.Qarray Gen.Tie_Qarray Gen.Tie_QarrayCreate Qarray.Model.
Local Open Scope Z_scope.

(* qarray_elem_nomigrate(a, i) = a->base_ptr + Model.elem_off a i *)
Theorem gen_c17_elem_off :
  forall (aptr base : Z) (a : desc) (i : N),
    aptr <> 0 -> (i <= d_count a)%N -> (0 < d_segsize a)%N ->
    0 <= base -> Z.of_N (d_count a) < M64 -> base + Z.of_N (elem_off a i) < M64 ->
    gen_elem aptr base a i = Some (base + Z.of_N (elem_off a i)).
Proof. exact tie_elem_off. Qed.
Print Assumptions gen_c17_elem_off.

(* NULL array or index beyond count: NULL *)
Theorem gen_c17_elem_null :
  forall aptr i base cnt sb ss us,
    aptr = 0 \/ cnt < i -> qarray_elem_nomigrate aptr i base cnt sb ss us = Some 0.
Proof. exact tie_elem_null. Qed.
Print Assumptions gen_c17_elem_null.

(* qarray_internal_segment_shep(a, head) = head + Model.shep_slot a (DIST; 4-aligned segment head; the slot fits) *)
Theorem gen_c17_shep_slot :
  forall (head : Z) (a : desc),
    0 <= head -> head mod 4 = 0 ->
    Z.of_N (shep_slot a) + 2 <= Z.of_N (d_segbytes a) -> head + Z.of_N (d_segbytes a) < M64 ->
    gen_shep_slot head a = Some (head + Z.of_N (shep_slot a)).
Proof. exact tie_shep_slot. Qed.
Print Assumptions gen_c17_shep_slot.

(* qarray_internal_shepof_segidx(a, seg) = Model.shepof_seg, per dist_type *)
Theorem gen_c17_shepof_all_same :
  forall nsheps asg rd aptr base (a : desc) (seg : N),
    d_kind a = ALL_SAME ->
    gen_shepof_segidx nsheps rd aptr base a seg = Some (Z.of_N (shepof_seg nsheps asg a seg)).
Proof. exact tie_shepof_all_same. Qed.
Print Assumptions gen_c17_shepof_all_same.

Theorem gen_c17_shepof_fixed_hash :
  forall nsheps asg rd aptr base (a : desc) (seg : N),
    d_kind a = FIXED_HASH -> (0 < nsheps)%N -> Z.of_N nsheps <= 65536 ->
    gen_shepof_segidx nsheps rd aptr base a seg = Some (Z.of_N (shepof_seg nsheps asg a seg)).
Proof. exact tie_shepof_fixed_hash. Qed.
Print Assumptions gen_c17_shepof_fixed_hash.

Theorem gen_c17_shepof_fixed_fields :
  forall nsheps asg rd aptr base (a : desc) (seg : N),
    d_kind a = FIXED_FIELDS -> (0 < d_sps a)%N -> Z.of_N (d_sps a) + 1 < M64 ->
    Z.of_N seg < M64 -> Z.of_N (d_extras a) < M64 ->
    Z.of_N (shepof_seg nsheps asg a seg) < 65536 ->
    gen_shepof_segidx nsheps rd aptr base a seg = Some (Z.of_N (shepof_seg nsheps asg a seg)).
Proof. exact tie_shepof_fixed_fields. Qed.
Print Assumptions gen_c17_shepof_fixed_fields.

(* DIST: the id is read from the slot of the segment whose head the element arithmetic yields *)
Theorem gen_c17_shepof_dist :
  forall (nsheps : N) (rd : Z -> Z) aptr base (a : desc) (seg : N),
    d_kind a = DIST -> aptr <> 0 -> (0 < d_segsize a)%N -> (seg * d_segsize a <= d_count a)%N ->
    0 <= base -> Z.of_N (d_count a) < M64 -> base + Z.of_N seg * Z.of_N (d_segbytes a) < M64 ->
    gen_shepof_segidx nsheps rd aptr base a seg = Some (rd (base + Z.of_N seg * Z.of_N (d_segbytes a))).
Proof. exact tie_shepof_dist. Qed.
Print Assumptions gen_c17_shepof_dist.

(* "choose allocation sizes / set dist_type / segment_count" of qarray_create_internal = the size fields of Model.create
   (unit_size_of, layout with the shrink loop, kind_of, seg_count); qt_lcm is an oracle on both sides (N.lcm) *)
Theorem gen_c17_create_sizes :
  forall (fuel : nat) (count obj : N) (dd : distribution) (tight : bool) (segpages pagesize nsheps oshep : N),
    (0 < obj)%N -> Z.of_N obj < B40 -> (4 <= pagesize)%N -> Z.of_N pagesize < B30 -> Z.of_N segpages < B31 ->
    Z.of_N count < M64 ->
    (0 < d_segsize (create count obj dd tight segpages pagesize nsheps oshep))%N ->
    (N.to_nat ((if (segpages =? 0)%N then 16 * pagesize else segpages * pagesize) / unit_size_of obj tight) < fuel)%nat ->
    qarray_create_sizes fuel (Z.of_N count) (Z.of_N obj) (dcode dd) (if tight then 1 else 0) (Z.of_N segpages)
                        (Z.of_N pagesize) zlcm
    = Some (Z.of_N (d_unit (create count obj dd tight segpages pagesize nsheps oshep)),
            Z.of_N (d_segbytes (create count obj dd tight segpages pagesize nsheps oshep)),
            Z.of_N (d_segsize (create count obj dd tight segpages pagesize nsheps oshep)),
            kind_code (d_kind (create count obj dd tight segpages pagesize nsheps oshep)),
            Z.of_N (seg_count count (d_segsize (create count obj dd tight segpages pagesize nsheps oshep)))).
Proof. exact tie_create_sizes. Qed.
Print Assumptions gen_c17_create_sizes.

(* qt_lcm itself (include/qt_gcd.h -> Gen/Gcd.v; proof in Gen/Tie_Gcd.v): the `zlcm` oracle of gen_c17_create_sizes (N.lcm)
   is the regenerated C function when the product fits 64 bits *)
From QV Require Import Gen.Gcd Gen.Tie_Gcd.
Theorem gen_c17_lcm : forall a b : N, Z.of_N a * Z.of_N b < 18446744073709551616 ->
  Gen.Gcd.qt_lcm (S (N.to_nat (N.size a))) (Z.of_N a) (Z.of_N b) = Some (Z.of_N (N.lcm a b)).
Proof. exact tie_lcm_N. Qed.
Print Assumptions gen_c17_lcm.
