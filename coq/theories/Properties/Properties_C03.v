From Coq Require Import List NArith Bool.
From QV Require Import Syncvar.Defs Syncvar.Model Syncvar.Proofs.
Import ListNotations.
Local Open Scope N_scope.

Theorem payload_roundtrip : forall v st, v < two60 -> st < 8 ->
  decode (build_unlocked v st) = (v, st, false).
Proof. exact payload_roundtrip_l. Qed.
Print Assumptions payload_roundtrip.

Theorem overflow_rejected : forall x t v, two60 <= v ->
  step_var x t (WriteF v) = (x, [Ret t RC_OVERFLOW None]) /\
  step_var x t (WriteEF v) = (x, [Ret t RC_OVERFLOW None]) /\
  step_var x t (WriteEF_nb v) = (x, [Ret t RC_OVERFLOW None]).
Proof. exact overflow_rejected_l. Qed.
Print Assumptions overflow_rejected.
