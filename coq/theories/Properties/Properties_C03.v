(* C03: syncvar_t variables obey full/empty semantics with a 60-bit payload.  Theorems about Syncvar/Model.v (the
   executable model that the correspondence run compares with src/syncvar.c) and Syncvar/CellSpec.v (the abstract cell). *)
From Coq Require Import List NArith Bool Permutation.
From QV Require Import Syncvar.Defs Syncvar.Model Syncvar.CellSpec Syncvar.Proofs Syncvar.Micro.
Import ListNotations.
Local Open Scope N_scope.

(* every initialiser gives a legal variable *)
Theorem sv_init_shape : forall v,
  shape (mkV SYNCVAR_INITIALIZER None) /\ shape (mkV SYNCVAR_EMPTY_INITIALIZER None) /\
  shape (mkV (SYNCVAR_INITIALIZE_TO v) None) /\ shape (mkV (SYNCVAR_EMPTY_INITIALIZE_TO v) None).
Proof. exact shape_init. Qed.
Print Assumptions sv_init_shape.

(* every API call, by any task, in any of the legal shapes, gives a legal shape and never faults / times out *)
Theorem sv_shape_preserved : forall x t o x' evs,
  shape x -> step_var x t o = (x', evs) -> shape x' /\ has_fault evs = false.
Proof. exact step_var_shape. Qed.
Print Assumptions sv_shape_preserved.

(* for every script (any tasks, any variables, any operations, any length): all reachable states are legal *)
Theorem sv_reachable_ok : forall script s s' tr,
  state_ok s -> run s script = (s', tr) -> state_ok s' /\ Forall (fun evs => has_fault evs = false) tr.
Proof. exact run_ok. Qed.
Print Assumptions sv_reachable_ok.

(* the invariant in words: state 1 <-> full with blocked writers, state 3 <-> empty with blocked readers, states 0/2 <->
   no waiters at all, hash record present <-> somebody waits (the waiter bit is never lost), no blocked operation is enabled *)
Theorem sv_inv_holds : forall x, shape x ->
  let st := state_of (word x) in
  lock_of (word x) = false /\ st <= 3 /\
  (st = 1 <-> is_full x = true /\ efq x <> []) /\
  (st = 3 <-> is_full x = false /\ (feq x <> [] \/ ffq x <> [])) /\
  (st = 0 \/ st = 2 -> efq x = [] /\ feq x = [] /\ ffq x = []) /\
  (rec x <> None <-> efq x <> [] \/ feq x <> [] \/ ffq x <> []) /\
  (efq x <> [] -> is_full x = true) /\ (feq x <> [] \/ ffq x <> [] -> is_full x = false).
Proof. exact shape_sv_inv. Qed.
Print Assumptions sv_inv_holds.

(* each concrete step IS the step of the abstract atomic cell (same events in the same order, same resulting cell and
   blocked sets), for every operation *)
Theorem sv_refines_cell : forall x t o x' evs,
  shape x -> step_var x t o = (x', evs) -> spec_step (abs x) t o = (abs x', evs).
Proof. exact step_refines. Qed.
Print Assumptions sv_refines_cell.

(* the abstract cell keeps "no blocked operation is enabled" *)
Theorem cell_quiescent : forall a t o a' evs, quiescent a -> spec_step a t o = (a', evs) -> quiescent a'.
Proof. exact spec_quiescent. Qed.
Print Assumptions cell_quiescent.

(* wake-up clauses of the abstract cell *)
Theorem cell_wake_full : forall v ef fe ff a' evs,
  wake (mkC true v) ef fe ff = (a', evs) ->
  evs = map (fun b => Ret (w_tid b) RC_SUCCESS (dval (w_dest b) v)) (ff ++ firstn 1 fe) /\
  pFF a' = [] /\ pFE a' = skipn 1 fe /\ pEF a' = ef /\
  c_full (a_cell a') = negb (nonnil fe) /\ c_val (a_cell a') = v.
Proof. exact wake_full_releases. Qed.
Print Assumptions cell_wake_full.

Theorem cell_wake_empty : forall v ef fe ff a' evs,
  wake (mkC false v) ef fe ff = (a', evs) ->
  evs = map (fun b => Ret (w_tid b) RC_SUCCESS None) (firstn 1 ef) /\
  pEF a' = skipn 1 ef /\ pFE a' = fe /\ pFF a' = ff /\
  c_full (a_cell a') = nonnil ef /\ c_val (a_cell a') = match ef with b :: _ => w_val b | [] => v end.
Proof. exact wake_empty_releases. Qed.
Print Assumptions cell_wake_empty.

(* wake-up clauses on the concrete model: a call that makes the variable full (fill, writeF, writeEF, writeEF_nb, incrF on
   state 3) releases ALL readFF waiters and exactly min(1,|readFE waiters|) readFE waiter, each with the new value *)
Theorem sv_fill_releases : forall x t o nv x' evs,
  shape x -> state_of (word x) = 3 -> fill_op o (data_of (word x)) = Some nv -> step_var x t o = (x', evs) ->
  tl evs = map (fun b => Ret (w_tid b) RC_SUCCESS (dval (w_dest b) nv)) (ffq x ++ firstn 1 (feq x)) /\
  ffq x' = [] /\ feq x' = skipn 1 (feq x) /\ efq x' = [] /\
  data_of (word x') = wrap60 nv /\ is_full x' = negb (nonnil (feq x)) /\ shape x'.
Proof. exact fill_releases_l. Qed.
Print Assumptions sv_fill_releases.

(* a call that empties the variable (empty, readFE, readFE_nb on state 1) releases exactly one writeEF waiter, whose value
   becomes the payload; the others stay recorded *)
Theorem sv_empty_releases : forall x t o x' evs,
  shape x -> state_of (word x) = 1 -> empty_op o = true -> step_var x t o = (x', evs) ->
  exists X rest, efq x = X :: rest /\
  tl evs = [Ret (w_tid X) RC_SUCCESS None] /\ efq x' = rest /\ feq x' = [] /\ ffq x' = [] /\
  data_of (word x') = w_val X /\ is_full x' = true /\ shape x'.
Proof. exact empty_releases_l. Qed.
Print Assumptions sv_empty_releases.

(* a call that releases nobody never loses a waiter (with sv_inv_holds for x': nor the waiters flag, nor the record) *)
Theorem sv_no_release_keeps_waiters : forall x t o x' evs,
  shape x -> step_var x t o = (x', evs) -> tl evs = [] ->
  (evs = [Blocked t] /\ exists X, w_tid X = t /\
      (efq x' = X :: efq x /\ feq x' = feq x /\ ffq x' = ffq x \/
       efq x' = efq x /\ feq x' = X :: feq x /\ ffq x' = ffq x \/
       efq x' = efq x /\ feq x' = feq x /\ ffq x' = X :: ffq x)) \/
  (efq x' = efq x /\ feq x' = feq x /\ ffq x' = ffq x).
Proof. exact no_release_keeps_waiters_l. Qed.
Print Assumptions sv_no_release_keeps_waiters.

(* non-blocking twins: fail with OPFAIL exactly where the blocking call would enqueue the caller, otherwise identical; never enqueue *)
Theorem sv_nb_twin : forall x t o o_nb,
  shape x -> twin o = Some o_nb ->
  (step_var x t o = (fst (step_var x t o), [Blocked t]) <-> step_var x t o_nb = (x, [Ret t RC_OPFAIL None])) /\
  (snd (step_var x t o) <> [Blocked t] -> step_var x t o_nb = step_var x t o) /\
  ~ In (Blocked t) (snd (step_var x t o_nb)).
Proof. exact nb_twin_l. Qed.
Print Assumptions sv_nb_twin.

(* 60-bit payload *)
Theorem payload_roundtrip : forall v st, v < two60 -> st < 8 ->
  decode (build_unlocked v st) = (v, st, false).
Proof. exact payload_roundtrip_l. Qed.
Print Assumptions payload_roundtrip.

Theorem overflow_rejected : forall x t v, two60 <= v ->
  step_var x t (WriteF v) = (x, [Ret t RC_OVERFLOW None]) /\
  step_var x t (WriteEF v) = (x, [Ret t RC_OVERFLOW None]) /\
  step_var x t (WriteEF_nb v) = (x, [Ret t RC_OVERFLOW None]).
Proof. exact overflow_rejected_l. Qed.
Print Assumptions overflow_rejected.

(* incrF: n calls by any tasks -> payload = init + sum (mod 2^60), each call returns the running sum mod 2^60 (= the payload right after it); any order gives the same payload *)
Theorem incrF_atomic : forall l x x' rets,
  shape x -> run_incr x l = (x', rets) ->
  shape x' /\ data_of (word x') = wrap60 (data_of (word x) + sum_incs l) /\
  rets = expected_returns (data_of (word x)) l.
Proof. exact incrF_atomic_l. Qed.
Print Assumptions incrF_atomic.

Theorem incrF_any_order : forall l l' x x1 r1 x2 r2,
  shape x -> Permutation l l' -> run_incr x l = (x1, r1) -> run_incr x l' = (x2, r2) ->
  data_of (word x1) = data_of (word x2).
Proof. exact incrF_any_order_l. Qed.
Print Assumptions incrF_any_order.

(* incrF returns the new value of the variable (the regression case of /repo 70f90aa, payload 2^60-1 + 1 -> 0, is
   Syncvar/Examples.v incrF_wrap_regression and corpus/C03/05_incrF_wrap.txt) *)
Theorem incrF_returns_new_value : forall x t inc x' evs,
  shape x -> step_var x t (IncrF inc) = (x', evs) ->
  hd Fault evs = Ret t RC_SUCCESS (Some (data_of (word x'))) /\ data_of (word x') = wrap60 (data_of (word x) + inc).
Proof. exact incrF_returns_new_value_l. Qed.
Print Assumptions incrF_returns_new_value.

(* ---- micro-step layer (Syncvar/Micro.v): the word as a CAS lock, threads = program counters over atomic accesses to the
   one 64-bit word (load, CAS, store), every schedule = every list of thread ids.  Hardware assumption: atomic CAS, SC. ---- *)

(* the lock bit is set iff exactly one thread is between its successful CAS and its releasing store, that thread sees the
   word exactly as it locked it (mutex_inv), and no two threads are inside together; any mix of incrF and writeF threads *)
Theorem lock_bit_mutex : forall w0 progs sched,
  lk w0 = false ->
  let s := mrun (minit w0 progs) sched in
  mutex_inv s /\
  forall t1 t2 th1 th2, t1 <> t2 -> nth_error (thr s) t1 = Some th1 -> nth_error (thr s) t2 = Some th2 ->
                        holder th1 = 1 -> holder th2 = 1 -> False.
Proof. exact lock_bit_mutex_l. Qed.
Print Assumptions lock_bit_mutex.

(* n threads, one incrF each, under EVERY interleaving of their loads / CAS attempts / stores: no increment is lost
   (payload = init + sum of the finished calls' increments mod 2^60 at every point, = init + sum of all when all returned),
   and the values returned are exactly the running sums in lock order: the log holds them in release order, it contains
   exactly the finished calls with their returned values, each thread at most once *)
Theorem incrF_atomic_micro : forall w0 incs sched,
  lk w0 = false -> mdat w0 < two60 ->
  let s := mrun (minit w0 (map PIncr incs)) sched in
  mdat (mw s) = wrap60 (mdat w0 + sumf done_inc (thr s)) /\
  hist_ok (mdat w0) (hist s) /\ mdat (mw s) = last_val (mdat w0) (hist s) /\
  (forall t th r, nth_error (thr s) t = Some th -> t_pc th = PcDone r -> In (t, inc_of th, r) (hist s)) /\
  (forall t i r, In (t, i, r) (hist s) -> exists th, nth_error (thr s) t = Some th /\ t_pc th = PcDone r /\ inc_of th = i) /\
  NoDup (map tid_of (hist s)) /\
  (all_done s -> mdat (mw s) = wrap60 (mdat w0 + sum_list incs) /\ lk (mw s) = false).
Proof. exact incrF_atomic_micro_full. Qed.
Print Assumptions incrF_atomic_micro.
