(* C01: FEB words behave as atomic full/empty cells.  Statements only; proofs in Feb/Proofs.v, Feb/ProxyProofs.v, Cell/Proofs.v *)
From Coq Require Import List ZArith NArith Bool Permutation.
Import ListNotations.
From QV Require Import Cell.Spec Cell.Proofs Feb.Model Feb.Proofs Feb.GenProxy Feb.ProxyProofs Feb.NoDup Feb.Micro Feb.MicroProofs.

(* every reachable state (any list of (task, call) steps on any words, spawns included) keeps the queue discipline:
   full -> FEQ = FFQ = FFWQ = [], not full -> EFQ = [] *)
Theorem feb_inv : forall (l : list (N * gop)) (a : N) (r : rec),
  lookup a (st_febs (exec l)) = Some r ->
  (r_full r = true -> r_FEQ r = [] /\ r_FFQ r = [] /\ r_FFWQ r = []) /\ (r_full r = false -> r_EFQ r = []).
Proof. intros l a r H. pose proof (feb_inv_reachable l a r H) as I. split; apply I. Qed.
Print Assumptions feb_inv.

(* a task id is blocked on at most one waiter list of at most one word, in every reachable state.  Scripts are arbitrary:
   a call issued by a task that is blocked is not executed (step_blocked_skip; the harness does the same), which is the
   well-formedness condition "a blocked task issues no call" built into exec *)
Theorem blocked_call_skipped : forall s t g, is_blocked s t = true -> step s t g = (s, [Skip t]).
Proof. exact step_blocked_skip. Qed.
Print Assumptions blocked_call_skipped.

Theorem feb_inv_blocked_once : forall (l : list (N * gop)),
  NoDup (blocked_tids (exec l)) /\
  (forall a r, lookup a (st_febs (exec l)) = Some r -> NoDup (map w_tid (waiters_of r))) /\
  (forall a b r r' t, lookup a (st_febs (exec l)) = Some r -> lookup b (st_febs (exec l)) = Some r' ->
     In t (map w_tid (waiters_of r)) -> In t (map w_tid (waiters_of r')) -> a = b).
Proof.
  intros l. split; [exact (blocked_once_reachable l)|]. split; [exact (one_list_reachable l) | exact (one_word_reachable l)].
Qed.
Print Assumptions feb_inv_blocked_once.

(* one call = one atomic step of the abstract cell, then the released waiters' operations, each enabled where it
   stands, with the specification's values; a call that has to wait changes nothing and only enqueues the caller *)
Theorem feb_refines_cell : forall (l : list (N * gop)) (t a : N) (o : op),
  let s := exec l in
  is_blocked s t = false ->
  exists wr launched,
    word_step (lookup a (st_febs s)) (memget a s) t o = Some wr /\
    refines_cell (lookup a (st_febs s)) (memget a s) t o wr /\
    snd (step s t (GWord a o)) = caller_event t wr ++ rel_events (wr_rel wr) ++ launched /\
    (forall e, In e launched -> exists k, e = Enq k).
Proof. exact feb_refines_cell_reachable. Qed.
Print Assumptions feb_refines_cell.

(* the same for any record satisfying the invariant (not only reachable ones), with preservation of the invariant *)
Theorem feb_word_refines : forall (ro : option rec) (v : Z) (t : N) (o : op),
  winv_opt ro -> exists wr, word_step ro v t o = Some wr /\ winv_opt (wr_rec wr) /\ refines_cell ro v t o wr.
Proof. exact word_refines. Qed.
Print Assumptions feb_word_refines.

(* a non-blocking variant fails exactly when its blocking twin enqueues the caller; it never blocks, never enqueues *)
Theorem nb_twin : forall (ro : option rec) (v : Z) (t : N) (o : op),
  winv_opt ro -> is_nb o = true ->
  exists wr wr', word_step ro v t o = Some wr /\ word_step ro v t (twin o) = Some wr' /\
    (wr_code wr = Some OPFAIL <-> wr_code wr' = None) /\
    wr_code wr <> None /\
    (wr_code wr = Some OPFAIL -> pool_opt (wr_rec wr) = pool_opt ro /\ wr_rel wr = []).
Proof. exact nb_twin_word. Qed.
Print Assumptions nb_twin.

(* calls from a non-qthread pthread: the blocker table of the source maps every API function to itself *)
Theorem proxy_table_faithful : forall f : apiname, runs_as gen_passes gen_runs f = Some f.
Proof. exact ProxyProofs.proxy_table_faithful. Qed.
Print Assumptions proxy_table_faithful.

Theorem ext_step_faithful : forall (s : state) (t a : N) (o : op),
  step_ext (runs_as gen_passes gen_runs) s t a o = step s t (GWord a o).
Proof. exact ProxyProofs.ext_step_faithful. Qed.
Print Assumptions ext_step_faithful.

(* consequences on histories of the abstract cell *)
Theorem lock_mutex : forall (c : cell) (t1 t2 : N) (l : list (N * cop)) rs c',
  lin c ((t1, CLock) :: l ++ [(t2, CLock)]) rs c' -> ~ Forall (fun x => sets_full (snd x) = false) l.
Proof. intros c t1 t2 l rs c'. exact (Cell.Proofs.lock_mutex c t1 t2 l rs c'). Qed.
Print Assumptions lock_mutex.

Theorem ef_fe_once : forall (c : cell) (l : list (N * cop)) rs c',
  ef_fe_only l -> lin c l rs c' -> handover (c_full c) (c_val c) l rs.
Proof. intros c l rs c'. exact (Cell.Proofs.ef_fe_once c l rs c'). Qed.
Print Assumptions ef_fe_once.

(* ---------------- micro-step layer (Feb/Micro.v): two tasks, one word, every interleaving of the shared accesses ----------------
   For every pair of the 13 x 13 API calls, from both initial word states (no record = full; record present and empty), every
   maximal interleaving of the two calls' micro-steps (stripe lock, lookup / insert, record lock, stripe unlock, word access,
   gotlock body, record unlock, record removal) ends with results, full bit and value that the two atomic Cell.Spec
   operations produce in one of the two orders, and no task is stuck on a lock.  Finite domain: exhaustive, through a
   checked reachable-set certificate (MicroProofs.cert_sound). *)
Theorem micro_atomic_pairs : forall pe oa ob,
  In oa (ops_of 11) -> In ob (ops_of 22) ->
  forall sched s, Forall (fun t => t = 0%N \/ t = 1%N) sched ->
    run_with mstep (minit pe 5 oa ob) sched = Some s -> final_with mstep s -> good_final pe 5 oa ob s = true.
Proof. exact MicroProofs.micro_atomic_pairs. Qed.
Print Assumptions micro_atomic_pairs.

(* regressions about the access order before /repo eba51ae (word touched after the stripe unlock on the record-absent paths):
   it is not atomic; one witness per class, each reproduced on the real code before the fix *)
Theorem micro_atomic_old_refuted : exists pe v oa ob, ~ micro_atomic_old pe v oa ob.
Proof. exact MicroProofs.micro_atomic_old_refuted. Qed.
Print Assumptions micro_atomic_old_refuted.

Theorem micro_old_writeF_readFE_refuted :
  exists s, run_with mstep_old (minit false 5 (OWriteF (Some 11%Z)) (OReadFE DOwn)) (sched_of [0;0;0;1;1;1;1;1;1;0;1;1]%nat) = Some s /\
            final_with mstep_old s /\ good_final false 5 (OWriteF (Some 11%Z)) (OReadFE DOwn) s = false /\
            outcome_of s = (Some (OK, None), Some (OK, Some 5%Z), false, 11%Z).
Proof. exact writeF_readFE_bad. Qed.
Print Assumptions micro_old_writeF_readFE_refuted.

Theorem micro_old_readFF_purge_refuted :
  exists s, run_with mstep_old (minit false 5 (OReadFF DOwn) (OPurge (Some 22%Z))) (sched_of [0;0;0;1;1;1;1;0]%nat) = Some s /\
            final_with mstep_old s /\ good_final false 5 (OReadFF DOwn) (OPurge (Some 22%Z)) s = false /\
            outcome_of s = (Some (OK, Some 22%Z), Some (OK, None), false, 22%Z).
Proof. exact readFF_purge_bad. Qed.
Print Assumptions micro_old_readFF_purge_refuted.

Theorem micro_old_purge_writeEF_refuted :
  exists s, run_with mstep_old (minit false 5 (OPurge (Some 11%Z)) (OWriteEF (Some 22%Z))) (sched_of [0;0;0;1;1;1;1;1;1;0;1;1;1;1;1]%nat) = Some s /\
            final_with mstep_old s /\ good_final false 5 (OPurge (Some 11%Z)) (OWriteEF (Some 22%Z)) s = false /\
            outcome_of s = (Some (OK, None), Some (OK, None), true, 11%Z).
Proof. exact purge_writeEF_bad. Qed.
Print Assumptions micro_old_purge_writeEF_refuted.
