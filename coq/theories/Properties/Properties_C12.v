From Coq Require Import List ZArith.
From QV Require Import Loops.Model.
Theorem c12_placeholder : True. Proof. exact I. Qed.
Print Assumptions c12_placeholder.
