(** C12 — parallel loops cover the iteration space exactly once: the property theorems (full statements).
    Model: Loops/Model.v (mirrors src/qloop.c); proofs: Loops/Proofs.v, Loops/ProofsCursor.v. *)
From Coq Require Import List ZArith Bool Permutation.
From QV Require Import Loops.Model Loops.Proofs Loops.ProofsCursor.
Import ListNotations.
Local Open Scope Z_scope.

(** the split of qt_loop_balance_inner: for every start < stop and every worker count the ranges are non-empty,
    consecutive and disjoint, their concatenation is [start,stop) ([tiling]), there are min(stop-start, workers) of
    them and their sizes are [each] or [each+1] *)
Theorem split_partition : forall start stop nw, start < stop -> 1 <= nw < 65536 ->
  tiling (split start stop nw) start stop
  /\ length (split start stop nw) = Z.to_nat (Z.min (stop - start) nw)
  /\ exists each, 0 < each /\ Forall (fun r => snd r - fst r = each \/ snd r - fst r = each + 1) (split start stop nw).
Proof. exact split_partition_proof. Qed.
Print Assumptions split_partition.

(** a tiling from a to b: every index of [a,b) lies in exactly one range and every other index in none *)
Theorem tiling_exactly_once : forall l a b, tiling l a b ->
  Forall (fun r => fst r < snd r) l /\
  forall x, cover_count x l = if (a <=? x) && (x <? b) then 1%nat else 0%nat.
Proof. exact (fun l a b H => conj (tiling_nonempty l a b H) (tiling_count l a b H)). Qed.
Print Assumptions tiling_exactly_once.

(** the tree rooted at wrapper 0 (new_id = my_id + 2^level) spawns every id in 0..maxworkers-1 exactly once, no other *)
Theorem tree_spawns_all : forall mw x, 1 <= mw ->
  count_occ Z.eq_dec (map fst (tree mw)) x = if (0 <=? x) && (x <? mw) then 1%nat else 0%nat.
Proof. exact tree_spawns_all_proof. Qed.
Print Assumptions tree_spawns_all.

(** syncvar / aligned flavours: the return locations given to the wrappers are exactly the locations the caller waits on *)
Theorem completion_slots_exact : forall st start stop nw, st = ALIGNED \/ st = SYNCVAR_T ->
  start < stop -> 1 <= nw < 65536 ->
  Permutation (map (fun t => snd (fst t)) (balance_tasks st start stop nw))
              (map SlotIdx (waited_slots (maxworkers start stop nw))).
Proof. exact completion_slots_proof. Qed.
Print Assumptions completion_slots_exact.

(** qt_loop_balance*: every index of [start,stop) is passed to the user function by exactly one wrapper *)
Theorem balance_exactly_once : forall st start stop nw, start < stop -> 1 <= nw < 65536 ->
  forall x, cover_count x (map snd (balance_tasks st start stop nw)) =
            if (start <=? x) && (x <? stop) then 1%nat else 0%nat.
Proof. exact balance_exactly_once_proof. Qed.
Print Assumptions balance_exactly_once.

(** qt_loop_spawner: one task per index of its range, task k runs [lo+k, lo+k+1) and returns into slot k *)
Theorem spawner_one_task_per_index : forall lo hi, lo <= hi ->
  tiling (map task_range (spawner lo hi)) lo hi
  /\ Forall (fun t => snd (fst t) = fst (fst t) + 1) (spawner lo hi)
  /\ map snd (spawner lo hi) = map Z.of_nat (seq 0 (Z.to_nat (hi - lo))).
Proof. exact spawner_spec. Qed.
Print Assumptions spawner_one_task_per_index.

(** qt_loop* = balance over spawners: single-index tasks tiling [start,stop) *)
Theorem qt_loop_indices : forall start stop nw, start < stop -> 1 <= nw < 65536 ->
  tiling (map task_range (qt_loop_tasks start stop nw)) start stop
  /\ Forall (fun t => snd (fst t) = fst (fst t) + 1) (qt_loop_tasks start stop nw).
Proof. exact qt_loop_indices_proof. Qed.
Print Assumptions qt_loop_indices.

(** queue loops, all four cursor types ([p_fl p] is CHUNK, GUIDED, FACTORED or TIMED), every chunk size >= 1, every
    number of worker tasks and shepherd placement ([sheps]), every activesheps >= 1, every schedule of single shared
    accesses with arbitrary timer oracle bits: the ranges handed to the user function are never empty; every index of
    [start, min(cursor, stop)) lies in exactly one of them and no other index in any; and when all workers have received
    "no more" this is the whole of [start, stop).  (When qthread_num_workers() = 1 the code takes the non-atomic
    shortcut, and qt_loop_queue_run creates one task.) *)
Theorem claims_tile : forall (p : params) (start : Z),
  1 <= p_sheps p -> 1 <= p_chunk p -> (p_fl p = TIMED -> 1 <= p_step p) -> start <= p_stop p ->
  forall (sheps : list Z) (lb0 : Z) (sched : list (nat * bool)),
  (p_nw p = 1 -> (length sheps <= 1)%nat) ->
  let s := run p (init p start sheps lb0) sched in
  Forall (fun r => fst r < snd r) (map snd (s_out s)) /\
  (forall x, cover_count x (map snd (s_out s)) =
             if (start <=? x) && (x <? Z.min (s_cur s) (p_stop p)) then 1%nat else 0%nat) /\
  (sheps <> [] -> all_done s = true ->
   forall x, cover_count x (map snd (s_out s)) = if (start <=? x) && (x <? p_stop p) then 1%nat else 0%nat).
Proof. exact claims_tile_all. Qed.
Print Assumptions claims_tile.

(** the replay unit of the correspondence (one interposed CAS / fetch-add per grant) is a micro-step schedule *)
Theorem grant_is_run : forall p s tid slow, exists sched, grant p s tid slow = run p s sched.
Proof. exact grant_is_run_proof. Qed.
Print Assumptions grant_is_run.

(* ------------------------------------------------------------------ *)
(** third clause: "the loop call returns only after every invocation has returned" (Loops/Completion.v) *)
From QV Require Import Loops.Completion Loops.ProofsCompletion Loops.ProofsCompletionQ.

(** any task system whose return locations are pairwise distinct and all waited on (or that counts one signal per
    task), every schedule: when the caller's wait has completed, every task has delivered its signal and its user
    function was executed, exactly once *)
Theorem loop_returns_after_all : forall y, wf y -> forall sched,
  let s := crun y cinit sched in
  c_pc s = CReturned ->
  (forall d, In d (y_tasks y) -> c_stat s (d_id d) = Finished /\ In (d_id d) (c_ran s)) /\ NoDup (c_ran s).
Proof. exact returns_after_all_generic. Qed.
Print Assumptions loop_returns_after_all.

(** qt_loop_balance{,_simple,_sv,_dc,_aligned,_sinc}: every sync type, range, worker count and schedule of caller and
    wrapper steps: once the call has returned every wrapper has run its function and signalled, and each index of
    [start,stop) belongs to the range of exactly one completed invocation *)
Theorem loop_returns_after_all_balance : forall st start stop nw, start < stop -> 1 <= nw < 65536 ->
  forall sched,
  let y := balance_sys st start stop nw in
  let s := crun y cinit sched in
  c_pc s = CReturned ->
  (forall d, In d (y_tasks y) -> c_stat s (d_id d) = Finished /\ In (d_id d) (c_ran s)) /\
  NoDup (c_ran s) /\
  forall x, cover_count x (map d_range (filter (fun d => is_fin (c_stat s (d_id d))) (y_tasks y))) =
            if (start <=? x) && (x <? stop) then 1%nat else 0%nat.
Proof. exact loop_returns_after_all_balance_proof. Qed.
Print Assumptions loop_returns_after_all_balance.

(** qt_loop_spawner (the user function of the balance wrappers of the qt_loop flavours): returns only after the task of every index
    of its range has run and signalled; one completed single-index invocation per index *)
Theorem loop_returns_after_all_spawner : forall st lo hi, lo <= hi ->
  forall sched,
  let y := spawner_sys st lo hi in
  let s := crun y cinit sched in
  c_pc s = CReturned ->
  (forall d, In d (y_tasks y) -> c_stat s (d_id d) = Finished /\ In (d_id d) (c_ran s)) /\
  NoDup (c_ran s) /\
  forall x, cover_count x (map d_range (filter (fun d => is_fin (c_stat s (d_id d))) (y_tasks y))) =
            if (lo <=? x) && (x <? hi) then 1%nat else 0%nat.
Proof. exact loop_returns_after_all_spawner_proof. Qed.
Print Assumptions loop_returns_after_all_spawner.

(** qt_loop_queue_run, all four cursor types, every schedule of caller / worker steps (a worker step is one shared
    access of get_iterations, the func call for its pending claim, or its donecount increment): once the call has
    returned all workers were told "no more", no claimed range is waiting for its func call, and the executed calls are
    non-empty ranges covering each index of [start,stop) exactly once *)
Theorem loop_returns_after_all_queue : forall (p : params) (start : Z) (sheps : list Z) (lb0 : Z),
  1 <= p_sheps p -> 1 <= p_chunk p -> (p_fl p = TIMED -> 1 <= p_step p) -> start <= p_stop p ->
  (p_nw p = 1 -> (length sheps <= 1)%nat) -> sheps <> [] ->
  forall sched,
  let q := qrun p (qinit p start sheps lb0) sched in
  q_ret q = true ->
  all_done (q_s q) = true /\ pendl (q_pend q) = [] /\
  Forall (fun r => fst r < snd r) (map snd (q_exec q)) /\
  forall x, cover_count x (map snd (q_exec q)) = if (start <=? x) && (x <? p_stop p) then 1%nat else 0%nat.
Proof. exact queue_returns_after_all. Qed.
Print Assumptions loop_returns_after_all_queue.

(** regression variants with the slot rules before the two "fix:" commits in /repo: the wait never completes *)
(* 3745911: ALIGNED fell through to DONECOUNT; children returned into (&sync.dc)+id *)
Theorem aligned_slots_refuted : forall start stop nw, start + 2 <= stop -> 2 <= nw < 65536 ->
  forall sched, c_pc (crun (balance_sys_old_aligned start stop nw) cinit sched) <> CReturned.
Proof. exact aligned_slots_refuted_proof. Qed.
Print Assumptions aligned_slots_refuted.

(* 1c7a534: qt_loop_spawner gave every spawn return slot 0 *)
Theorem spawner_slots_refuted : forall st lo hi, st = ALIGNED \/ st = SYNCVAR_T -> lo + 2 <= hi ->
  forall sched, c_pc (crun (spawner_sys_old st lo hi) cinit sched) <> CReturned.
Proof. exact spawner_slots_refuted_proof. Qed.
Print Assumptions spawner_slots_refuted.
