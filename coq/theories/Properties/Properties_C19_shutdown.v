(* C19 extension U: the worker start-up / shutdown protocol of qthread_initialize / qthread_finalize
   (machine: Lifecycle/Shutdown.v; `step false` = the code, `step true` = the seeded C19-3 / C19-4 change) *)
From Coq Require Import List Arith Bool.
From QV Require Import Lifecycle.Shutdown Lifecycle.ShutdownProofs Lifecycle.ShutdownInv Lifecycle.ShutdownTheorems Lifecycle.ShutdownStartup.
Import ListNotations.

(* every admissible start (any S, W, any worker / shepherd flags, any queued tasks), every schedule: when the finalizer is done
   every worker thread has exited; before that somebody can always take a step that decreases the measure mu; and every step
   of every thread either leaves the state unchanged (a spinning read) or decreases mu -- so under weak fairness every
   pthread_join returns and qthread_finalize terminates after at most mu(s0) non-stuttering steps *)
Theorem shutdown_all_workers_exit : forall s0 sched s,
  wf_init s0 = true -> run false s0 sched = Some s ->
  (fin s = FDone -> all_exited s = true) /\
  (fin s <> FDone -> exists a s', step false s a = Some s' /\ mu s' < mu s) /\
  (forall a s', step false s a = Some s' -> s' = s \/ mu s' < mu s).
Proof. exact (fun s0 sched s W R => all_workers_exit_gen s0 s W (ex_intro _ sched R)). Qed.
Print Assumptions shutdown_all_workers_exit.

(* no reachable state is doomed: from every reachable state the shutdown can be completed within mu(s) steps *)
Theorem shutdown_never_doomed : forall s0 sched s,
  wf_init s0 = true -> run false s0 sched = Some s ->
  exists sched' sf, run false s sched' = Some sf /\ fin sf = FDone /\ all_exited sf = true /\ length sched' <= mu s.
Proof. exact (fun s0 sched s W R => never_doomed_gen s0 s W (ex_intro _ sched R)). Qed.
Print Assumptions shutdown_never_doomed.

(* after the join loop: no terminator is left in any queue, every worker thread has exited, on every shepherd i the number of
   exited workers = the number of terminators enqueued on its queue = the number of its worker threads (one terminator each,
   each taken once), no ordinary task was lost (run + still queued = at the entry), and an exited worker never steps again *)
Theorem shutdown_each_terminator_taken_once : forall s0 sched s,
  wf_init s0 = true -> run false s0 sched = Some s -> after_join (fin s) = true ->
  no_term_left s = true /\ all_exited s = true /\
  (forall i, sum (fex i) (workers s) = sum (fsh i) (workers s) /\ sum (fen i) (workers s) = sum (fsh i) (workers s)) /\
  total_tasks s = total_tasks s0 /\
  (forall k w v a, nth_error (workers s) k = Some w ->
     (a = ACheck k \/ a = ATerm k \/ (exists d, a = ATask k d) \/ (exists vi m, a = ASteal k vi m) \/ a = AEmpty k) -> step v s a = None).
Proof. exact (fun s0 sched s W R => each_terminator_taken_once_gen s0 s W (ex_intro _ sched R)). Qed.
Print Assumptions shutdown_each_terminator_taken_once.

(* a terminator accounting invariant of every reachable state: queued + taken = enqueued, per shepherd *)
Theorem shutdown_terminator_accounting : forall s0 sched s i,
  wf_init s0 = true -> run false s0 sched = Some s ->
  qtl (sheps s) i + sum (fex i) (workers s) = sum (fen i) (workers s).
Proof. exact (fun s0 sched s i W R => i_acc s (reach_inv s0 s W (ex_intro _ sched R)) i). Qed.
Print Assumptions shutdown_terminator_accounting.

(* every pthread_join that has returned did so after the joined worker left qthread_master *)
Theorem shutdown_join_after_exit : forall s0 sched s,
  wf_init s0 = true -> run false s0 sched = Some s ->
  forall k w, nth_error (workers s) k = Some w -> k < join_pos (length (workers s)) (fin s) -> wpc_ w = WExit.
Proof. exact (fun s0 sched s W R => join_after_exit_gen s0 s W (ex_intro _ sched R)). Qed.
Print Assumptions shutdown_join_after_exit.

(* freeing the worker memory / queues and the normal and late cleanup stages run only when no worker thread is alive *)
Theorem shutdown_cleanups_after_all_joined : forall s0 sched s,
  wf_init s0 = true -> run false s0 sched = Some s -> after_join (fin s) = true -> all_exited s = true.
Proof. exact (fun s0 sched s W R => cleanups_after_all_joined_gen s0 s W (ex_intro _ sched R)). Qed.
Print Assumptions shutdown_cleanups_after_all_joined.

(* regression (seeded C19-3 / C19-4): with the re-enabling test reading the SHEPHERD's flag, 4 x 2 with hw_par 7 reaches a state
   in which the finalizer waits in pthread_join for worker (3,1), which is inactive, and every enabled step of every thread leaves
   the state unchanged: a hang.  The same start is admissible for the code's test (wf_init), for which the theorems above hold *)
Theorem shutdown_shepherd_flag_test_refuted :
  exists s, run true (init_state 4 2 7 [] []) wit_sched = Some s /\ fin s = FJoin 6 /\ stuck_at_join s = Some (3, 1) /\
            (forall a s', step true s a = Some s' -> s' = s) /\ wf_init (init_state 4 2 7 [] []) = true.
Proof. exact shep_flag_test_refuted_gen. Qed.
Print Assumptions shutdown_shepherd_flag_test_refuted.

(* the proviso of the theorems above is necessary: a qthread_disable_worker that lands AFTER the finalizer's test of that worker's
   flag (1 x 2: enqueue, test, early stage, then the disable) leaves the worker spinning and the join waiting for ever -- the machine
   therefore assumes that no disable call runs concurrently with qthread_finalize *)
Theorem shutdown_concurrent_disable_hangs :
  exists s1, run false (init_state 1 2 2 [] []) [AFin; AFin; AFin] = Some s1 /\
             let s := set_worker_flag s1 0 false in
             stuck_at_join s = Some (0, 1) /\ (forall a s', step false s a = Some s' -> s' = s).
Proof. exact concurrent_disable_hangs_gen. Qed.
Print Assumptions shutdown_concurrent_disable_hangs.

(* start-up: the creation loop makes S*W - 1 worker threads, worker (i,j) active iff j*S + i + 1 <= hw_par, the workers
   scheduling work (main + active threads) number hw_par = what qthread_num_workers() reports (nworkers_active := hw_par) *)
Theorem startup_counts_exact : forall S_ W_ hw, 1 <= S_ -> 1 <= W_ -> 1 <= hw <= S_ * W_ ->
  length (init_workers S_ W_ hw) = S_ * W_ - 1 /\ active_workers S_ W_ hw = hw /\
  (forall w, In w (init_workers S_ W_ hw) ->
     wshep w < S_ /\ wloc w < W_ /\ (wshep w, wloc w) <> (0, 0) /\ wact w = ((wloc w * S_) + wshep w + 1 <=? hw) /\ wpc_ w = WSpin /\ wterm w = false) /\
  (forall i j, i < S_ -> j < W_ -> (i, j) <> (0, 0) -> In (mk_worker S_ hw i j) (init_workers S_ W_ hw)).
Proof.
  exact (fun S_ W_ hw HS HW Hh => conj (init_workers_length S_ W_ hw HS HW) (conj (active_workers_exact S_ W_ hw HS HW Hh)
          (conj (init_workers_spec S_ W_ hw) (init_workers_complete S_ W_ hw)))).
Qed.
Print Assumptions startup_counts_exact.

(* what initialize builds, followed by any sequence of disable / enable calls (flag writes), is an admissible start *)
Theorem startup_state_admissible : forall S_ W_ hw sfl tasks, 1 <= S_ -> 1 <= W_ ->
  wf_init (init_state S_ W_ hw sfl tasks) = true /\
  (forall s, wf_init s = true -> (forall k b, wf_init (set_worker_flag s k b) = true) /\ (forall i b, wf_init (set_shep_flag s i b) = true)).
Proof. exact (fun S_ W_ hw sfl tasks HS HW => conj (init_state_wf S_ W_ hw sfl tasks HS HW) flag_writes_wf). Qed.
Print Assumptions startup_state_admissible.
