(* C10 -- sinc: property theorems (statements in full; proofs in Sinc/Proofs.v).
   Model: Sinc/Model.v, one step = one shared access / operator call of src/sincs/donecount.c.
   V, vop = the user's value type and operator; progs = ANY submit/expect/wait programs with ANY placement
   (slot) per submit; sched = ANY list of thread ids.
   clean s = the property's proviso on the history: no expect found the count at zero (exp0 = false), no
   submission was begun beyond initial + expects (over = false), the count fits the 64-bit counter.
   all_arrived s = counter 0, #decrements = initial + sum of expects, every begun submit has decremented. *)
From Coq Require Import List ZArith Bool Arith.
From QV Require Import Sinc.Model Sinc.Proofs.
Import ListNotations.

(* whenever a wait has got past its readFF (returned, or copying the result), every expected submission is in *)
Theorem wait_after_all_submits :
  forall (V : Type) (vop : V -> V -> V) (hd : bool) (iv : V) (ns : nat) (c : Z)
         (progs : list (list (op V))) (sched : list nat) (i : nat) (t : thr V),
    let s := exec V vop (start V hd iv ns c progs) sched in
    clean V s -> nth_error (thrs s) i = Some t -> (t_got t <> [] \/ t_pc t = PCopy) -> all_arrived V s.
Proof. exact wait_after_all_submits_start. Qed.
Print Assumptions wait_after_all_submits.

(* the same for the generation that follows qt_sinc_reset on any state *)
Theorem wait_after_all_submits_after_reset :
  forall (V : Type) (vop : V -> V -> V) (s0 : state V) (n : Z) (progs : list (list (op V))) (sched : list nat) (i : nat) (t : thr V),
    let s := exec V vop (reset V s0 n progs) sched in
    clean V s -> nth_error (thrs s) i = Some t -> (t_got t <> [] \/ t_pc t = PCopy) -> all_arrived V s.
Proof. exact wait_after_all_submits_reset. Qed.
Print Assumptions wait_after_all_submits_after_reset.

(* the proviso is necessary: an expect that finds the count at zero lets a wait through with a submission outstanding *)
Theorem wait_without_proviso_refuted :
  let s := exec nat Nat.add (start nat true 0%nat 1 1 w_progs) w_sched in
  exp0 s = true /\ over s = false /\
  (exists t, nth_error (thrs s) 2 = Some t /\ t_got t <> []) /\ (Z.of_nat (decs s) < c0 s + exps s)%Z /\ counter s = 1%Z.
Proof. exact wait_without_proviso_refuted_lemma. Qed.
Print Assumptions wait_without_proviso_refuted.

(* while a thread collates, and whenever ready is full, no submission is outstanding or between its slot update and
   its decrement: the collation reads every slot after all slot updates *)
Theorem collate_sees_all :
  forall (V : Type) (vop : V -> V -> V) (hd : bool) (iv : V) (ns : nat) (c : Z)
         (progs : list (list (op V))) (sched : list nat),
    let s := exec V vop (start V hd iv ns c progs) sched in
    clean V s ->
    (forall i t, nth_error (thrs s) i = Some t -> isCol V t = true -> all_arrived V s) /\
    (ready s = true -> all_arrived V s).
Proof. exact collate_sees_all_start. Qed.
Print Assumptions collate_sees_all.

(* ... and from then on no submit or expect step can happen without breaking the proviso (slots are frozen) *)
Theorem frozen_after_arrival :
  forall (V : Type) (vop : V -> V -> V) (hd : bool) (iv : V) (ns : nat) (c : Z)
         (progs : list (list (op V))) (sched : list nat) (i : nat) (s' : state V) (t : thr V),
    let s := exec V vop (start V hd iv ns c progs) sched in
    counter s = 0%Z -> nth_error (thrs s) i = Some t -> step V vop s i = Some s' -> clean V s' ->
    match t_pc t with PSlot _ _ | PDec _ | PAdd _ | PEmpty => False | _ => True end.
Proof. exact frozen_after_arrival_start. Qed.
Print Assumptions frozen_after_arrival.

(* THE VALUE STATEMENT, end to end: for an associative-commutative operator whose identity is the initial value, every
   value delivered by a completed wait is the reduction of exactly the multiset of submitted values -- for every
   count (zero included), every placement of the submitters on valid slots, every schedule -- and at that time every
   expected submission has been made and folded in (all_arrived).  No guard on the count since /repo 15fe3d8. *)
Theorem sinc_value :
  forall (V : Type) (vop : V -> V -> V),
    (forall a b c : V, vop (vop a b) c = vop a (vop b c)) -> (forall a b : V, vop a b = vop b a) ->
    forall (hd : bool) (iv : V) (ns : nat) (c : Z) (progs : list (list (op V))) (sched : list nat) (i : nat) (t : thr V) (r : V),
      (forall x, vop iv x = x) -> Forall (Forall (progok V ns)) progs ->
      let s := exec V vop (start V hd iv ns c progs) sched in
      clean V s -> nth_error (thrs s) i = Some t -> In (Some r) (t_got t) ->
      r = reduce V vop (submitted s) iv /\ all_arrived V s.
Proof. exact sinc_value_start. Qed.
Print Assumptions sinc_value.

(* the same for the generation that follows qt_sinc_reset on any state: a reset sinc behaves like a fresh one *)
Theorem sinc_value_after_reset :
  forall (V : Type) (vop : V -> V -> V),
    (forall a b c : V, vop (vop a b) c = vop a (vop b c)) -> (forall a b : V, vop a b = vop b a) ->
    forall (s0 : state V) (n : Z) (progs : list (list (op V))) (sched : list nat) (i : nat) (t : thr V) (r : V),
      (forall x, vop (initv s0) x = x) -> Forall (Forall (progok V (nslots s0))) progs ->
      let s := exec V vop (reset V s0 n progs) sched in
      clean V s -> nth_error (thrs s) i = Some t -> In (Some r) (t_got t) ->
      r = reduce V vop (submitted s) (initv s0) /\ all_arrived V s.
Proof. exact sinc_value_reset. Qed.
Print Assumptions sinc_value_after_reset.

(* the components the value statement is assembled from (kept: they hold without the proviso) *)
(* value, part 1: for an associative-commutative operator a slot update folds the value into the total of the slots
   exactly as into the multiset of submitted values, whichever slot (placement) is used *)
Theorem sinc_value_partial_slot_update :
  forall (V : Type) (vop : V -> V -> V),
    (forall a b c : V, vop (vop a b) c = vop a (vop b c)) -> (forall a b : V, vop a b = vop b a) ->
    forall (s : state V) (i : nat) (t : thr V) (v : V) (k : nat) (s' : state V),
      nth_error (thrs s) i = Some t -> t_pc t = PSlot v k -> (k < length (slots s))%nat ->
      step V vop s i = Some s' ->
      submitted s' = submitted s ++ [v] /\
      forall a, reduce V vop (slots s') a = vop (reduce V vop (slots s) a) v /\
                reduce V vop (submitted s') a = vop (reduce V vop (submitted s) a) v.
Proof. exact slot_step_reduce. Qed.
Print Assumptions sinc_value_partial_slot_update.

(* value, part 2: no other step touches slots or the submitted multiset *)
Theorem sinc_value_partial_other_steps :
  forall (V : Type) (vop : V -> V -> V) (s : state V) (i : nat) (t : thr V) (s' : state V),
    nth_error (thrs s) i = Some t -> (forall v k, t_pc t <> PSlot v k) -> step V vop s i = Some s' ->
    slots s' = slots s /\ submitted s' = submitted s.
Proof. exact other_step_keeps_slots. Qed.
Print Assumptions sinc_value_partial_other_steps.

(* value, part 3: what the collation steps and the copy do to result / the delivered value *)
Theorem sinc_value_partial_collate_steps :
  forall (V : Type) (vop : V -> V -> V) (s : state V) (i : nat) (t : thr V) (s' : state V),
    nth_error (thrs s) i = Some t -> step V vop s i = Some s' ->
    match t_pc t with
    | PC0 => result s' = initv s
    | PCol k => result s' = vop (result s) (nth k (slots s) (initv s))
    | PCopy => exists t', nth_error (thrs s') i = Some t' /\ t_got t' = t_got t ++ [Some (result s)]
    | _ => result s' = result s
    end.
Proof. exact collate_steps. Qed.
Print Assumptions sinc_value_partial_collate_steps.

(* value, part 4: collating slots whose total equals the reduction of the submitted values yields that reduction *)
Theorem sinc_value_partial_collation :
  forall (V : Type) (vop : V -> V -> V) (sl vs : list V) (e : V),
      (forall x, vop e x = x) -> reduce V vop sl e = reduce V vop vs e ->
      fold_left (fun r j => vop r (nth j sl e)) (seq 0 (length sl)) e = reduce V vop vs e.
Proof. exact collate_of_slots. Qed.
Print Assumptions sinc_value_partial_collation.

(* reset: with n <> 0, or n = 0 on a completed sinc, the state IS that of a freshly initialised sinc *)
Theorem reset_fresh :
  forall (V : Type) (s : state V) (n : Z) (progs : list (list (op V))),
    n <> 0%Z -> reset V s n progs = start V (hasdata s) (initv s) (nslots s) n progs.
Proof. exact reset_fresh_pos. Qed.
Print Assumptions reset_fresh.

Theorem reset_fresh_zero_after_completion :
  forall (V : Type) (s : state V) (progs : list (list (op V))),
    ready s = true -> reset V s 0 progs = start V (hasdata s) (initv s) (nslots s) 0 progs.
Proof. exact reset_fresh_zero_complete. Qed.
Print Assumptions reset_fresh_zero_after_completion.

(* reset 0 of an incomplete sinc leaves ready empty, a fresh sinc with 0 is full (unspecified by the API text) *)
Theorem reset_zero_incomplete_differs :
  forall (V : Type) (s : state V) (progs : list (list (op V))),
    ready s = false ->
    ready (reset V s 0 progs) = false /\ ready (start V (hasdata s) (initv s) (nslots s) 0 progs) = true.
Proof. exact reset_zero_incomplete_differs_lemma. Qed.
Print Assumptions reset_zero_incomplete_differs.
