From Coq Require Import List ZArith.
From QV Require Import Sinc.Model.
Theorem placeholder_c10 : True. Proof. exact I. Qed.
Print Assumptions placeholder_c10.
