(* C16 extension J: theorems about the full micro-step machine of the dictionary (Dict/MicroFull.v: put_if_absent, get,
   put = qt_lf_force_list_insert, delete = get-then-remove with mark CAS / unlink CAS / qpool_free, the helping branch of
   qt_lf_list_find, the pool's LIFO free list).  [frun pol sof keq s sched]: the machine under policy pol (pol_code = the
   code as it is; pol_patch = atomic delete + unlinked nodes not recycled, docs/proposed_fixes/C16-delete-atomic-no-recycle.diff)
   runs the schedule sched (one task id per machine step).  [lin m h]: the history h (completed operations with the positions of
   their invocation and response) has a linearisation w.r.t. the finite-map specification starting from the map m. *)
From Coq Require Import List NArith Bool Arith.
From QV Require Import Dict.Micro Dict.MicroFull Dict.MicroFullHist Dict.MicroFullProofs Dict.MicroFullWitness
                       Dict.MicroFullBounded Dict.MicroFullCore Dict.MicroFullNoDel Dict.MicroFullGrants.
Import ListNotations.

(* ---------- (a) the three open findings as refutations: witnesses = the corpus schedules replayed on the real code ---------- *)

(* replacing put loses an insert: (i) put(2,102) || put(2,107) || put_if_absent(1,113); get(1) on the empty dictionary;
   (ii) ONE put(2,102) on the list {2} || put_if_absent(1,113); get(1) -- the lost insert is of ANOTHER key *)
Theorem dict_replacing_put_loses_insert_refuted :
  (exists sched, let s := frun pol_code wit_sof N.eqb (finit wit_nodes0 [] wit_put_progs) sched in
                 fdone s = true /\ ~ lin (amap_of wit_nodes0) (hist_of s)) /\
  (exists sched, let s := frun pol_code wit_sof N.eqb (finit wit_nodes3 [] wit_put_other_progs) sched in
                 fdone s = true /\ ~ lin (amap_of wit_nodes3) (hist_of s)).
Proof. exact (conj (wit_refutes _ _ _ _ wit_put_bad) (wit_refutes _ _ _ _ wit_put_other_bad)). Qed.
Print Assumptions dict_replacing_put_loses_insert_refuted.

(* delete is not atomic (get, then remove): delete(1) || put_if_absent(1,110); get(1) on the empty dictionary -- under the code's
   policy AND with recycling switched off: the finding is due to the two separate lookups alone *)
Theorem dict_delete_not_atomic_refuted :
  (exists sched, let s := frun pol_code wit_sof N.eqb (finit wit_nodes0 [] wit_del_progs) sched in
                 fdone s = true /\ ~ lin (amap_of wit_nodes0) (hist_of s)) /\
  (exists sched, let s := frun pol_nonatomic_norecycle wit_sof N.eqb (finit wit_nodes0 [] wit_del_progs) sched in
                 fdone s = true /\ ~ lin (amap_of wit_nodes0) (hist_of s)).
Proof. exact (conj (wit_refutes _ _ _ _ wit_del_bad) (wit_refutes _ _ _ _ wit_del_bad_norecycle)). Qed.
Print Assumptions dict_delete_not_atomic_refuted.

(* a CAS on a recycled node: list {3,1}; delete(1); put_if_absent(3,120) || put_if_absent(2,115); get(2) -- under the code's policy
   AND with an atomic delete: the finding is due to the immediate recycling alone *)
Theorem dict_recycled_node_cas_refuted :
  (exists sched, let s := frun pol_code wit_sof N.eqb (finit wit_nodes2 [] wit_rec_progs) sched in
                 fdone s = true /\ ~ lin (amap_of wit_nodes2) (hist_of s)) /\
  (exists sched, let s := frun pol_atomic_recycle wit_sof N.eqb (finit wit_nodes2 [] wit_rec_progs) sched in
                 fdone s = true /\ ~ lin (amap_of wit_nodes2) (hist_of s)).
Proof. exact (conj (wit_refutes _ _ _ _ wit_rec_bad) (wit_refutes _ _ _ _ wit_rec_bad_atomic)). Qed.
Print Assumptions dict_recycled_node_cas_refuted.

(* ---------- (b) the positive side ---------- *)

(* programs without delete, EVERY schedule, any number of tasks, any policy, any hash: no node is ever marked and no task ever
   stands at the helping CAS, the mark CAS or the unlink CAS (the only places where a linked node goes back to the pool): the
   replacing-put finding involves neither marks nor recycling *)
Theorem dict_no_delete_never_marks_or_reclaims :
  forall pol sof keq nodes progs sched,
    (forall p o, In p progs -> In o p -> nodel_op o) ->
    let s := frun pol sof keq (finit nodes [] progs) sched in
    (forall i, fmark (fs_heap s) i = false) /\
    (forall t, match fpc_of s t with
               | QAtHelpCas _ _ _ _ | QAtMarkCas _ _ _ _ | QAtUnlinkCas _ _ _ _ => False
               | _ => True
               end).
Proof. exact no_delete_never_marks. Qed.
Print Assumptions dict_no_delete_never_marks_or_reclaims.

(* PARTIAL (bounded family, unbounded schedules): the code as it is, {put_if_absent, get} and put on a key that is absent and
   that nobody else puts: for the configuration of code_core_sp (3 tasks: put_if_absent(2), put(4), get(2) on the list {1})
   EVERY schedule of grants gives a linearizable history.  (12 more configurations: MicroFullBoundedAll.code_insert_sp_all,
   checked by coqc only.)  The general theorems for {put_if_absent, get} are those of Properties_C16.v (Dict/Micro.v). *)
Theorem dict_linearizable_without_delete_and_replace_bounded_partial :
  forall c, In c code_core_sp -> forall g,
    let s := frun_grants pol_code wit_sof N.eqb (cfg_init c) g in
    fdone s = true -> lin (amap_of (fst c)) (hist_of s).
Proof. exact code_core_sp_all. Qed.
Print Assumptions dict_linearizable_without_delete_and_replace_bounded_partial.

(* PARTIAL (bounded family, unbounded schedules): under the policy of the proposed patch (atomic delete, unlinked nodes not
   recycled) {delete, put_if_absent, get}: for each of the 4 configurations of patch_core_sp -- the configurations of the two delete
   witnesses above, delete || put_if_absent || get of one key, delete-then-insert || insert-behind-the-deleted-node -- EVERY
   schedule of grants gives a linearizable history.  (60 configurations: MicroFullBoundedAll.patch_sp_all, checked by coqc only.) *)
Theorem dict_delete_linearizable_if_no_recycling_bounded_partial :
  forall c, In c patch_core_sp -> forall g,
    let s := frun_grants pol_patch wit_sof N.eqb (cfg_init c) g in
    fdone s = true -> lin (amap_of (fst c)) (hist_of s).
Proof. exact patch_core_sp_all. Qed.
Print Assumptions dict_delete_linearizable_if_no_recycling_bounded_partial.

(* the same at the granularity of single machine steps (every access to shared memory is a possible task switch), for the 4
   two-task configurations of patch_core_steps on the empty dictionary (7: MicroFullBoundedAll.patch_steps_all, coqc only) *)
Theorem dict_delete_linearizable_if_no_recycling_steps_bounded_partial :
  forall c, In c patch_core_steps -> forall sched,
    let s := frun pol_patch wit_sof N.eqb (cfg_init c) sched in
    fdone s = true -> lin (amap_of (fst c)) (hist_of s).
Proof. exact patch_core_steps_all. Qed.
Print Assumptions dict_delete_linearizable_if_no_recycling_steps_bounded_partial.

(* ---------- the tools are sound: the checker the tie uses decides lin; the explorers cover every schedule ---------- *)
Theorem dict_lin_checker_decides :
  forall m h, linearizable_b m h = true <-> lin m h.
Proof. exact linb_iff. Qed.
Print Assumptions dict_lin_checker_decides.

Theorem dict_explore_covers_every_step_schedule :
  forall pol sof keq chk sched fuel s,
    explore pol sof keq chk fuel s = true -> fdone (frun pol sof keq s sched) = true -> chk (frun pol sof keq s sched) = true.
Proof. exact explore_sound. Qed.
Print Assumptions dict_explore_covers_every_step_schedule.

Theorem dict_explore_covers_every_grant_schedule :
  forall pol sof keq chk g fuel s,
    explore_sp pol sof keq chk fuel s = true -> fdone (frun_grants pol sof keq s g) = true -> chk (frun_grants pol sof keq s g) = true.
Proof. exact explore_sp_sound. Qed.
Print Assumptions dict_explore_covers_every_grant_schedule.

(* a schedule of grants (task runs to its next schedule point of the harness) is a schedule of machine steps: the grant-level
   theorems above speak about a subset of the step-level schedules *)
Theorem dict_grant_schedules_are_step_schedules :
  forall pol sof keq g s, exists sched, frun_grants pol sof keq s g = frun pol sof keq s sched.
Proof. exact frun_grants_is_frun. Qed.
Print Assumptions dict_grant_schedules_are_step_schedules.
