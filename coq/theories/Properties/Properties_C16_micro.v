(* C16 extension J: theorems about the full micro-step machine of the dictionary (Dict/MicroFull.v). *)
From Coq Require Import List NArith Bool Arith.
From QV Require Import Dict.Micro Dict.MicroFull Dict.MicroFullHist.
Import ListNotations.
