(* Regeneration tie for C14 (memory pools): Mpool.Model.create_sizes -- the function the C14 size theorems are about --
   equals the size arithmetic of qt_mpool_create_aligned as regenerated from src/mpool.c by tools/ctrans.py on every
   run (Gen/Mpool.v).  Theorems only; proofs in Gen/Tie_Mpool.v. *)
From Coq Require Import ZArith NArith.
From QV Require Import Gen.CInt Gen.Mpool Gen.Tie_Mpool Mpool.Model.
Local Open Scope Z_scope.

(* item_size / alignment / alloc_size / items_per_alloc stored in the pool and the static max_alloc_size after the call *)
Theorem gen_c14_create_sizes :
  forall (pagesize env_max max0 item_req align_req : N) (pool : Z),
    pool <> 0 -> (0 < pagesize)%N -> Z.of_N pagesize < B40 -> Z.of_N item_req < B40 -> Z.of_N align_req < B40 ->
    Z.of_N env_max < B64 -> Z.of_N max0 < B64 ->
    qt_mpool_create_sizes FUEL (Z.of_N item_req) (Z.of_N align_req) (Z.of_N pagesize) (Z.of_N max0) pool
                          (Z.of_N env_max) zlcm
    = option_map sizes_tuple (create_sizes pagesize env_max max0 item_req align_req).
Proof. exact tie_create_sizes. Qed.
Print Assumptions gen_c14_create_sizes.

(* the doubling loops, for every fuel *)
Theorem gen_c14_dbl1 :
  forall (fuel : nat) (a isz maxa : N), (0 < isz)%N -> Z.of_N maxa < B64 ->
    qt_mpool_create_sizes_loop1 fuel (Z.of_N maxa) (Z.of_N isz) (Z.of_N a) = option_map Z.of_N (dbl1 fuel a isz maxa).
Proof. exact tie_dbl1. Qed.
Print Assumptions gen_c14_dbl1.

Theorem gen_c14_dbl2 :
  forall (fuel : nat) (a ps : N), Z.of_N ps * 32 < B64 ->
    qt_mpool_create_sizes_loop2 fuel (Z.of_N ps) (Z.of_N a) = option_map Z.of_N (dbl2 fuel a (ps * 16)).
Proof. exact tie_dbl2. Qed.
Print Assumptions gen_c14_dbl2.

(* qt_gcd / qt_lcm themselves (include/qt_gcd.h -> Gen/Gcd.v; proofs in Gen/Tie_Gcd.v): the `zlcm` oracle of
   gen_c14_create_sizes is the regenerated C function *)
From QV Require Import Gen.Gcd Gen.Tie_Gcd.
Theorem gen_c14_gcd : forall a b : N, qt_gcd (S (N.to_nat (N.size a))) (Z.of_N a) (Z.of_N b) = Some (Z.of_N (N.gcd a b)).
Proof. exact tie_gcd. Qed.
Print Assumptions gen_c14_gcd.
Theorem gen_c14_lcm : forall a b : N, Z.of_N a * Z.of_N b < 18446744073709551616 ->
  Gen.Gcd.qt_lcm (S (N.to_nat (N.size a))) (Z.of_N a) (Z.of_N b) = Some (Z.of_N (Mpool.Model.qt_lcm a b)).
Proof. exact tie_lcm. Qed.
Print Assumptions gen_c14_lcm.
