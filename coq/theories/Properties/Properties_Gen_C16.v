(* Regeneration tie for C16 (qt_dictionary, split-ordered list): the bit kernels of Dict.Model equal REVERSE_BYTE /
   REVERSE, so_dummykey, so_regularkey, GET_PARENT and the key mask / bucket index of qt_hash_put as regenerated from
   src/ds/dictionary/dictionary_shavit.c by tools/ctrans.py on every run (Gen/Dict.v).  Theorems only; proofs in
   Gen/Tie_Dict.v. *)
From Coq Require Import ZArith NArith.
From QV Require Import Gen.CInt Gen.Dict Gen.Tie_Dict Dict.Model.
Local Open Scope Z_scope.

Theorem gen_c16_reverse_byte : forall x : N, gen_REVERSE_BYTE (Z.of_N x) = Some (Z.of_N (reverse_byte x)).
Proof. exact tie_reverse_byte. Qed.
Print Assumptions gen_c16_reverse_byte.

Theorem gen_c16_so_dummykey : forall x : N, Gen.Dict.so_dummykey (Z.of_N x) = Some (Z.of_N (Dict.Model.so_dummykey x)).
Proof. exact tie_so_dummykey. Qed.
Print Assumptions gen_c16_so_dummykey.

Theorem gen_c16_so_regularkey : forall x : N, Gen.Dict.so_regularkey (Z.of_N x) = Some (Z.of_N (Dict.Model.so_regularkey x)).
Proof. exact tie_so_regularkey. Qed.
Print Assumptions gen_c16_so_regularkey.

Theorem gen_c16_get_parent : forall b : N, GET_PARENT (Z.of_N b) = Some (Z.of_N (get_parent b)).
Proof. exact tie_get_parent. Qed.
Print Assumptions gen_c16_get_parent.

(* lkey &= ~MSB; bucket = lkey % h->size   (Model.lkey_of / the bucket of Model.prep) *)
Theorem gen_c16_put_index : forall size hk : N, (0 < size)%N ->
  qt_hash_put_index (Z.of_N size) (Z.of_N hk)
  = Some (Z.of_N (N.land hk (N.ones 63)), Z.of_N (N.land hk (N.ones 63) mod size)).
Proof. exact tie_put_index. Qed.
Print Assumptions gen_c16_put_index.

(* qt_hash64 (src/ds/dictionary/hash.c -> Gen/Hash.v; proof in Gen/Tie_Hash.v): Dict.Model.hash64, for every 64-bit key.
   The bytes of the union are little-endian (assumption stated in the generated header). *)
From QV Require Import Gen.Hash Gen.Tie_Hash.
Theorem gen_c16_hash64 : forall key : N, Gen.Hash.qt_hash64 (Z.of_N key) = Some (Z.of_N (hash64 key)).
Proof. exact tie_hash64. Qed.
Print Assumptions gen_c16_hash64.

(* the growth rule at the end of qt_hash_put (old count decides; doubling by CAS unless above hard_max_buckets) = the size of Model.bump *)
Theorem gen_c16_put_grow : forall d : dict, (0 < d_size d)%N -> Z.of_N (d_size d) < 4611686018427387904 ->
  qt_hash_put_grow (fun _ => Z.of_N (d_count d)) (Z.of_N (d_size d)) (Z.of_N (d_cap d)) = Some (Z.of_N (d_size (bump d))).
Proof. exact tie_put_grow. Qed.
Print Assumptions gen_c16_put_grow.
