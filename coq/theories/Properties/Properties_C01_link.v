(* C01 / C02, extension R: the two halves of the FEB proof are linked.  Feb/Model.v is the concrete op-atomic model of feb.c
   (tied to the code by replay, mode M2); Feb/History.v is the history-level definition of "behaves as an atomic full/empty
   cell" (linearisation respecting real time + quiescence) whose extracted acceptor judges the free-running traces of the
   real code (mode M4).  The theorems below say that every run of the concrete model IS such a history: hist_from s0 l a
   (Feb/ModelHistoryDefs.v) gives each call on word a an invocation ticket when it is issued and a return ticket when the
   model's event `Ret` for it is emitted - at once, or at the later step that releases it - and leaves it pending when the
   run ends with the task blocked.  Statements only; proofs in Feb/ModelHistory.v, examples in Feb/ModelHistoryExamples.v. *)
From Coq Require Import List ZArith NArith Bool Permutation Sorted.
Import ListNotations.
From QV Require Import Cell.Spec Feb.Model Feb.Proofs Feb.History Feb.HistoryProofs Feb.HistoryComplete
  Feb.ModelHistoryDefs Feb.ModelHistory Feb.ModelHistoryCert Feb.ModelHistoryExamples.
Local Open Scope N_scope.

(* every script (any tasks, any words, spawns of precondition tasks, ignored steps of blocked tasks), from any initial
   memory without waiter records: the history of each word is explained, from the word's initial cell to the cell the
   model ends in *)
Theorem model_runs_are_explained_from : forall (s0 : state) (l : list (N * gop)) (a : N),
  st_febs s0 = [] -> explained (cell_at s0 a) (hist_from s0 l a) (cell_at (state_after s0 l) a).
Proof. exact model_runs_are_explained_from. Qed.
Print Assumptions model_runs_are_explained_from.

(* the same for Feb.Model.exec (all words full with value 0) *)
Theorem model_runs_are_explained : forall (l : list (N * gop)) (a : N),
  explained (mkCell true 0%Z) (hist_of_run l a) (cell_at (exec l) a).
Proof. exact model_runs_are_explained. Qed.
Print Assumptions model_runs_are_explained.

(* `explained` spelled out: a total order of the completed calls that is a permutation of them, extends real time, in which
   every call takes effect atomically with the result its caller saw (hrun) and that ends in the model's final cell; and no
   call of a task still blocked is enabled in that cell (quiescent_no_enabled_blocked at history level) *)
Theorem model_runs_explicit : forall (s0 : state) (l : list (N * gop)) (a : N),
  st_febs s0 = [] ->
  exists lin_order,
    Permutation lin_order (completed (hist_from s0 l a)) /\ StronglySorted rt_compat lin_order /\
    hrun (cell_at s0 a) lin_order (cell_at (state_after s0 l) a) /\
    (forall p, In p (hist_from s0 l a) -> h_ret p = None -> enabled (cell_at (state_after s0 l) a) (h_op p) = false).
Proof. exact model_runs_explicit. Qed.
Print Assumptions model_runs_explicit.

(* hence the acceptor of the M4 tier never rejects a run of the M2 model, whatever its fuel: both tiers judge by the same
   definition *)
Theorem model_runs_are_accepted_from : forall (fuel : N) (s0 : state) (l : list (N * gop)) (a : N),
  st_febs s0 = [] -> decide fuel (cell_at s0 a) (hist_from s0 l a) (cell_at (state_after s0 l) a) <> Reject.
Proof. exact model_runs_are_accepted_from. Qed.
Print Assumptions model_runs_are_accepted_from.

Theorem model_runs_are_accepted : forall (fuel : N) (l : list (N * gop)) (a : N),
  decide fuel (mkCell true 0%Z) (hist_of_run l a) (cell_at (exec l) a) <> Reject.
Proof. exact model_runs_are_accepted. Qed.
Print Assumptions model_runs_are_accepted.

(* the histories are well formed (every call returns after it was invoked) *)
Theorem model_histories_wellformed : forall (s0 : state) (l : list (N * gop)) (a : N),
  st_febs s0 = [] -> wf_b (hist_from s0 l a) = true.
Proof. exact model_histories_wellformed. Qed.
Print Assumptions model_histories_wellformed.

(* `explained` depends on the set of calls only, not on the order in which a logger lists them *)
Theorem explained_order_irrelevant : forall (c0 : cell) (h h' : list hop) (cfin : cell),
  Permutation h h' -> explained c0 h cfin -> explained c0 h' cfin.
Proof. exact explained_perm. Qed.
Print Assumptions explained_order_irrelevant.

(* the certificate checker is complete (not only sound): an explained history whose completed calls have distinct ids has a
   certificate - an order of those ids - that check_lin accepts.  With hist_certificate_sound (Properties_C02_hist.v):
   explained <-> some certificate checks *)
Theorem explained_has_certificate : forall (c0 : cell) (h : list hop) (cfin : cell),
  NoDup (map h_id (completed h)) -> explained c0 h cfin -> exists w, check_lin c0 h cfin w = true.
Proof. exact explained_has_certificate. Qed.
Print Assumptions explained_has_certificate.

(* ... and every run of the model has one (ids = invocation tickets, all distinct): the search of `decide` is only a way
   to find it *)
Theorem model_runs_have_certificate : forall (s0 : state) (l : list (N * gop)) (a : N),
  st_febs s0 = [] -> exists w, check_lin (cell_at s0 a) (hist_from s0 l a) (cell_at (state_after s0 l) a) w = true.
Proof. exact model_runs_have_certificate. Qed.
Print Assumptions model_runs_have_certificate.
