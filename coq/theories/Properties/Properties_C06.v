(* C06: preconditioned tasks.  Statements only; proofs in Feb/PrecondProofs.v *)
From Coq Require Import List ZArith NArith Bool.
Import ListNotations.
From QV Require Import Cell.Spec Feb.Model Feb.Proofs Feb.PrecondProofs Feb.PrecondTrace Feb.NoDup Feb.PrecondOnce.

(* qthread_check_feb_preconds consumes only words that are full at that moment and parks on exactly one empty word *)
Theorem precond_check_sound : forall febs k rem febs' rem',
  check_walk febs k rem = (febs', rem') ->
  exists seen, rem = seen ++ rem' /\ Forall (fun a => is_full febs a = true) seen /\
    (forall b, is_full febs' b = is_full febs b) /\
    match rem' with
    | [] => febs' = febs
    | a :: _ => is_full febs a = false /\
                exists r, lookup a febs = Some r /\
                  lookup a febs' = Some (mkRec false (r_EFQ r) (r_FEQ r) (mkW k None DNull true :: r_FFQ r) (r_FFWQ r)) /\
                  (forall b, b <> a -> lookup b febs' = lookup b febs)
    end.
Proof. exact check_walk_sound. Qed.
Print Assumptions precond_check_sound.

(* ================= trace level: the statement of the property =================
   precond_safe: for every operation list l and every further step (t, g) (any interleaving of FEB calls and spawns by any
   tasks): if the step hands precondition task k to a ready queue, then nothing remains to be checked, every one of k's
   precondition words (p_all = the words given at its spawn, lemma spawn_sets_all) was seen full by a check of k
   (history variable p_seen), and was full in the state after some step at which k had already been spawned. *)
Theorem precond_safe : forall (l : list (N * gop)) (t : N) (g : gop) (k : N),
  In (Enq k) (snd (step (exec l) t g)) ->
  let l' := l ++ [(t, g)] in
  let info := info_of (exec l') k in
  (p_enq info > 0)%nat /\ p_rem info = [] /\
  forall a, In a (p_all info) ->
    In a (p_seen info) /\
    exists j, (j <= length l')%nat /\ has_key k (st_pre (exec (firstn j l'))) = true /\
              is_full (st_febs (exec (firstn j l'))) a = true.
Proof. exact PrecondTrace.precond_safe. Qed.
Print Assumptions precond_safe.

(* every word in the history variable was full after some step since the spawn, in every reachable state *)
Theorem precond_seen_was_full : forall (l : list (N * gop)) k info a,
  lookup k (st_pre (exec l)) = Some info -> In a (p_seen info) ->
  exists j, (j <= length l)%nat /\ has_key k (st_pre (exec (firstn j l))) = true /\
            is_full (st_febs (exec (firstn j l))) a = true.
Proof. exact seen_was_full. Qed.
Print Assumptions precond_seen_was_full.

(* precond_once: in every reachable state a spawned precondition task has been enqueued at most once (p_enq counts the
   Enq events, lemma launch_count) and is in exactly one place: not enqueued and parked as a nascent waiter - on exactly
   one waiter list of exactly one word, since blocked task ids are duplicate-free - or enqueued once and parked nowhere
   (the launch batch is internal to a step: the loop invariant of qthread_precond_launch is PrecondOnce.loop_inv) *)
Theorem precond_once : forall (l : list (N * gop)) (k : N) (i : pinfo),
  lookup k (st_pre (exec l)) = Some i ->
  (p_enq i <= 1)%nat /\
  ((p_enq i = 0%nat /\ In k (parked (exec l))) \/ (p_enq i = 1%nat /\ ~ In k (parked (exec l)))) /\
  NoDup (blocked_tids (exec l)).
Proof. exact PrecondOnce.precond_once. Qed.
Print Assumptions precond_once.

Theorem enq_events_counted : forall b s s' evs k, launch s b = (s', evs) ->
  (p_enq (info_of s' k) = p_enq (info_of s k) + enq_count k evs)%nat.
Proof. exact launch_count. Qed.
Print Assumptions enq_events_counted.

(* step-local lemmas *)
Theorem precond_safe_spawn : forall s t k pcs s' evs,
  step s t (GSpawn k pcs) = (s', evs) -> In (Enq k) evs ->
  Forall (fun a => is_full (st_febs s) a = true) pcs /\ p_rem (info_of s' k) = [].
Proof. exact spawn_safe. Qed.
Print Assumptions precond_safe_spawn.

Theorem precond_recheck_safe : forall s k s' ok,
  check_preconds s k = (s', ok) ->
  exists seen rem' info',
    p_rem (info_of s k) = seen ++ rem' /\ Forall (fun a => is_full (st_febs s) a = true) seen /\
    lookup k (st_pre s') = Some info' /\ p_all info' = p_all (info_of s k) /\ p_rem info' = rem' /\
    p_seen info' = p_seen (info_of s k) ++ seen /\
    p_enq info' = (if ok then S (p_enq (info_of s k)) else p_enq (info_of s k)) /\ ok = is_nil rem' /\
    (forall k', k' <> k -> lookup k' (st_pre s') = lookup k' (st_pre s)) /\
    (forall b, is_full (st_febs s') b = is_full (st_febs s) b) /\ st_mem s' = st_mem s /\
    match rem' with
    | [] => st_febs s' = st_febs s
    | a :: _ => is_full (st_febs s) a = false /\
                exists r, lookup a (st_febs s) = Some r /\
                  lookup a (st_febs s') = Some (mkRec false (r_EFQ r) (r_FEQ r) (mkW k None DNull true :: r_FFQ r) (r_FFWQ r)) /\
                  (forall b, b <> a -> lookup b (st_febs s') = lookup b (st_febs s))
    end.
Proof. exact recheck_safe. Qed.
Print Assumptions precond_recheck_safe.

(* an Enq emitted by an FEB call concerns a nascent waiter released by this very call *)
Theorem precond_launch_from_batch : forall s t a o s' evs k,
  step s t (GWord a o) = (s', evs) -> In (Enq k) evs ->
  exists wr, word_step (lookup a (st_febs s)) (memget a s) t o = Some wr /\ In k (rel_batch (wr_rel wr)).
Proof. exact step_launch_safe. Qed.
Print Assumptions precond_launch_from_batch.
