From Coq Require Import List ZArith NArith.
From QV Require Import Cell.Spec Feb.Model.
Theorem placeholder_C06 : True. Proof. exact I. Qed.
Print Assumptions placeholder_C06.
