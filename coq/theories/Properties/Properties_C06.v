(* C06: preconditioned tasks.  Statements only; proofs in Feb/PrecondProofs.v *)
From Coq Require Import List ZArith NArith Bool.
Import ListNotations.
From QV Require Import Cell.Spec Feb.Model Feb.Proofs Feb.PrecondProofs.

(* qthread_check_feb_preconds consumes only words that are full at that moment and parks on exactly one empty word *)
Theorem precond_check_sound : forall febs k rem febs' rem',
  check_walk febs k rem = (febs', rem') ->
  exists seen, rem = seen ++ rem' /\ Forall (fun a => is_full febs a = true) seen /\
    (forall b, is_full febs' b = is_full febs b) /\
    match rem' with
    | [] => febs' = febs
    | a :: _ => is_full febs a = false /\
                exists r, lookup a febs = Some r /\
                  lookup a febs' = Some (mkRec false (r_EFQ r) (r_FEQ r) (mkW k None DNull true :: r_FFQ r) (r_FFWQ r)) /\
                  (forall b, b <> a -> lookup b febs' = lookup b febs)
    end.
Proof. exact check_walk_sound. Qed.
Print Assumptions precond_check_sound.

(* precond_safe at spawn: enqueued by qthread_spawn only if every precondition word is full *)
Theorem precond_safe_spawn : forall s t k pcs s' evs,
  step s t (GSpawn k pcs) = (s', evs) -> In (Enq k) evs ->
  Forall (fun a => is_full (st_febs s) a = true) pcs /\ lookup k (st_pre s') = Some [].
Proof. exact spawn_safe. Qed.
Print Assumptions precond_safe_spawn.

(* precond_safe / precond_live at a re-check: progress only over words full now; enqueue iff nothing remains;
   otherwise parked on one word that is empty now; full bits and memory untouched *)
Theorem precond_recheck_safe : forall s k s' ok,
  check_preconds s k = (s', ok) ->
  exists rem seen rem', lookup k (st_pre s) = rem /\ (match rem with Some l => l | None => [] end) = seen ++ rem' /\
    Forall (fun a => is_full (st_febs s) a = true) seen /\
    lookup k (st_pre s') = Some rem' /\ ok = is_nil rem' /\
    (forall b, is_full (st_febs s') b = is_full (st_febs s) b) /\ st_mem s' = st_mem s /\
    match rem' with
    | [] => st_febs s' = st_febs s
    | a :: _ => is_full (st_febs s) a = false /\
                exists r, lookup a (st_febs s) = Some r /\
                  lookup a (st_febs s') = Some (mkRec false (r_EFQ r) (r_FEQ r) (mkW k None DNull true :: r_FFQ r) (r_FFWQ r))
    end.
Proof. exact recheck_safe. Qed.
Print Assumptions precond_recheck_safe.

(* an Enq emitted by an FEB call concerns a nascent waiter released by this very call *)
Theorem precond_launch_from_batch : forall s t a o s' evs k,
  step s t (GWord a o) = (s', evs) -> In (Enq k) evs ->
  exists wr, word_step (lookup a (st_febs s)) (memget a s) t o = Some wr /\ In k (rel_batch (wr_rel wr)).
Proof. exact step_launch_safe. Qed.
Print Assumptions precond_launch_from_batch.
