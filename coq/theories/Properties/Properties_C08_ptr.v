(* C08 extension: (1) the pointer layer completed - the steal scan loop of qt_threadqueue_dequeue_steal as a whole, the
   surplus cut of qthread_steal (with qt_threadqueue_enqueue_multiple as a whole) and qt_threadqueue_dequeue_specific,
   written on the heap of PtrModel.v exactly as the C code manipulates head/tail/prev/next/qlength/qlength_stealable,
   refine the list layer; the list-level theorems transfer.  (2) the lock-level micro-step layer (TQueue/Micro.v): for EVERY
   schedule of any number of threads on two shepherds' queues.  Proofs: TQueue/PtrScanProofs.v, TQueue/MicroProofs.v. *)
From Coq Require Import List ZArith NArith Bool Arith Permutation.
From QV Require Import TQueue.Model TQueue.Proofs TQueue.PtrModel TQueue.PtrProofs TQueue.PtrScan TQueue.PtrScanProofs
                       TQueue.Micro TQueue.MicroProofs.
Import ListNotations.
Local Open Scope Z_scope.

(* ---- pointer layer ---------------------------------------------------------------------------------------------- *)
(* From any well-formed heap (doubly linked, head->prev = tail->next = NULL, node->stealable coherent with the task) the whole
   scan loop (skip unstealable nodes, collect runs up to desired_stolen, cut each run and relink the victim, chain the runs)
   yields a well-formed victim `kids`, a well-formed standalone chain `sids` starting at the returned node, and their
   abstraction - lists AND both counters - is exactly Model.dequeue_steal; no node address is lost or duplicated. *)
Theorem ptr_steal_scan_refines : forall fuel chunk lk h v ids o h' v',
  wf h (pq_of v) ids -> coh h ids -> (length ids <= fuel)%nat ->
  p_dequeue_steal fuel chunk lk h v = (o, h', v') ->
  exists kids sids,
    wf h' (pq_of v') kids /\ NoDup sids /\ dl h' None sids None /\ o = ohd sids None /\
    (forall x, cval (h' x) = cval (h x) /\ cst (h' x) = cst (h x)) /\
    Permutation (kids ++ sids) ids /\
    dequeue_steal chunk lk (mkQ (abs h ids) (pql v) (pqs v)) = (abs h' sids, mkQ (abs h' kids) (pql v') (pqs v')).
Proof. exact PtrScanProofs.ptr_steal_scan_refines. Qed.
Print Assumptions ptr_steal_scan_refines.

(* qthread_steal keeps the first stolen node and re-enqueues the surplus on its own queue: stolen->next = NULL;
   surplus->prev = NULL; enqueue_multiple (walk to the last node counting addCnt, link at the tail, both counters += addCnt) *)
Theorem ptr_surplus_cut_refines : forall fuel h mine tids sids stolen h' mine',
  wf h (pq_of mine) tids -> NoDup sids -> (forall x, In x sids -> ~ In x tids) -> dl h None sids None ->
  ohd sids None = Some stolen -> (length sids <= fuel)%nat ->
  p_surplus_cut fuel h mine stolen = (h', mine') ->
  wf h' (pq_of mine') (tids ++ tl sids) /\
  nx (h' stolen) = None /\ pv (h' stolen) = None /\
  (forall x, cval (h' x) = cval (h x) /\ cst (h' x) = cst (h x)) /\
  mkQ (abs h' (tids ++ tl sids)) (pql mine') (pqs mine') = enqueue_multiple (mkQ (abs h tids) (pql mine) (pqs mine)) (abs h (tl sids)).
Proof. exact PtrScanProofs.ptr_surplus_cut_refines. Qed.
Print Assumptions ptr_surplus_cut_refines.

(* the walk along prev from the tail and the move of the match to the tail *)
Theorem ptr_dequeue_specific_refines : forall fuel h v ids val o h' v',
  wf h (pq_of v) ids -> (length ids <= fuel)%nat ->
  p_dequeue_specific fuel h v val = (o, h', v') ->
  exists ids', wf h' (pq_of v') ids' /\ Permutation ids' ids /\
    (forall x, cval (h' x) = cval (h x) /\ cst (h' x) = cst (h x)) /\
    dequeue_specific (mkQ (abs h ids) (pql v) (pqs v)) val =
      (match o with Some i => Some (cval (h i)) | None => None end, mkQ (abs h' ids') (pql v') (pqs v')).
Proof. exact PtrScanProofs.ptr_dequeue_specific_refines. Qed.
Print Assumptions ptr_dequeue_specific_refines.

(* transfer of counts_exact: qlength / qlength_stealable stay the length / the number of stealable nodes of the linked chain *)
Theorem ptr_counts_exact : forall fuel chunk lk h v ids o h' v',
  wf h (pq_of v) ids -> coh h ids -> (length ids <= fuel)%nat -> pexact h v ids ->
  p_dequeue_steal fuel chunk lk h v = (o, h', v') ->
  exists kids sids, wf h' (pq_of v') kids /\ dl h' None sids None /\ pexact h' v' kids /\ Forall (fun i => cst (h' i) = true) sids.
Proof. exact PtrScanProofs.ptr_counts_exact. Qed.
Print Assumptions ptr_counts_exact.

Theorem ptr_counts_exact_surplus : forall fuel h mine tids sids stolen h' mine',
  wf h (pq_of mine) tids -> NoDup sids -> (forall x, In x sids -> ~ In x tids) -> dl h None sids None ->
  ohd sids None = Some stolen -> (length sids <= fuel)%nat ->
  p_surplus_cut fuel h mine stolen = (h', mine') ->
  pexact h mine tids -> Forall (fun i => stl (cval (h i)) = true) (tl sids) -> pexact h' mine' (tids ++ tl sids).
Proof. exact PtrScanProofs.ptr_counts_exact_surplus. Qed.
Print Assumptions ptr_counts_exact_surplus.

Theorem ptr_counts_exact_specific : forall fuel h v ids val o h' v',
  wf h (pq_of v) ids -> (length ids <= fuel)%nat -> pexact h v ids ->
  p_dequeue_specific fuel h v val = (o, h', v') ->
  exists ids', wf h' (pq_of v') ids' /\ pexact h' v' ids'.
Proof. exact PtrScanProofs.ptr_counts_exact_specific. Qed.
Print Assumptions ptr_counts_exact_specific.

(* transfer of conservation: neither node addresses nor task ids are dropped or duplicated by a steal / by dequeue_specific *)
Theorem ptr_conservation : forall fuel chunk lk h v ids o h' v',
  wf h (pq_of v) ids -> coh h ids -> (length ids <= fuel)%nat -> pexact h v ids ->
  p_dequeue_steal fuel chunk lk h v = (o, h', v') ->
  exists kids sids, wf h' (pq_of v') kids /\ dl h' None sids None /\ Permutation (kids ++ sids) ids /\
    forall t, (cnt t (abs h' kids) + cnt t (abs h' sids) = cnt t (abs h ids))%nat.
Proof. exact PtrScanProofs.ptr_conservation. Qed.
Print Assumptions ptr_conservation.

Theorem ptr_conservation_specific : forall fuel h v ids val o h' v',
  wf h (pq_of v) ids -> (length ids <= fuel)%nat ->
  p_dequeue_specific fuel h v val = (o, h', v') ->
  exists ids', wf h' (pq_of v') ids' /\ Permutation ids' ids /\ forall t, cnt t (abs h' ids') = cnt t (abs h ids).
Proof. exact PtrScanProofs.ptr_conservation_specific. Qed.
Print Assumptions ptr_conservation_specific.

(* transfer of steal_exact_prefix: the chain handed to the thief is, in queue order, the first min(desired, #stealable)
   stealable tasks of the victim *)
Theorem ptr_steal_exact_prefix : forall fuel chunk h v ids o h' v',
  wf h (pq_of v) ids -> coh h ids -> (length ids <= fuel)%nat -> pexact h v ids -> 0 <= chunk ->
  p_dequeue_steal fuel chunk false h v = (o, h', v') ->
  exists kids sids, wf h' (pq_of v') kids /\ dl h' None sids None /\ o = ohd sids None /\
    abs h' sids = firstn (Z.to_nat (p_desired chunk (pqs v))) (filter stl (abs h ids)).
Proof. exact PtrScanProofs.ptr_steal_exact_prefix. Qed.
Print Assumptions ptr_steal_exact_prefix.

(* ---- micro-step layer: every schedule (list of thread ids), every initial pair of exact queues, every set of threads --- *)
(* at most one thread inside a qlock critical section; whoever is inside holds the lock and works from the queue as it is *)
Theorem tq_lock_mutex : forall q0 q1 chunk dis cfg s m,
  exact q0 -> exact q1 -> cfg_wf cfg -> mrun true (minit q0 q1 chunk dis cfg) s = Some m ->
  (forall t u k, holds (t_home (thr m t)) (t_pc (thr m t)) = Some k -> holds (t_home (thr m u)) (t_pc (thr m u)) = Some k -> t = u) /\
  (forall t k, holds (t_home (thr m t)) (t_pc (thr m t)) = Some k -> lockat m k = Some t) /\
  (forall t k seen, seen_of (t_home (thr m t)) (t_pc (thr m t)) = Some (k, seen) -> seen = qat m k /\ lockat m k = Some t).
Proof. exact tq_lock_mutex_all. Qed.
Print Assumptions tq_lock_mutex.

(* every reachable micro state: the queues are those of the list-level model after the operations whose critical section
   body has run, in lock-acquisition order (enqueue, enqueue_yielded, dequeue_worker, the steal scan with the desired amount
   read BEFORE the lock, enqueue_multiple); both counters are exact; and at every point
   tasks in the queues + tasks held by threads + tasks delivered = tasks enqueued (nothing lost, nothing duplicated) *)
Theorem tq_micro_refines_atomic : forall q0 q1 chunk dis cfg s m,
  exact q0 -> exact q1 -> cfg_wf cfg -> mrun true (minit q0 q1 chunk dis cfg) s = Some m ->
  (exists h, m_q m = arun [q0; q1] h) /\
  Forall exact (m_q m) /\
  (forall x, (cntq x (m_q m) + heldsum x (m_thr m) + cnt x (m_out m) = cnt x (m_added m))%nat).
Proof. exact tq_micro_refines_atomic_all. Qed.
Print Assumptions tq_micro_refines_atomic.

(* unlocked peeks (q->head in qt_scheduler_get_thread; shepherd->stealing, victim->qlength_stealable twice, own qlength in
   qthread_steal / dequeue_steal): a peek - stale or not - writes nothing and moves no task; a locked attempt after a stale
   peek (queue empty / nothing stealable once the lock is held) takes nothing and leaves the queue as it is *)
Theorem tq_peek_safe : forall q0 q1 chunk dis cfg s m t m',
  exact q0 -> exact q1 -> cfg_wf cfg -> mrun true (minit q0 q1 chunk dis cfg) s = Some m -> mstep true m t = Some m' ->
  (is_peek (t_pc (thr m t)) = true ->
     m_q m' = m_q m /\ m_lock m' = m_lock m /\ m_steal m' = m_steal m /\ m_out m' = m_out m /\ held (t_pc (thr m' t)) = []) /\
  (forall seen, t_pc (thr m t) = D_Body seen -> items seen = [] -> m_q m' = m_q m /\ t_pc (thr m' t) = D_Unlock None) /\
  (forall d seen, t_pc (thr m t) = T_Body d seen -> qstl seen = 0 -> m_q m' = m_q m /\ t_pc (thr m' t) = T_Unlock []) /\
  Forall exact (m_q m') /\
  (forall x, (cntq x (m_q m') + heldsum x (m_thr m') + cnt x (m_out m') = cnt x (m_added m'))%nat).
Proof. exact tq_peek_safe_all. Qed.
Print Assumptions tq_peek_safe.

(* no reachable state in which every unfinished thread is waiting *)
Theorem tq_no_stuck : forall q0 q1 chunk dis cfg s m u,
  exact q0 -> exact q1 -> cfg_wf cfg -> mrun true (minit q0 q1 chunk dis cfg) s = Some m ->
  (t_pc (thr m u) <> Idle \/ t_prog (thr m u) <> []) ->
  exists v, mstep true m v <> None.
Proof. exact tq_no_stuck_all. Qed.
Print Assumptions tq_no_stuck.

(* the lock is what makes this true: the same machine whose enqueue does not take qlock loses a task *)
Theorem tq_nolock_refuted :
  exists m, mrun false (minit empty_queue empty_queue 0 false cfg2) [0; 1; 0; 1; 0; 1; 0; 1]%nat = Some m /\
    (forall u, t_pc (thr m u) = Idle /\ t_prog (thr m u) = []) /\
    items (qat m 0) = [nB] /\ m_added m = [nB; nA] /\ m_out m = [] /\
    ~ (forall x, (cntq x (m_q m) + heldsum x (m_thr m) + cnt x (m_out m) = cnt x (m_added m))%nat).
Proof. exact tq_nolock_refuted_all. Qed.
Print Assumptions tq_nolock_refuted.
