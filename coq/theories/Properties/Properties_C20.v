(* C20 — blocking system-call proxies are transparent.  Statements only; proofs in Io/Proofs.v.
   switch_body, proxy_tail, wrappers, end_action_events are regenerated from src/io.c and src/syscalls/*.c on every run. *)
From Coq Require Import List ZArith Bool.
From QV Require Import Io.Base Io.GenIoSwitch Io.Model Io.Proofs.
Import ListNotations.
Local Open Scope Z_scope.

(* every op that some wrapper enqueues makes the proxy execute exactly its own system call (C fall-through semantics) *)
Theorem dispatch_exact :
  forall o, In o (map w_op wrappers) ->
            exists f, syscall_of o = Some f /\ map call_name (dispatch switch_body o) = [f].
Proof. exact dispatch_exact_lemma. Qed.
Print Assumptions dispatch_exact.

(* every wrapper's op has a case; an op without a case (the sleep family) is never enqueued, so `default:` is unreachable *)
Theorem wrappers_cover :
  (forall w, In w wrappers -> has_case switch_body (w_op w) = true) /\
  (forall o, has_case switch_body o = false -> ~ In o (map w_op wrappers)) /\
  (~ In NANOSLEEP (map w_op wrappers) /\ ~ In SLEEP (map w_op wrappers) /\ ~ In USLEEP (map w_op wrappers)).
Proof. exact wrappers_cover_lemma. Qed.
Print Assumptions wrappers_cover.

(* a value of C type ty stored into a uintptr_t slot (memcpy of its bytes over stale contents, or a cast) and taken
   out again (memcpy or cast) is unchanged, whatever the slot held before *)
Theorem marshal_roundtrip :
  forall ty hin hout v old, compat ty hin hout = true -> in_range ty v -> rd hout (wr hin v old) = v.
Proof. exact roundtrip. Qed.
Print Assumptions marshal_roundtrip.

(* for every system-call wrapper of the source, every OS behaviour [sys], all in-range arguments, any stale contents of the
   recycled job record: the wrapper performs the direct call's effect on the world exactly once and returns its result *)
Theorem transparent :
  forall (world : Type) (sys : sysname -> list Z -> world -> world * Z),
  forall wrp, In wrp wrappers -> is_syscall_wrapper switch_body wrp = true ->
  exists f tys rt, syscall_of (w_op wrp) = Some f /\ direct_sig f = Some (tys, rt) /\ w_params wrp = tys /\ w_ret wrp = Some rt /\
    forall params garbage gret thr w,
      Forall2 in_range tys params -> length garbage = 5%nat ->
      in_range rt (snd (sys f params w)) ->
      run_wrapper world sys switch_body wrp params garbage gret thr w = (fst (sys f params w), Some (snd (sys f params w))).
Proof. exact transparent_lemma. Qed.
Print Assumptions transparent.

(* errno.  Which of the next two theorems applies is decided by the tables generated from the source:
   errno_consistent says the source is in exactly one of the two coherent states. *)
Theorem errno_consistent :
  errno_carried switch_body proxy_tail wrappers || errno_absent proxy_tail wrappers = true.
Proof. exact errno_consistent_lemma. Qed.
Print Assumptions errno_consistent.

(* when the proxy stores errno into the job before the requeue and every system-call wrapper restores it between reading ret
   and freeing the job: the caller's errno after a wrapper call equals the direct call's, for failing (-1) and successful calls,
   whatever the recycled job's stale err field held *)
Theorem transparent_errno :
  errno_carried switch_body proxy_tail wrappers = true ->
  forall wrp, In wrp wrappers -> is_syscall_wrapper switch_body wrp = true ->
  forall e0 gerr ret err, (ret = -1 \/ 0 <= ret) ->
    errno_after_wrapper proxy_tail wrp e0 gerr ret err = errno_after_direct e0 ret err.
Proof. exact (errno_tables_lemma switch_body proxy_tail wrappers). Qed.
Print Assumptions transparent_errno.

(* a wrapper that does not restore errno loses the error code of a failing call (the behaviour before the errno fix) *)
Theorem transparent_errno_refuted :
  forall tail wrp, wrapper_restore wrp = None ->
  exists e0 gerr ret err, ret < 0 /\ errno_after_wrapper tail wrp e0 gerr ret err <> errno_after_direct e0 ret err.
Proof. exact errno_refuted_lemma. Qed.
Print Assumptions transparent_errno_refuted.

Theorem transparent_errno_partial :
  forall tail wrp e0 gerr ret err, 0 <= ret -> errno_after_wrapper tail wrp e0 gerr ret err = errno_after_direct e0 ret err.
Proof. exact errno_success_lemma. Qed.
Print Assumptions transparent_errno_partial.

(* in every interleaving of the task side and the proxy side of a job's life cycle (all wrappers, incl. the user-defined
   action): the job record is freed exactly once, never read or freed after that, and the run does not deadlock *)
Theorem job_released_once :
  forall wrp, In wrp wrappers -> forall tr, job_exec wrp tr ->
    count is_free tr = 1%nat /\ no_touch_after_free tr = true /\ count is_deadlock tr = 0%nat.
Proof. exact job_released_once_lemma. Qed.
Print Assumptions job_released_once.

(* ... and the task is put back on a ready queue exactly once, its call returning after that *)
Theorem resumes_once :
  forall wrp, In wrp wrappers -> forall tr, job_exec wrp tr ->
    count is_requeue tr = 1%nat /\ after is_requeue is_return tr = true.
Proof. exact resumes_once_lemma. Qed.
Print Assumptions resumes_once.

(* arbitrarily long sequences: any number of calls (any wrappers, any interleaving inside each) made one after the other on
   a job record that the pool keeps recycling leave its ledger consistent: never handed out while live, never freed twice,
   never touched while free, free at the end *)
Theorem sequence_ledger_ok :
  forall trs, Forall (fun tr => exists wrp, In wrp wrappers /\ job_exec wrp tr) trs ->
              ledger_run LFreeSt (concat trs) = Some LFreeSt.
Proof. exact sequence_ledger_ok_lemma. Qed.
Print Assumptions sequence_ledger_ok.

(* regression: with the protocol before fix c697d62 (proxy frees every job) a run with two frees of one job exists *)
Theorem proxy_frees_all_refuted :
  exists wrp tr, In wrp wrappers /\
    exec [] (task_prog switch_body end_action_events wrp) (proxy_prog switch_body [PRequeue; PFree all_ops] (w_op wrp)) tr /\
    count is_free tr = 2%nat.
Proof. exact proxy_frees_all_refuted_lemma. Qed.
Print Assumptions proxy_frees_all_refuted.
