From Coq Require Import List ZArith NArith.
From QV Require Import TQueue.Model.
Theorem placeholder_c08 : True. Proof. exact I. Qed.
Print Assumptions placeholder_c08.
