From Coq Require Import List ZArith NArith Bool Arith Permutation.
From QV Require Import TQueue.Model TQueue.Proofs TQueue.Proofs2 TQueue.Proofs3 TQueue.PtrModel TQueue.PtrProofs.
Import ListNotations.
Local Open Scope Z_scope.

(* qlength = number of nodes and qlength_stealable = number of stealable nodes on every queue, after every
   sequence of operations (enqueue, yielded enqueue, qt_scheduler_get_thread, raw steal, qthread_steal,
   dequeue_specific, flag/chunk changes) from every state in which they were exact *)
Theorem counts_exact : forall ops st, sys_exact st -> sys_exact (fst (run st ops)).
Proof. exact counts_exact_run. Qed.
Print Assumptions counts_exact.

(* nothing dropped, nothing duplicated: per task id, (queued after) + (handed to workers) = (queued before) + (enqueued) *)
Theorem conservation : forall ops st, sys_exact st ->
  forall t, (cntq t (queues (fst (run st ops))) + cnt t (run_removed st ops) = cntq t (queues st) + cnt t (run_added st ops))%nat.
Proof. exact conservation_run. Qed.
Print Assumptions conservation.

(* the C scan (driven by qlength_stealable, runs of stealable nodes) takes exactly the first
   min(desired, #stealable) stealable nodes, in queue order; the victim keeps everything else in order *)
Theorem steal_exact_prefix : forall c v s v',
  exact v -> 0 <= c -> dequeue_steal c false v = (s, v') ->
  s = firstn (Z.to_nat (desired c v)) (filter stl (items v)) /\
  length s = Nat.min (Z.to_nat (desired c v)) (count_stl (items v)) /\
  Permutation (items v' ++ s) (items v) /\ exact v'.
Proof. exact steal_facts. Qed.
Print Assumptions steal_exact_prefix.

Theorem steal_only_stealable : forall c lk v s v', exact v -> dequeue_steal c lk v = (s, v') ->
  exact v' /\ Forall (fun n => stl n = true) s.
Proof. exact exact_dequeue_steal. Qed.
Print Assumptions steal_only_stealable.

Theorem steal_progress : forall c v s v',
  exact v -> 0 <= c -> (0 < count_stl (items v))%nat -> dequeue_steal c false v = (s, v') -> s <> [].
Proof. exact steal_progress_l. Qed.
Print Assumptions steal_progress.

Theorem steal_at_most_desired : forall c v s v',
  exact v -> 0 <= c -> dequeue_steal c false v = (s, v') -> Z.of_nat (length s) <= desired c v.
Proof. exact steal_at_most_desired_l. Qed.
Print Assumptions steal_at_most_desired.

(* i++; i *= (i < n-1): starting at 0 the index is j after j steps for every j < n-1 (every entry of
   sorted_sheplist is visited within n-1 iterations) and wraps to 0 after n-1 steps *)
Theorem victim_scan_complete : forall n j, (j < n - 1)%nat -> Nat.iter j (next_idx n) O = j.
Proof. exact next_idx_iter. Qed.
Print Assumptions victim_scan_complete.
Theorem victim_scan_wraps : forall n, (2 <= n)%nat -> Nat.iter (n - 1) (next_idx n) O = O.
Proof. exact next_idx_wrap. Qed.
Print Assumptions victim_scan_wraps.

(* a stealable task queued on any shepherd of the thief's sorted_sheplist is obtained by an idle thief
   (own queue empty, no other thief of its shepherd out) within one round of qthread_steal *)
Theorem stranded_is_stealable : forall st s p,
  sys_exact st -> 0 <= chunk st -> disable st = false -> getst st s = 0 ->
  items (getq st s) = [] ->
  (p < nsheps st - 1)%nat ->
  (0 < count_stl (items (getq st (nth p (nth s (sorted st) []) O))))%nat ->
  exists n st', qsteal st s [] = SGot n st' /\ stl n = true.
Proof. exact stranded_is_stealable_l. Qed.
Print Assumptions stranded_is_stealable.

(* YIELD PRECEDENCE (all workers of the shepherd and thieves; lock-section alphabet wop).  y sits in q with R to its right
   (for a task that has just been yield-enqueued: P = [] and R = the whole queue at that moment).  When an owner-side worker w
   pops y, every element of R has left q before - popped by an owner-side worker or stolen - except that a worker other
   than worker 0 passes over a McCoy task, which only worker 0 may run. *)
Theorem yield_precedence : forall y ops q P R q' outs,
  exact q -> items q = P ++ y :: R -> ~ In y P -> ~ In y R ->
  Forall (push_ne y) ops ->
  wrun q ops = (q', outs) ->
  forall k w, nth_error ops k = Some (WPop w) -> nth k outs [] = [y] ->
  forall x, In x R -> (exists j, (j < k)%nat /\ In x (nth j outs [])) \/ (mccoy x = true /\ w <> O).
Proof. exact yield_precedence_l. Qed.
Print Assumptions yield_precedence.

(* what a thief may do to y: a steal hands out stealable nodes only - a stealable y may be stolen (it then runs on the
   thief's shepherd; the property speaks about the owner's workers), an unstealable y is never taken by a thief *)
Theorem thief_takes_only_stealable : forall ops q q' outs,
  exact q -> wrun q ops = (q', outs) ->
  forall k c, nth_error ops k = Some (WSteal c) -> Forall (fun n => stl n = true) (nth k outs []).
Proof. exact thief_takes_only_stealable_l. Qed.
Print Assumptions thief_takes_only_stealable.

(* single worker: the queue is P ++ b :: R (a yielded waiter sits in P, b is the task it waits for).  With
   enough scheduler rounds b is dequeued after at most |R| + #spawned rounds and nothing from P runs before b *)
Theorem single_worker_yield_wait : forall rs q P b R,
  items q = P ++ b :: R ->
  (length R + length (all_spawned rs) < length rs)%nat ->
  exists k, (k <= length R + length (all_spawned rs))%nat /\
            nth_error (fst (sched_run q rs)) k = Some (Some b) /\
            forall j, (j < k)%nat -> exists t, nth_error (fst (sched_run q rs)) j = Some (Some t) /\ In t (R ++ all_spawned rs).
Proof. exact single_worker_yield_wait_l. Qed.
Print Assumptions single_worker_yield_wait.

(* the `default:` branch that remains (a McCoy task obtained by a worker other than worker 0 is re-queued, not run): every
   other dequeued task is really run *)
Theorem dequeued_runs_guarded : forall st s w n,
  mccoy n = false \/ w = O -> exists st', finish_node st s w n = FDone (GGot n) st'.
Proof. exact dequeued_task_runs. Qed.
Print Assumptions dequeued_runs_guarded.

(* McCoy hand-over (rule after fix "a worker that may not run the McCoy task leaves it in place"): for EVERY interleaving
   of the workers of one shepherd on its queue (pops by any worker, yields, spawns, thieves), starting from P ++ M :: R
   with M the single unstealable McCoy task:  (A) M is handed out only by a pop of worker 0 - no other worker removes it,
   no thief steals it;  (B) as soon as worker 0 has popped more often than |R| + #tail-enqueues, one of its pops returned M.
   A task on worker 0 that busy-waits with qthread_yield() for main performs one pop per yield: the wait terminates. *)
Theorem mccoy_handover : forall ops q P M R q' outs,
  exact q -> items q = P ++ M :: R -> mccoy M = true -> stl M = false -> nm P -> nm R -> Forall push_ok ops ->
  wrun q ops = (q', outs) ->
  (forall k, In M (nth k outs []) -> nth_error ops k = Some (WPop O)) /\
  ((length R + count_push ops < count_pop0 ops)%nat ->
   exists k, nth_error ops k = Some (WPop O) /\ nth k outs [] = [M]).
Proof. exact mccoy_handover_l. Qed.
Print Assumptions mccoy_handover.

(* REGRESSION: under the rule before the fix (every worker pops the tail; wrun_old) there is a fair two-worker cycle in
   which the McCoy task never runs while a yielder is re-run for ever; the same schedule under the new rule hands M to worker 0 *)
Theorem old_rule_starvation_cycle :
  exists (M A : node) (q : queue) (st : sys),
    mccoy M = true /\ mccoy A = false /\ exact q /\ items q = [M] /\
    (exists st', finish_node st O 1 M = FCont st') /\
    wrun_old q (mccoy_cycle M A) = (q, [[M]; []; [A]; []]) /\
    (forall k, fst (wrun_old q (concat (repeat (mccoy_cycle M A) k))) = q) /\
    snd (wrun q [WPop 1; WPushY A; WPop 0]) = [[]; []; [M]].
Proof. exact Proofs2.old_rule_starvation_cycle. Qed.
Print Assumptions old_rule_starvation_cycle.

(* ---- pointer layer (PtrModel.v): each pointer-level operation keeps the heap well formed (NoDup node ids = acyclic,
   head = first, tail = last, prev/next consistent in both directions, head->prev = tail->next = NULL) and its
   abstraction is the list-level result ---- *)
Theorem ptr_enqueue_refines : forall h q ids i v h' q',
  wf h q ids -> ~ In i ids -> p_enqueue h q i v = (h', q') ->
  wf h' q' (ids ++ [i]) /\ abs h' (ids ++ [i]) = abs h ids ++ [v].
Proof. exact PtrProofs.ptr_enqueue_refines. Qed.
Print Assumptions ptr_enqueue_refines.

Theorem ptr_enqueue_yielded_refines : forall h q ids i v h' q',
  wf h q ids -> ~ In i ids -> p_enqueue_yielded h q i v = (h', q') ->
  wf h' q' (i :: ids) /\ abs h' (i :: ids) = v :: abs h ids.
Proof. exact PtrProofs.ptr_enqueue_yielded_refines. Qed.
Print Assumptions ptr_enqueue_yielded_refines.

(* the general unlink of the owner path: any node i of a well-formed queue *)
Theorem ptr_unlink_refines : forall h q a i b h' q',
  wf h q (a ++ i :: b) -> p_unlink h q i = (h', q') ->
  wf h' q' (a ++ b) /\ (forall x, cval (h' x) = cval (h x)) /\ abs h' (a ++ b) = abs h a ++ abs h b.
Proof. exact PtrProofs.ptr_unlink_refines. Qed.
Print Assumptions ptr_unlink_refines.

(* owner pop (tail, or the node in front of the McCoy task for workers other than worker 0) = list-level dequeue_worker *)
Theorem ptr_pop_refines : forall h q ids w ql qs o h' q',
  wf h q ids -> p_pop h q w = (o, h', q') ->
  match o with
  | None => fst (dequeue_worker (mkQ (abs h ids) ql qs) w) = None /\ h' = h /\ q' = q
  | Some i => exists a b, ids = a ++ i :: b /\ wf h' q' (a ++ b) /\
                          fst (dequeue_worker (mkQ (abs h ids) ql qs) w) = Some (cval (h i)) /\
                          items (snd (dequeue_worker (mkQ (abs h ids) ql qs) w)) = abs h' (a ++ b)
  end.
Proof. exact PtrProofs.ptr_pop_refines. Qed.
Print Assumptions ptr_pop_refines.

(* one splice of qt_threadqueue_dequeue_steal: the run fs..ls leaves the victim a ++ run ++ b, which stays a well-formed
   queue a ++ b; the thief's chain sc becomes the well-formed standalone list sc ++ run *)
Theorem ptr_splice_refines : forall h q a run b fs ls sc chain h' q' chain',
  wf h q (a ++ run ++ b) -> ohd run None = Some fs -> olast run None = Some ls ->
  NoDup sc -> (forall x, In x sc -> ~ In x (a ++ run ++ b)) -> dl h None sc None ->
  match chain with
  | None => sc = []
  | Some (cf, cl) => ohd sc None = Some cf /\ olast sc None = Some cl /\ sc <> []
  end ->
  p_splice h q fs ls chain = (h', q', chain') ->
  wf h' q' (a ++ b) /\
  NoDup (sc ++ run) /\ dl h' None (sc ++ run) None /\
  ohd (sc ++ run) None = Some (fst chain') /\ snd chain' = ls /\
  (forall x, cval (h' x) = cval (h x)).
Proof. exact PtrProofs.ptr_splice_refines. Qed.
Print Assumptions ptr_splice_refines.

Theorem ptr_enqueue_multiple_refines : forall h q ids c pc ec first last h' q',
  wf h q ids -> NoDup c -> (forall x, In x c -> ~ In x ids) -> dl h pc c ec ->
  ohd c None = Some first -> olast c None = Some last ->
  p_enqueue_multiple h q first last = (h', q') ->
  wf h' q' (ids ++ c) /\ (forall x, cval (h' x) = cval (h x)) /\ abs h' (ids ++ c) = abs h ids ++ abs h c.
Proof. exact PtrProofs.ptr_enqueue_multiple_refines. Qed.
Print Assumptions ptr_enqueue_multiple_refines.
