(* Proofs about the qarray model (C17): layout, addressing, ownership. *)
From Coq Require Import List NArith ZArith Bool Lia ZifyBool ZifyN.
From QV Require Import Qarray.Model.
Import ListNotations.
Local Open Scope N_scope.
Ltac Zify.zify_post_hook ::= Z.div_mod_to_equations.

(* ------------------------------------------------------------------ *)
(* Layout well-formedness: what addressing needs from a descriptor.    *)
Definition layout_wf (a : desc) : Prop :=
  0 < d_unit a /\ 0 < d_segsize a /\ d_segsize a * d_unit a <= d_segbytes a.

Lemma land7_lt x : N.land x 7 < 8.
Proof.
  change 7 with (N.ones 3). rewrite N.land_ones. apply N.mod_lt. discriminate.
Qed.

Lemma land7_mod x : N.land x 7 = x mod 8.
Proof. change 7 with (N.ones 3). rewrite N.land_ones. reflexivity. Qed.

Lemma unit_size_ge obj tight : obj <= unit_size_of obj tight.
Proof. unfold unit_size_of. destruct tight; [lia|]. destruct (N.land obj 7 =? 0); lia. Qed.

Lemma unit_size_padded obj : (unit_size_of obj false) mod 8 = 0.
Proof.
  unfold unit_size_of. rewrite land7_mod.
  destruct (obj mod 8 =? 0) eqn:E.
  - apply N.eqb_eq in E. rewrite N.add_0_r. exact E.
  - apply N.eqb_neq in E.
    assert (H8 : obj mod 8 < 8) by (apply N.mod_lt; discriminate).
    lia.
Qed.

Lemma div_mul_le' a b : b <> 0 -> a / b * b <= a.
Proof. intros Hb. rewrite N.mul_comm. apply N.mul_div_le. exact Hb. Qed.

(* qarray_create_internal produces a well-formed layout for every input it accepts
   (the code asserts segment_size > 0; with asserts compiled out that is the caller's obligation). *)
Lemma shrink_le fuel ss us sb : shrink fuel ss us sb <= ss.
Proof.
  revert ss. induction fuel as [|f IH]; intros ss; cbn [shrink]; [lia|].
  destruct ((0 <? ss) && (sb <? slot_end ss us)); [|lia].
  specialize (IH (ss - 1)). lia.
Qed.

Lemma shrink_fits fuel ss us sb :
  (N.to_nat ss <= fuel)%nat ->
  shrink fuel ss us sb = 0 \/ slot_end (shrink fuel ss us sb) us <= sb.
Proof.
  revert ss. induction fuel as [|f IH]; intros ss Hf; cbn [shrink].
  - left. lia.
  - destruct (0 <? ss) eqn:E0; cbn [andb].
    + destruct (sb <? slot_end ss us) eqn:E1.
      * apply IH. lia.
      * right. lia.
    + left. lia.
Qed.

Lemma create_layout_wf count obj d tight segpages pagesize nsheps oshep :
  0 < obj -> 0 < pagesize ->
  0 < d_segsize (create count obj d tight segpages pagesize nsheps oshep) ->
  layout_wf (create count obj d tight segpages pagesize nsheps oshep).
Proof.
  intros Hobj Hps. unfold create, layout_wf. cbn [d_unit d_segsize d_segbytes].
  pose proof (unit_size_ge obj tight) as Hus.
  set (us := unit_size_of obj tight) in *.
  assert (Hus0 : us <> 0) by lia.
  unfold layout.
  destruct (is_dist d).
  - set (sb0 := if segpages =? 0 then 16 * pagesize else segpages * pagesize).
    pose proof (div_mul_le' sb0 us Hus0) as Hdm.
    destruct (sb0 - sb0 / us * us <? 4) eqn:E4; cbn [fst snd].
    + set (sb1 := if pagesize <? us then _ else sb0).
      pose proof (shrink_le (N.to_nat (sb0 / us - 1)) (sb0 / us - 1) us sb1) as Hsh.
      set (ssf := shrink (N.to_nat (sb0 / us - 1)) (sb0 / us - 1) us sb1) in *.
      intros Hss. repeat split; try lia.
      assert (Hb : (sb0 / us - 1) * us <= sb1).
      { unfold sb1. destruct (pagesize <? us) eqn:Eps.
        - assert (Hfl : us / pagesize * pagesize <= us) by (apply div_mul_le'; lia).
          assert ((sb0 / us - 1) * us + us = sb0 / us * us) by nia.
          destruct (us mod pagesize =? 0); nia.
        - nia. }
      nia.
    + pose proof (shrink_le (N.to_nat (sb0 / us)) (sb0 / us) us sb0) as Hsh.
      set (ssf := shrink (N.to_nat (sb0 / us)) (sb0 / us) us sb0) in *.
      intros Hss. repeat split; try lia. nia.
  - set (sb0 := if segpages =? 0
                 then (if 16 * pagesize <? us then N.lcm us pagesize else 16 * pagesize)
                 else segpages * pagesize).
    cbn [fst snd]. intros Hss. repeat split; try lia.
Qed.

(* DIST: the shepherd id stored behind the elements (4-byte aligned, 2 bytes) lies inside the segment, after the
   last element, for every size combination the code accepts. *)
Definition slot_fits (a : desc) : bool :=
  (d_segsize a * d_unit a <=? shep_slot a) && (shep_slot a + 2 <=? d_segbytes a).

Lemma dist_slot_fits count obj d tight segpages pagesize nsheps oshep :
  is_dist d = true ->
  let a := create count obj d tight segpages pagesize nsheps oshep in
  0 < d_segsize a -> slot_fits a = true /\ (shep_slot a) mod 4 = 0.
Proof.
  intros Hd a Hss.
  assert (Hslot : shep_slot a + 2 = slot_end (d_segsize a) (d_unit a)) by reflexivity.
  assert (Hge : d_segsize a * d_unit a <= shep_slot a).
  { unfold shep_slot. destruct (N.land (d_segsize a * d_unit a) 3 =? 0); lia. }
  assert (Hfit : slot_end (d_segsize a) (d_unit a) <= d_segbytes a).
  { unfold a, create in *. cbn [d_unit d_segsize d_segbytes] in *. unfold layout in *. rewrite Hd in *.
    set (us := unit_size_of obj tight) in *.
    set (sb0 := if segpages =? 0 then 16 * pagesize else segpages * pagesize) in *.
    destruct (sb0 - sb0 / us * us <? 4); cbn [fst snd] in *.
    - match goal with |- slot_end (shrink ?f ?s ?u ?b) _ <= _ =>
        destruct (shrink_fits f s u b) as [Hz|Hok]; [lia | rewrite Hz in Hss; lia | exact Hok] end.
    - match goal with |- slot_end (shrink ?f ?s ?u ?b) _ <= _ =>
        destruct (shrink_fits f s u b) as [Hz|Hok]; [lia | rewrite Hz in Hss; lia | exact Hok] end. }
  split.
  - unfold slot_fits. apply andb_true_intro. split; [apply N.leb_le; exact Hge | apply N.leb_le; lia].
  - unfold shep_slot. set (p := d_segsize a * d_unit a).
    change 3 with (N.ones 2). rewrite N.land_ones. change (2 ^ 2) with 4.
    assert (H4 : p mod 4 < 4) by (apply N.mod_lt; discriminate).
    pose proof (N.div_mod p 4) as Hdm.
    destruct (p mod 4 =? 0) eqn:E; [apply N.eqb_eq in E; exact E|].
    apply N.eqb_neq in E.
    replace (p + (4 - p mod 4)) with ((p / 4 + 1) * 4) by lia.
    apply N.mod_mul. discriminate.
Qed.

(* ------------------------------------------------------------------ *)
(* Addressing: distinct, >= unit_size apart, inside the allocation.    *)
Lemma elem_off_mono a i j :
  layout_wf a -> i < j -> elem_off a i + d_unit a <= elem_off a j.
Proof.
  intros (Hu & Hs & Hle) Hij. unfold elem_off.
  set (ss := d_segsize a) in *. set (us := d_unit a) in *. set (sb := d_segbytes a) in *.
  assert (Hss : ss <> 0) by lia.
  pose proof (N.div_mod i ss Hss) as Hi. pose proof (N.div_mod j ss Hss) as Hj.
  pose proof (N.mod_lt i ss Hss) as Hil. pose proof (N.mod_lt j ss Hss) as Hjl.
  set (qi := i / ss) in *. set (qj := j / ss) in *.
  set (ri := i mod ss) in *. set (rj := j mod ss) in *.
  assert (Eri : i - qi * ss = ri) by lia.
  assert (Erj : j - qj * ss = rj) by lia.
  rewrite Eri, Erj.
  assert (Hq : qi <= qj) by (subst qi qj; apply N.div_le_mono; lia).
  destruct (N.eq_dec qi qj) as [E|NE].
  - rewrite E in *. assert (ri < rj) by nia. nia.
  - assert (qi + 1 <= qj) by lia.
    assert (qi * sb + sb <= qj * sb) by nia.
    assert ((ri + 1) * us <= ss * us) by nia.
    nia.
Qed.

Lemma elem_in_allocation a i :
  layout_wf a -> i < d_count a ->
  elem_off a i + d_unit a <= seg_count (d_count a) (d_segsize a) * d_segbytes a.
Proof.
  intros (Hu & Hs & Hle) Hi. unfold elem_off, seg_count.
  set (ss := d_segsize a) in *. set (us := d_unit a) in *. set (sb := d_segbytes a) in *.
  set (n := d_count a) in *.
  assert (Hss : ss <> 0) by lia.
  pose proof (N.div_mod i ss Hss) as Hdi. pose proof (N.mod_lt i ss Hss) as Hil.
  pose proof (N.div_mod n ss Hss) as Hdn. pose proof (N.mod_lt n ss Hss) as Hnl.
  set (qi := i / ss) in *. set (ri := i mod ss) in *.
  set (qn := n / ss) in *. set (rn := n mod ss) in *.
  assert (Eri : i - qi * ss = ri) by lia. rewrite Eri.
  assert ((ri + 1) * us <= ss * us) by nia.
  assert (Hq : qi <= qn) by (subst qi qn; apply N.div_le_mono; lia).
  destruct (rn =? 0) eqn:E.
  - apply N.eqb_eq in E. assert (qi < qn) by nia. nia.
  - nia.
Qed.

(* ------------------------------------------------------------------ *)
(* Ownership: qarray_shepof yields a valid shepherd, constant per segment. *)
Lemma shepof_same_segment nsheps asg a i j :
  i / d_segsize a = j / d_segsize a -> shepof nsheps asg a i = shepof nsheps asg a j.
Proof. intros E. unfold shepof. rewrite E. reflexivity. Qed.

Lemma shepof_valid count obj d tight segpages pagesize nsheps oshep asg i :
  0 < nsheps -> oshep < nsheps ->
  (forall s, asg s < nsheps) ->
  let a := create count obj d tight segpages pagesize nsheps oshep in
  0 < d_segsize a -> i < count ->
  shepof nsheps asg a i < nsheps.
Proof.
  intros Hn Ho Hasg a Hss Hi.
  unfold shepof, shepof_seg.
  assert (Hk : d_kind a = kind_of d) by reflexivity.
  assert (Hcount : d_count a = count) by reflexivity.
  destruct (d_kind a) eqn:K.
  - apply N.mod_lt; lia.
  - (* FIXED_FIELDS *)
    set (ss := d_segsize a) in *.
    set (sc := seg_count count ss).
    assert (Hsps : d_sps a = if sc / nsheps =? 0 then 1 else sc / nsheps).
    { assert (Kd : kind_of d = FIXED_FIELDS) by exact K.
      unfold sc, ss, a, create. cbn [d_sps d_segsize]. rewrite Kd. reflexivity. }
    assert (Hext : d_extras a = sc mod nsheps).
    { assert (Kd : kind_of d = FIXED_FIELDS) by exact K.
      unfold sc, ss, a, create. cbn [d_extras d_segsize]. rewrite Kd. reflexivity. }
    set (seg := i / ss).
    assert (Hseg : seg < sc).
    { unfold seg, sc, seg_count.
      assert (ss <> 0) by lia.
      pose proof (N.div_mod i ss H) as Hdi. pose proof (N.mod_lt i ss H) as Hil.
      pose proof (N.div_mod count ss H) as Hdn. pose proof (N.mod_lt count ss H) as Hnl.
      assert (i / ss <= count / ss) by (apply N.div_le_mono; lia).
      destruct (count mod ss =? 0) eqn:E; [apply N.eqb_eq in E; nia | lia]. }
    rewrite Hsps, Hext.
    set (q := sc / nsheps) in *. set (r := sc mod nsheps) in *.
    assert (Hnn : nsheps <> 0) by lia.
    pose proof (N.div_mod sc nsheps Hnn) as Hd. fold q r in Hd.
    pose proof (N.mod_lt sc nsheps Hnn) as Hr. fold r in Hr.
    destruct (q =? 0) eqn:Eq.
    + apply N.eqb_eq in Eq. (* fewer segments than shepherds: sps forced to 1 *)
      destruct (seg / (1 + 1) <? r) eqn:E1; [lia|].
      apply N.ltb_ge in E1.
      assert (seg - r < nsheps) by lia.
      rewrite N.div_1_r. lia.
    + apply N.eqb_neq in Eq.
      destruct (seg / (q + 1) <? r) eqn:E1; [lia|].
      apply N.ltb_ge in E1.
      apply N.div_lt_upper_bound; [lia|].
      assert (r * (q + 1) <= seg).
      { assert (q + 1 <> 0) by lia. pose proof (N.div_mod seg (q+1) H) as Hs2.
        pose proof (N.mod_lt seg (q+1) H). nia. }
      nia.
  - (* ALL_SAME *)
    assert (d_shep a = oshep).
    { assert (Kd : kind_of d = ALL_SAME) by exact K.
      unfold a, create. cbn [d_shep]. rewrite Kd. reflexivity. }
    lia.
  - apply Hasg.
Qed.

(* ------------------------------------------------------------------ *)
(* Iteration.  [covers l i] = how many of the ranges in l contain i.   *)
Fixpoint covers (l : list (N * N)) (i : N) : nat :=
  match l with
  | [] => O
  | (lo, hi) :: r => ((if ((lo <=? i)%N && (i <? hi)%N)%bool then 1 else 0) + covers r i)%nat
  end.

Definition total_covers (per_shep : list (N * list (N * N))) (i : N) : nat :=
  fold_right (fun p acc => (covers (snd p) i + acc)%nat) O per_shep.

(* each index of [start,stop) exactly once, on its owner, nothing outside *)
Definition iter_exact (nsheps : N) (asg : N -> N) (a : desc) (start stop : N)
           (r : list (N * list (N * N))) : Prop :=
  forall i, (start <= i < stop -> total_covers r i = 1%nat /\
                                  forall s l, In (s, l) r -> (0 < covers l i)%nat -> shepof nsheps asg a i = s)
            /\ (~ (start <= i < stop) -> total_covers r i = 0%nat).

(* boolean version of the same predicate on a finite range, used for the refutation witnesses *)
Definition iter_exact_b (nsheps : N) (asg : N -> N) (a : desc) (start stop : N)
           (r : list (N * list (N * N))) (upto : nat) : bool :=
  forallb (fun k => let i := N.of_nat k in
                    if (start <=? i) && (i <? stop)
                    then Nat.eqb (total_covers r i) 1 &&
                         forallb (fun p => Nat.eqb (covers (snd p) i) 0 || (shepof nsheps asg a i =? fst p)) r
                    else Nat.eqb (total_covers r i) 0)
          (seq 0 upto).

(* Contiguous kinds (ALL_SAME, FIXED_FIELDS): the main loop started anywhere covers [c, m) exactly once. *)
Lemma covers_chunks_contig nsheps asg a shep fuel c m i :
  (d_kind a = ALL_SAME \/ d_kind a = FIXED_FIELDS) -> 0 < d_segsize a -> c < m ->
  (N.to_nat ((m - (c - c mod d_segsize a)) / d_segsize a) < fuel)%nat ->
  covers (chunks nsheps asg fuel a shep c m) i = if (c <=? i) && (i <? m) then 1%nat else 0%nat.
Proof.
  intros K Hss. revert c.
  induction fuel as [|f IH]; intros c Hcm Hf; [exfalso; exact (Nat.nlt_0_r _ Hf)|].
  cbn [chunks].
  set (ss := d_segsize a) in *.
  assert (Hssn : ss <> 0) by lia.
  pose proof (N.div_mod c ss Hssn) as Hc. pose proof (N.mod_lt c ss Hssn) as Hr.
  set (q := c / ss) in *. set (r := c mod ss) in *.
  assert (Hc0 : c - r + ss = (q + 1) * ss) by lia.
  rewrite Hc0.
  assert (Hrc : r <= c) by lia.
  set (e := (q + 1) * ss) in *.
  set (mo := if ss - r <? m - c then ss - r else m - c).
  assert (Hmo : c + mo = N.min e m) by (unfold mo; destruct (ss - r <? m - c) eqn:E; lia).
  assert (Hrest : covers (if m <=? e then [] else chunks nsheps asg f a shep e m) i =
                  if (e <=? i) && (i <? m) then 1%nat else 0%nat).
  { destruct (m <=? e) eqn:E2.
    - apply N.leb_le in E2. cbn [covers].
      destruct (e <=? i) eqn:A, (i <? m) eqn:B; try reflexivity. lia.
    - apply N.leb_gt in E2. apply IH; [lia|].
      (* fuel: e is the start of the next segment *)
      assert (He0 : e mod ss = 0) by (unfold e; apply N.mod_mul; exact Hssn).
      rewrite He0, N.sub_0_r.
      fold r in Hf.
      assert (Hq : (m - (c - r)) / ss = (m - e) / ss + 1).
      { replace (m - (c - r)) with ((m - e) + 1 * ss) by lia. rewrite N.div_add by exact Hssn. reflexivity. }
      rewrite Hq in Hf. set (x := (m - e) / ss) in *. lia. }
  assert (Hmatch : covers (match d_kind a with
                           | FIXED_FIELDS | ALL_SAME => if m <=? e then [] else chunks nsheps asg f a shep e m
                           | FIXED_HASH => if m <=? c - r + ss * nsheps then [] else chunks nsheps asg f a shep (c - r + ss * nsheps) m
                           | DIST => if m <=? e then [] else
                                     match seek nsheps asg f a shep e m with
                                     | None => []
                                     | Some c' => if m <=? c' then [] else chunks nsheps asg f a shep c' m
                                     end
                           end) i = if (e <=? i) && (i <? m) then 1%nat else 0%nat).
  { destruct K as [K|K]; rewrite K; exact Hrest. }
  cbn [covers]. fold mo. rewrite Hmatch.
  destruct (c <=? i) eqn:A1, (i <? c + mo) eqn:A2, (e <=? i) eqn:A3, (i <? m) eqn:A4; cbn; lia.
Qed.

Lemma iter_exact_allsame nsheps asg a start stop :
  d_kind a = ALL_SAME -> 0 < d_segsize a -> start < stop ->
  iter_exact nsheps asg a start stop (iter nsheps asg a start stop)
  /\ iter_exact nsheps asg a start stop (iter_loop nsheps asg a start stop).
Proof.
  intros K Hss Hlt.
  assert (Hsp : spawned nsheps asg a start stop = [d_shep a]) by (unfold spawned; rewrite K; reflexivity).
  assert (Hst : forall i, covers (strider nsheps asg a (d_shep a) start stop) i
                          = if (start <=? i) && (i <? stop) then 1%nat else 0%nat).
  { intros i. unfold strider. rewrite K, N.eqb_refl.
    apply covers_chunks_contig; try assumption; [left; exact K|].
    unfold fuel_of.
    assert ((stop - (start - start mod d_segsize a)) / d_segsize a <= stop / d_segsize a) by (apply N.div_le_mono; lia).
    set (x := (stop - (start - start mod d_segsize a)) / d_segsize a) in *. set (y := stop / d_segsize a) in *. lia. }
  assert (Hls : forall i, covers (loop_strider nsheps asg a (d_shep a) start stop) i
                          = if (start <=? i) && (i <? stop) then 1%nat else 0%nat).
  { intros i. unfold loop_strider. rewrite K, N.eqb_refl. cbn [covers].
    destruct ((start <=? i) && (i <? stop)); reflexivity. }
  split; intros i; unfold iter, iter_loop, total_covers; rewrite Hsp; cbn [map fold_right snd];
    [rewrite Hst | rewrite Hls]; (split; [intros Hin | intros Hout]).
  - assert (E : (start <=? i) && (i <? stop) = true) by lia. rewrite E. split; [reflexivity|].
    intros s l [Heq|[]] _. inversion Heq; subst. unfold shepof. rewrite K. reflexivity.
  - assert (E : (start <=? i) && (i <? stop) = false) by lia. rewrite E. reflexivity.
  - assert (E : (start <=? i) && (i <? stop) = true) by lia. rewrite E. split; [reflexivity|].
    intros s l [Heq|[]] _. inversion Heq; subst. unfold shepof. rewrite K. reflexivity.
  - assert (E : (start <=? i) && (i <? stop) = false) by lia. rewrite E. reflexivity.
Qed.

(* ------------------------------------------------------------------ *)
(* Regression inputs: the witnesses on which the striders misbehaved before the repair (known findings that were
   fixed in /repo); on the model of the repaired code they are exact.                                          *)
Definition hash2 : desc := create 511 16 dFIXED_HASH false 1 4096 2 0.
Example strider_midsegment_regression :
  iter_exact_b 2 (fun _ => 0) hash2 100 314 (iter_loop 2 (fun _ => 0) hash2 100 314) 512 = true /\
  iter_exact_b 2 (fun _ => 0) hash2 100 314 (iter 2 (fun _ => 0) hash2 100 314) 512 = true.
Proof. vm_compute. split; reflexivity. Qed.

Definition fields1 : desc := create 81920 1 dFIXED_FIELDS true 5 4096 1 0.
Example fields_loopstrider_regression :
  covers (loop_strider 1 (fun _ => 0) fields1 0 40959 81920) 81919 = 1%nat.
Proof. vm_compute. reflexivity. Qed.

Definition fields2 : desc := create 2048 8 dFIXED_FIELDS true 1 4096 2 0.
Example fields_midregion_regression :
  iter_exact_b 2 (fun _ => 0) fields2 100 2048 (iter 2 (fun _ => 0) fields2 100 2048) 2049 = true.
Proof. vm_compute. reflexivity. Qed.

(* Regression: the size combinations on which the id slot used to overflow the segment (unit sizes below 4; a
   trimmed large segment) now fit. *)
Example shep_slot_regression :
  slot_fits (create 23232 1 dDIST_LEAST true 5 4096 1 0) = true /\
  slot_fits (create 10 4097 dDIST true 4097 4096 2 0) = true.
Proof. vm_compute. split; reflexivity. Qed.
