(* Executable model of src/ds/qarray.c + include/qthread/qarray.h (C17).
   Concrete layer: mirrors the code branch by branch (the striders as repaired by the
   fix: commit that makes chunks stop at segment ends and FIXED_FIELDS use the shepherd's region). *)
From Coq Require Import List NArith Bool Lia.
Import ListNotations.
Local Open Scope N_scope.

Inductive dkind := FIXED_HASH | FIXED_FIELDS | ALL_SAME | DIST.
(* creation-time distribution_t, numbered as in qarray.h *)
Inductive distribution :=
| dFIXED_HASH | dFIXED_FIELDS | dALL_SAME | dDIST
| dDIST_STRIPES | dDIST_FIELDS | dDIST_RAND | dDIST_LEAST
| dALL_LOCAL | dALL_RAND | dALL_LEAST.

Record desc := mkdesc {
  d_count : N; d_unit : N; d_segbytes : N; d_segsize : N;
  d_kind : dkind; d_sps : N; d_extras : N; d_shep : N }.

Definition is_dist (d : distribution) : bool :=
  match d with dDIST | dDIST_STRIPES | dDIST_FIELDS | dDIST_RAND | dDIST_LEAST => true | _ => false end.
Definition is_all (d : distribution) : bool :=
  match d with dALL_SAME | dALL_LOCAL | dALL_RAND | dALL_LEAST => true | _ => false end.

Definition kind_of (d : distribution) : dkind :=
  if is_all d then ALL_SAME else if is_dist d then DIST else
  match d with dFIXED_FIELDS => FIXED_FIELDS | _ => FIXED_HASH end.

(* obj_size rounded up to a multiple of 8 unless tight *)
Definition unit_size_of (obj : N) (tight : bool) : N :=
  if tight then obj else obj + (if N.land obj 7 =? 0 then 0 else 8 - N.land obj 7).

Definition seg_count (count segsize : N) : N :=
  count / segsize + (if count mod segsize =? 0 then 0 else 1).

(* qarray_create_internal: size arithmetic.  [oshep] is the shepherd the code picks for the
   ALL_* kinds (current shepherd / random / least loaded: an oracle input). *)
(* "while (segment_size > 0 && roundup4(segment_size*unit) + sizeof(id) > segment_bytes) segment_size--" *)
Definition slot_end (ss us : N) : N :=
  let p := ss * us in (if N.land p 3 =? 0 then p else p + (4 - N.land p 3)) + 2.

Fixpoint shrink (fuel : nat) (ss us sb : N) : N :=
  match fuel with
  | O => ss
  | S f => if (0 <? ss) && (sb <? slot_end ss us) then shrink f (ss - 1) us sb else ss
  end.

Definition layout (isd : bool) (us segpages pagesize : N) : N * N :=
  if isd then
    let sb0 := if segpages =? 0 then 16 * pagesize else segpages * pagesize in
    let ss0 := sb0 / us in
    let '(sb1, ss1) :=
      if sb0 - ss0 * us <? 4 then
        (if pagesize <? us
         then (sb0 - (us / pagesize) * pagesize) + (if us mod pagesize =? 0 then pagesize else 0)
         else sb0, ss0 - 1)
      else (sb0, ss0) in
    (sb1, shrink (N.to_nat ss1) ss1 us sb1)
  else
    let sb0 := if segpages =? 0
               then (if 16 * pagesize <? us then N.lcm us pagesize else 16 * pagesize)
               else segpages * pagesize in
    (sb0, sb0 / us).

Definition create (count obj : N) (d : distribution) (tight : bool) (segpages pagesize nsheps oshep : N) : desc :=
  let us := unit_size_of obj tight in
  let lay := layout (is_dist d) us segpages pagesize in
  let sc := seg_count count (snd lay) in
  let k := kind_of d in
  let sps0 := sc / nsheps in
  mkdesc count us (fst lay) (snd lay) k
         (match k with FIXED_FIELDS => if sps0 =? 0 then 1 else sps0 | _ => 0 end)
         (match k with FIXED_FIELDS => sc mod nsheps | _ => 0 end)
         (match k with ALL_SAME => oshep | _ => 0 end).

(* qarray_elem_nomigrate: byte offset from base_ptr *)
Definition elem_off (a : desc) (i : N) : N :=
  let seg := i / d_segsize a in
  seg * d_segbytes a + (i - seg * d_segsize a) * d_unit a.

(* qarray_internal_segment_shep: offset (within the segment) of the shepherd id slot, DIST only *)
Definition shep_slot (a : desc) : N :=
  let p := d_segsize a * d_unit a in
  if N.land p 3 =? 0 then p else p + (4 - N.land p 3).

(* creation-time assignment of segment -> shepherd for the deterministic kinds *)
Definition assign_of (d : distribution) (sc nsheps : N) (seg : N) : N :=
  match d with
  | dDIST_STRIPES => seg mod nsheps
  | dDIST_FIELDS =>
      let sps := sc / nsheps in let extras := sc mod nsheps in
      let t := seg / (sps + 1) in
      if extras <=? t then (seg - extras) / sps else t
  | _ => 0
  end.

Section WithEnv.
  Variable nsheps : N.
  Variable asg : N -> N.     (* DIST: the shepherd id stored in each segment *)

  Definition shepof_seg (a : desc) (seg : N) : N :=
    match d_kind a with
    | ALL_SAME => d_shep a
    | FIXED_FIELDS =>
        if seg / (d_sps a + 1) <? d_extras a then seg / (d_sps a + 1)
        else (seg - d_extras a) / d_sps a
    | FIXED_HASH => seg mod nsheps
    | DIST => asg seg
    end.

  Definition shepof (a : desc) (i : N) : N :=
    match d_kind a with
    | ALL_SAME => d_shep a
    | _ => shepof_seg a (i / d_segsize a)
    end.

  (* "while (shepof(count) != shep) { count += ss; if (count >= max) exit }" *)
  Fixpoint seek (fuel : nat) (a : desc) (shep count max : N) : option N :=
    match fuel with
    | O => None
    | S f => if shepof a count =? shep then Some count
             else let c := count + d_segsize a in
                  if max <=? c then None else seek f a shep c max
    end.

  (* the common entry of the "default:" branch of the three striders *)
  Definition seek_start (fuel : nat) (a : desc) (shep count max : N) : option N :=
    let ss := d_segsize a in
    if (0 <? count) && negb (shepof a count =? shep) then
      let c := count + (ss - count mod ss) in
      if max <=? c then None else seek fuel a shep c max
    else seek fuel a shep count max.

  (* main loop of the striders for FIXED_HASH / DIST (and, for qarray_strider, all kinds):
     list of [lo,hi) handed to the user function, in order *)
  Fixpoint chunks (fuel : nat) (a : desc) (shep count max : N) : list (N * N) :=
    match fuel with
    | O => []
    | S f =>
        let ss := d_segsize a in
        let seg_left := ss - count mod ss in      (* count may start inside a segment *)
        let mo := if seg_left <? max - count then seg_left else max - count in
        let c0 := count - count mod ss in         (* step from the start of this segment *)
        (count, count + mo) ::
        match d_kind a with
        | FIXED_FIELDS | ALL_SAME =>
            let c := c0 + ss in if max <=? c then [] else chunks f a shep c max
        | FIXED_HASH =>
            let c := c0 + ss * nsheps in if max <=? c then [] else chunks f a shep c max
        | DIST =>
            let c := c0 + ss in
            if max <=? c then [] else
            match seek f a shep c max with
            | None => []
            | Some c' => if max <=? c' then [] else chunks f a shep c' max
            end
        end
    end.

  Definition fuel_of (a : desc) (stop : N) : nat := S (S (N.to_nat (stop / d_segsize a))).

  (* qarray_internal_fields_region: [first, end) of the indices whose segments belong to shep (FIXED_FIELDS) *)
  Definition fields_region (a : desc) (shep : N) : N * N :=
    let ss := d_segsize a in
    let first := if shep <? d_extras a then shep * ss * (d_sps a + 1)
                 else d_extras a * ss * (d_sps a + 1) + (shep - d_extras a) * ss * d_sps a in
    let segs_here := d_sps a + (if shep <? d_extras a then 1 else 0) in
    (first, first + ss * segs_here).

  (* the common FIXED_FIELDS prologue of the three striders: my part [c, m) of [start, stop), if any *)
  Definition fields_part (a : desc) (shep start stop : N) : option (N * N) :=
    let s0 := shepof a start in let s1 := shepof a (stop - 1) in
    if (shep <? s0) || (s1 <? shep) then None else
    let '(first, rend) := fields_region a shep in
    let c := if shep =? s0 then start else first in
    let m := if rend <? stop then rend else stop in
    Some (c, m).

  (* qarray_strider (per-element iteration): ranges of indices visited on [shep] *)
  Definition strider (a : desc) (shep start stop : N) : list (N * N) :=
    let fuel := fuel_of a stop in
    match d_kind a with
    | ALL_SAME => if shep =? d_shep a then chunks fuel a shep start stop else []
    | FIXED_FIELDS =>
        match fields_part a shep start stop with
        | None => []
        | Some (c, m) => chunks fuel a shep c m
        end
    | _ => match seek_start fuel a shep start stop with
           | None => []
           | Some c => chunks fuel a shep c stop
           end
    end.

  (* qarray_loop_strider / _loopaccum_strider (the constloop entry uses the loop strider): (lo,hi) pairs handed
     to the user's loop function *)
  Definition loop_strider (a : desc) (shep start stop : N) : list (N * N) :=
    let fuel := fuel_of a stop in
    match d_kind a with
    | ALL_SAME => if shep =? d_shep a then [(start, stop)] else []
    | FIXED_FIELDS =>
        match fields_part a shep start stop with
        | None => []
        | Some (c, m) => [(c, m)]
        end
    | _ => match seek_start fuel a shep start stop with
           | None => []
           | Some c => chunks fuel a shep c stop
           end
    end.

  (* which shepherds get a strider task (qarray_iter, qarray_iter_loop, ...) *)
  Definition spawned (a : desc) (start stop : N) : list N :=
    match d_kind a with
    | ALL_SAME => [d_shep a]
    | FIXED_FIELDS =>
        let s0 := shepof a start in let s1 := shepof a (stop - 1) in
        map N.of_nat (seq (N.to_nat s0) (S (N.to_nat s1) - N.to_nat s0))
    | _ => if start / d_segsize a =? (stop - 1) / d_segsize a then [shepof a start]
           else map N.of_nat (seq 0 (N.to_nat nsheps))
    end.

  (* qarray_iter_loopaccum: its own choice of shepherds in the default branch *)
  Fixpoint marks (fuel : nat) (a : desc) (idx stop : N) : list N :=
    match fuel with
    | O => []
    | S f => if idx <? stop then shepof a idx :: marks f a (idx + d_segsize a) stop else []
    end.
  Definition spawned_accum (a : desc) (start stop : N) : list N :=
    match d_kind a with
    | ALL_SAME | FIXED_FIELDS => spawned a start stop
    | _ =>
        let ss := d_segsize a in
        let all := map N.of_nat (seq 0 (N.to_nat nsheps)) in
        if (stop - start) / ss <? ((d_count a + ss - 1) / ss) / nsheps
        then let m := marks (fuel_of a stop) a ((start / ss) * ss) stop in
             filter (fun s => existsb (N.eqb s) m) all
        else all
    end.
  Definition iter_loopaccum (a : desc) (start stop : N) : list (N * list (N * N)) :=
    map (fun s => (s, loop_strider a s start stop)) (spawned_accum a start stop).

  Definition iter (a : desc) (start stop : N) : list (N * list (N * N)) :=
    map (fun s => (s, strider a s start stop)) (spawned a start stop).
  Definition iter_loop (a : desc) (start stop : N) : list (N * list (N * N)) :=
    map (fun s => (s, loop_strider a s start stop)) (spawned a start stop).
End WithEnv.
