(* C17: iteration over FIXED_FIELDS arrays (each shepherd owns one contiguous run of segments; the first `extras`
   shepherds own one more) is exact for EVERY non-empty range [start, stop). *)
From Coq Require Import List NArith ZArith Bool Lia ZifyBool ZifyN ZifyNat Arith.
From QV Require Import Qarray.Model Qarray.Proofs Qarray.ProofsHash.
Import ListNotations.
Local Open Scope N_scope.

(* ---- pure arithmetic about the region layout, in units of segments ---- *)
Section Regions.
  Variable sps e : N.                 (* segs_per_shep >= 1, extras *)
  Hypothesis Hsps : 0 < sps.

  Definition owner (q : N) : N := if q / (sps + 1) <? e then q / (sps + 1) else (q - e) / sps.
  Definition rfirst (s : N) : N := if s <? e then s * (sps + 1) else e * (sps + 1) + (s - e) * sps.
  Definition rlen (s : N) : N := sps + (if s <? e then 1 else 0).

  Lemma div_char a b s : 0 < b -> (a / b = s <-> s * b <= a < (s + 1) * b).
  Proof.
    intros Hb. assert (Hb0 : b <> 0) by lia.
    pose proof (N.div_mod a b Hb0) as Hd. pose proof (N.mod_lt a b Hb0) as Hm.
    split.
    - intros <-. nia.
    - intros [H1 H2]. symmetry. apply (N.div_unique a b s (a - s * b)); nia.
  Qed.

  Lemma owner_region q s : owner q = s <-> rfirst s <= q < rfirst s + rlen s.
  Proof.
    unfold owner, rfirst, rlen.
    assert (H1 : 0 < sps + 1) by lia.
    destruct (q / (sps + 1) <? e) eqn:E.
    - apply N.ltb_lt in E. split.
      + intros <-. replace (q / (sps + 1) <? e) with true by lia.
        pose proof (proj1 (div_char q (sps + 1) (q / (sps + 1)) H1) eq_refl). nia.
      + destruct (s <? e) eqn:Es.
        * intros [A B]. apply div_char; [exact H1 | nia].
        * apply N.ltb_ge in Es. intros [A B]. exfalso.
          pose proof (proj1 (div_char q (sps + 1) (q / (sps + 1)) H1) eq_refl) as [C D]. nia.
    - apply N.ltb_ge in E.
      pose proof (proj1 (div_char q (sps + 1) (q / (sps + 1)) H1) eq_refl) as [C D].
      assert (Hqe : e * (sps + 1) <= q) by nia.
      split.
      + intros <-.
        pose proof (proj1 (div_char (q - e) sps ((q - e) / sps) Hsps) eq_refl) as [A B].
        set (t := (q - e) / sps) in *.
        assert (Ht : e <= t).
        { apply N.div_le_lower_bound; [lia | nia]. }
        replace (t <? e) with false by lia. nia.
      + destruct (s <? e) eqn:Es.
        * apply N.ltb_lt in Es. intros [A B]. exfalso. nia.
        * apply N.ltb_ge in Es. intros [A B]. apply div_char; [exact Hsps | nia].
  Qed.

  Lemma rfirst_next s : rfirst (s + 1) = rfirst s + rlen s.
  Proof.
    unfold rfirst, rlen.
    destruct (s <? e) eqn:E1, (s + 1 <? e) eqn:E2; try lia.
    - apply N.ltb_lt in E1. apply N.ltb_ge in E2. assert (s + 1 = e) by lia. nia.
    - apply N.ltb_ge in E1. apply N.ltb_ge in E2. nia.
  Qed.

  Lemma rfirst_mono s t : s <= t -> rfirst s <= rfirst t.
  Proof.
    intros H. replace t with (s + (t - s)) by lia. generalize (t - s). clear H t.
    intros d. induction d as [|d IH] using N.peano_ind; [rewrite N.add_0_r; lia|].
    replace (s + N.succ d) with ((s + d) + 1) by lia. rewrite rfirst_next. lia.
  Qed.

  Lemma rend_le_first s t : s < t -> rfirst s + rlen s <= rfirst t.
  Proof. intros H. rewrite <- rfirst_next. apply rfirst_mono. lia. Qed.

  Lemma owner_mono q1 q2 : q1 <= q2 -> owner q1 <= owner q2.
  Proof.
    intros H.
    destruct (N.le_gt_cases (owner q1) (owner q2)) as [|Hgt]; [assumption|exfalso].
    pose proof (proj1 (owner_region q1 (owner q1)) eq_refl) as [A1 B1].
    pose proof (proj1 (owner_region q2 (owner q2)) eq_refl) as [A2 B2].
    pose proof (rend_le_first (owner q2) (owner q1) Hgt). lia.
  Qed.
End Regions.

Section Fields.
  Variable n : N.
  Variable asg : N -> N.
  Variable a : desc.
  Hypothesis K : d_kind a = FIXED_FIELDS.
  Hypothesis Hss : 0 < d_segsize a.
  Hypothesis Hsps : 0 < d_sps a.
  Let ss := d_segsize a.
  Let sps := d_sps a.
  Let e := d_extras a.

  Lemma ss_ne'' : ss <> 0. Proof. unfold ss; lia. Qed.

  Lemma div_bounds'' i : (i / ss) * ss <= i < (i / ss + 1) * ss.
  Proof.
    pose proof (N.div_mod i ss ss_ne'') as H. pose proof (N.mod_lt i ss ss_ne'') as H1. nia.
  Qed.

  Lemma shepof_fields i : shepof n asg a i = owner sps e (i / ss).
  Proof. unfold shepof, shepof_seg, owner. rewrite K. reflexivity. Qed.

  Lemma fields_region_eq s :
    fields_region a s = (rfirst sps e s * ss, (rfirst sps e s + rlen sps e s) * ss).
  Proof.
    unfold fields_region, rfirst, rlen. fold ss sps e.
    destruct (s <? e); f_equal; nia.
  Qed.

  (* index i belongs to the region of shepherd s iff s owns it *)
  Lemma in_region i s :
    shepof n asg a i = s <-> rfirst sps e s * ss <= i < (rfirst sps e s + rlen sps e s) * ss.
  Proof.
    rewrite shepof_fields. rewrite (owner_region sps e Hsps).
    pose proof (div_bounds'' i) as [A B]. set (qi := i / ss) in *.
    split; intros [C D]; split; nia.
  Qed.

  (* my part of [start, stop): the intersection of the range with my region *)
  Lemma fields_part_spec s start stop :
    start < stop ->
    match fields_part n asg a s start stop with
    | None => forall i, start <= i < stop -> shepof n asg a i <> s
    | Some (c, m) => c < m /\ start <= c /\ m <= stop /\
                     forall i, (c <= i < m <-> (start <= i < stop /\ shepof n asg a i = s))
    end.
  Proof.
    intros Hlt. unfold fields_part. rewrite fields_region_eq.
    set (s0 := shepof n asg a start). set (s1 := shepof n asg a (stop - 1)).
    assert (Hmono : forall i, start <= i < stop -> s0 <= shepof n asg a i <= s1).
    { intros i Hi. unfold s0, s1. rewrite !shepof_fields. split; apply owner_mono; try exact Hsps;
        apply N.div_le_mono; try exact ss_ne''; lia. }
    pose proof (proj1 (in_region start s0) eq_refl) as [S0a S0b].
    pose proof (proj1 (in_region (stop - 1) s1) eq_refl) as [S1a S1b].
    destruct ((s <? s0) || (s1 <? s)) eqn:Eout.
    - intros i Hi Hown. specialize (Hmono i Hi). lia.
    - apply orb_false_iff in Eout. destruct Eout as [E0 E1].
      apply N.ltb_ge in E0. apply N.ltb_ge in E1.
      set (F := rfirst sps e s) in *. set (L := rlen sps e s) in *.
      assert (HL : 0 < L) by (unfold L, rlen; fold sps; destruct (s <? e); lia).
      assert (Hfs1 : F * ss <= stop - 1).
      { assert (F <= rfirst sps e s1) by (apply rfirst_mono; [exact Hsps | exact E1]). nia. }
      cbv beta iota.
      destruct (s =? s0) eqn:Es0.
      + apply N.eqb_eq in Es0. subst s. fold F L in S0a, S0b.
        set (m := if (F + L) * ss <? stop then (F + L) * ss else stop).
        assert (Hm : m = N.min ((F + L) * ss) stop) by (unfold m; destruct ((F + L) * ss <? stop) eqn:E; lia).
        split; [lia|]. split; [lia|]. split; [lia|]. intros i. split.
        * intros [A B]. split; [lia|]. apply in_region. fold F L. lia.
        * intros [[A B] Hown]. apply in_region in Hown. fold F L in Hown. lia.
      + apply N.eqb_neq in Es0.
        assert (Hgt : s0 < s) by lia.
        assert (Hstart : start < F * ss).
        { pose proof (rend_le_first sps e Hsps s0 s Hgt). fold F in H. nia. }
        set (m := if (F + L) * ss <? stop then (F + L) * ss else stop).
        assert (Hm : m = N.min ((F + L) * ss) stop) by (unfold m; destruct ((F + L) * ss <? stop) eqn:E; lia).
        split; [nia|]. split; [nia|]. split; [nia|]. intros i. split.
        * intros [A B]. split; [lia|]. apply in_region. fold F L. lia.
        * intros [[A B] Hown]. apply in_region in Hown. fold F L in Hown. lia.
  Qed.

  Lemma fuel_contig c stop : c < stop ->
    (N.to_nat ((stop - (c - c mod ss)) / ss) < fuel_of a stop)%nat.
  Proof.
    intros H. unfold fuel_of. fold ss.
    assert ((stop - (c - c mod ss)) / ss <= stop / ss) by (apply N.div_le_mono; [exact ss_ne'' | lia]).
    set (x := (stop - (c - c mod ss)) / ss) in *. set (y := stop / ss) in *. lia.
  Qed.

  Lemma fuel_mono m stop : m <= stop -> (fuel_of a m <= fuel_of a stop)%nat.
  Proof.
    intros H. unfold fuel_of. fold ss.
    assert (m / ss <= stop / ss) by (apply N.div_le_mono; [exact ss_ne'' | lia]).
    set (x := m / ss) in *. set (y := stop / ss) in *. lia.
  Qed.

  (* both striders visit exactly my part *)
  Lemma strider_fields_covers s start stop i :
    start < stop ->
    covers (strider n asg a s start stop) i =
    (if (start <=? i) && (i <? stop) && (shepof n asg a i =? s) then 1%nat else 0%nat) /\
    covers (loop_strider n asg a s start stop) i =
    (if (start <=? i) && (i <? stop) && (shepof n asg a i =? s) then 1%nat else 0%nat).
  Proof.
    intros Hlt. unfold strider, loop_strider. rewrite K.
    pose proof (fields_part_spec s start stop Hlt) as Hp.
    destruct (fields_part n asg a s start stop) as [[c m]|].
    - destruct Hp as (Hcm & Hsc & Hms & Hiff).
      assert (Hrhs : (if (c <=? i) && (i <? m) then 1%nat else 0%nat) =
                     (if (start <=? i) && (i <? stop) && (shepof n asg a i =? s) then 1%nat else 0%nat)).
      { specialize (Hiff i).
        destruct ((c <=? i) && (i <? m)) eqn:A.
        - assert (Hx : start <= i < stop /\ shepof n asg a i = s) by (apply Hiff; lia).
          destruct Hx as [Hx1 Hx2]. rewrite Hx2, N.eqb_refl.
          replace ((start <=? i) && (i <? stop)) with true by lia. reflexivity.
        - destruct ((start <=? i) && (i <? stop) && (shepof n asg a i =? s)) eqn:B; [|reflexivity].
          exfalso. assert (c <= i < m) by (apply Hiff; lia). lia. }
      split.
      + rewrite covers_chunks_contig; [exact Hrhs | right; exact K | exact Hss | exact Hcm |].
        (* the strider runs with fuel_of a stop although its bound is m <= stop *)
        pose proof (fuel_contig c m Hcm) as H1. pose proof (fuel_mono m stop Hms) as H2. unfold ss in H1.
        set (x := (m - (c - c mod d_segsize a)) / d_segsize a) in *. lia.
      + cbn [covers]. rewrite Nat.add_0_r. exact Hrhs.
    - cbn [covers].
      assert (Hz : (start <=? i) && (i <? stop) && (shepof n asg a i =? s) = false).
      { destruct ((start <=? i) && (i <? stop)) eqn:A; [|reflexivity]. cbn [andb].
        apply N.eqb_neq. apply Hp. lia. }
      rewrite Hz. split; reflexivity.
  Qed.

  Lemma sum_indicator_range (f : N -> list (N * N)) i s0 s1 si :
    s0 <= s1 ->
    (forall s, s0 <= s <= s1 -> covers (f s) i = if s =? si then 1%nat else 0%nat) ->
    total_covers (map (fun s => (s, f s)) (map N.of_nat (seq (N.to_nat s0) (S (N.to_nat s1) - N.to_nat s0)))) i =
    if (s0 <=? si) && (si <=? s1) then 1%nat else 0%nat.
  Proof.
    intros Hle Hf.
    rewrite (sum_indicator 1 asg a N.lt_0_1 Hss f i si (N.to_nat s0) (S (N.to_nat s1) - N.to_nat s0)).
    - destruct ((N.of_nat (N.to_nat s0) <=? si) && (si <? N.of_nat (N.to_nat s0 + (S (N.to_nat s1) - N.to_nat s0)))) eqn:A;
        destruct ((s0 <=? si) && (si <=? s1)) eqn:B; try reflexivity; lia.
    - intros k Hk. rewrite Hf by lia. reflexivity.
  Qed.

  Theorem iter_exact_fields start stop :
    start < stop ->
    iter_exact n asg a start stop (iter n asg a start stop) /\
    iter_exact n asg a start stop (iter_loop n asg a start stop).
  Proof.
    intros Hlt.
    set (s0 := shepof n asg a start). set (s1 := shepof n asg a (stop - 1)).
    assert (Hmono : forall i, start <= i < stop -> s0 <= shepof n asg a i <= s1).
    { intros i Hi. unfold s0, s1. rewrite !shepof_fields. split; apply owner_mono; try exact Hsps;
        apply N.div_le_mono; try exact ss_ne''; lia. }
    assert (H01 : s0 <= s1) by (specialize (Hmono start); lia).
    assert (Hsp : spawned n asg a start stop =
                  map N.of_nat (seq (N.to_nat s0) (S (N.to_nat s1) - N.to_nat s0))).
    { unfold spawned. rewrite K. reflexivity. }
    assert (G : forall (f : N -> list (N * N)),
               (forall s i, covers (f s) i =
                            if (start <=? i) && (i <? stop) && (shepof n asg a i =? s) then 1%nat else 0%nat) ->
               iter_exact n asg a start stop (map (fun s => (s, f s)) (spawned n asg a start stop))).
    { intros f Hf. rewrite Hsp. intros i. split.
      - intros Hin. specialize (Hmono i Hin).
        rewrite (sum_indicator_range f i s0 s1 (shepof n asg a i) H01).
        + replace ((s0 <=? shepof n asg a i) && (shepof n asg a i <=? s1)) with true by lia.
          split; [reflexivity|].
          intros s l Hinl Hpos. apply in_map_iff in Hinl. destruct Hinl as (s' & Heq & _).
          inversion Heq; subst s l. rewrite Hf in Hpos.
          destruct (shepof n asg a i =? s') eqn:E; [apply N.eqb_eq in E; exact E|].
          rewrite andb_false_r in Hpos. inversion Hpos.
        + intros s Hs. rewrite Hf.
          replace ((start <=? i) && (i <? stop)) with true by lia. cbn [andb].
          rewrite N.eqb_sym. reflexivity.
      - intros Hout.
        rewrite (sum_indicator_range f i s0 s1 (s1 + 1) H01).
        + replace ((s0 <=? s1 + 1) && (s1 + 1 <=? s1)) with false by lia. reflexivity.
        + intros s Hs. rewrite Hf.
          replace ((start <=? i) && (i <? stop)) with false by lia. cbn [andb].
          replace (s =? s1 + 1) with false by lia. reflexivity. }
    split.
    - unfold iter. apply G. intros s i. apply (strider_fields_covers s start stop i Hlt).
    - unfold iter_loop. apply G. intros s i. apply (strider_fields_covers s start stop i Hlt).
  Qed.
End Fields.
