(* C17 extension L, part 2: qarray_dist_like copies the owners; iteration is exact for the UPDATED owner table. *)
From Coq Require Import List NArith ZArith Bool Arith Lia.
From QV Require Import Qarray.Model Qarray.ModelMut Qarray.Proofs Qarray.ProofsHash Qarray.ProofsDist
     Qarray.ProofsFields Qarray.ProofsAll Qarray.ProofsMut.
Import ListNotations.
Local Open Scope N_scope.

Lemma seg_start_lt count ss q : 0 < ss -> q < seg_count count ss -> q * ss < count.
Proof.
  intros Hss H. unfold seg_count in H.
  assert (Hn : ss <> 0) by lia.
  pose proof (N.div_mod count ss Hn) as Hd. pose proof (N.mod_lt count ss Hn) as Hm.
  destruct (N.eqb_spec (count mod ss) 0) as [E|E].
  - assert (q + 1 <= count / ss) by lia.
    assert ((q + 1) * ss <= count / ss * ss) by (apply N.mul_le_mono_r; assumption). lia.
  - assert (q <= count / ss) by lia.
    assert (q * ss <= count / ss * ss) by (apply N.mul_le_mono_r; assumption). lia.
Qed.

Lemma seg_of_lt count ss j : 0 < ss -> j < count -> j / ss < seg_count count ss.
Proof.
  intros Hss H. unfold seg_count.
  assert (Hn : ss <> 0) by lia.
  pose proof (N.div_mod count ss Hn) as Hd. pose proof (N.mod_lt count ss Hn) as Hm.
  pose proof (N.div_mod j ss Hn) as Hj. pose proof (N.mod_lt j ss Hn) as Hjm.
  destruct (N.eqb_spec (count mod ss) 0) as [E|E].
  - apply N.div_lt_upper_bound; [exact Hn|]. lia.
  - assert (j / ss <= count / ss) by (apply N.div_le_mono; lia). lia.
Qed.

Lemma existsb_eqb_in q l : existsb (N.eqb q) l = true <-> In q l.
Proof.
  rewrite existsb_exists. split.
  - intros [y [Hy E]]. apply N.eqb_eq in E. subst. exact Hy.
  - intros H. exists q. split; [exact H | apply N.eqb_refl].
Qed.

(* the loop of qarray_dist_like over the segment heads of a DIST array *)
Lemma set_loop_owner nsheps f l : forall t m t' m',
  d_kind (a_desc m) = DIST -> 0 < d_segsize (a_desc m) ->
  length (a_own m) = N.to_nat (nsegs (a_desc m)) ->
  (forall q, In q l -> q < nsegs (a_desc m)) ->
  set_loop nsheps f (map (fun s => s * d_segsize (a_desc m)) l) t m = Some (t', m') ->
  forall q, owner_seg nsheps m' q =
            if existsb (N.eqb q) l then f (q * d_segsize (a_desc m)) else owner_seg nsheps m q.
Proof.
  induction l as [|q0 r IH]; intros t m t' m' K Hss Hl Hin H q.
  - cbn in H. inversion H; subst. reflexivity.
  - cbn [map set_loop] in H.
    destruct (set_shepof_arr nsheps t m (q0 * d_segsize (a_desc m)) (f (q0 * d_segsize (a_desc m)))) as [[t1 m1]|] eqn:E;
      [|discriminate].
    pose proof (set_shepof_layout _ _ _ _ _ _ _ E) as L.
    pose proof L as (L1 & L2 & L3 & L4 & L5 & _).
    assert (Hl' : d_kind (a_desc m) = DIST -> length (a_own m) = N.to_nat (nsegs (a_desc m))) by (intros _; exact Hl).
    pose proof (own_len_preserved _ _ _ _ _ _ _ Hl' E) as Hl1.
    pose proof (set_shepof_owner nsheps _ _ _ _ _ _ q Hl' E) as Ho.
    rewrite L4 in H.
    rewrite (IH t1 m1 t' m'); try assumption.
    + rewrite Ho. unfold set_spec. rewrite K.
      assert (Hq0 : q0 < nsegs (a_desc m)) by (apply Hin; left; reflexivity).
      pose proof (seg_start_lt _ _ _ Hss Hq0) as Hlt.
      assert (Eg : (d_count (a_desc m) <? q0 * d_segsize (a_desc m)) = false) by (apply N.ltb_ge; lia).
      rewrite Eg. rewrite N.div_mul by lia. rewrite <- L4.
      cbn [existsb]. destruct (N.eqb_spec q q0) as [->|Hne].
      * cbn [orb]. destruct (existsb (N.eqb q0) r); reflexivity.
      * cbn [orb]. reflexivity.
    + congruence.
    + rewrite <- L4. exact Hss.
    + apply Hl1. congruence.
    + intros q' Hq'. rewrite <- (same_layout_nsegs _ _ L). apply Hin. right. exact Hq'.
Qed.

(* when qarray_dist_like(ref, mod) goes through *)
Definition like_accepts (r m : arr) : bool :=
  (d_count (a_desc r) =? d_count (a_desc m)) && (d_unit (a_desc r) =? d_unit (a_desc m)) &&
  match d_kind (a_desc r), d_kind (a_desc m) with
  | ALL_SAME, ALL_SAME | ALL_SAME, DIST => true
  | DIST, DIST => (d_segsize (a_desc r) =? d_segsize (a_desc m)) && (d_segbytes (a_desc r) =? d_segbytes (a_desc m))
  | _, _ => false
  end.

Theorem dist_like_copies nsheps t r m t' m' :
  0 < d_segsize (a_desc m) ->
  (d_kind (a_desc m) = DIST -> length (a_own m) = N.to_nat (nsegs (a_desc m))) ->
  dist_like_arr nsheps t r m = Some (t', m') ->
  (like_accepts r m = true ->
   forall j, j < d_count (a_desc m) ->
             shepof nsheps (asg_of (a_own m')) (a_desc m') j = shepof nsheps (asg_of (a_own r)) (a_desc r) j) /\
  (like_accepts r m = false -> t' = t /\ m' = m).
Proof.
  intros Hss Hl H. unfold dist_like_arr in H. unfold like_accepts.
  destruct (N.eqb_spec (d_count (a_desc r)) (d_count (a_desc m))) as [Ec|Ec]; cbn [negb andb] in *;
    [|inversion H; subst; split; [discriminate | auto]].
  destruct (N.eqb_spec (d_unit (a_desc r)) (d_unit (a_desc m))) as [Eu|Eu]; cbn [negb andb] in *;
    [|inversion H; subst; split; [discriminate | auto]].
  destruct (d_kind (a_desc r)) eqn:Kr; cbn [kind_eqb andb] in H.
  - (* ref FIXED_HASH *) inversion H; subst. split; [discriminate | auto].
  - inversion H; subst. split; [discriminate | auto].
  - (* ref ALL_SAME *)
    destruct (d_kind (a_desc m)) eqn:Km.
    + inversion H; subst. split; [discriminate | auto].
    + inversion H; subst. split; [discriminate | auto].
    + split; [|discriminate]. intros _ j Hj.
      pose proof (set_shepof_layout _ _ _ _ _ _ _ H) as (L1 & L2 & L3 & L4 & L5 & _).
      rewrite shepof_is_owner.
      assert (Hl' : d_kind (a_desc m) = DIST -> length (a_own m) = N.to_nat (nsegs (a_desc m))) by (intros K'; congruence).
      rewrite (set_shepof_owner nsheps _ _ _ _ _ _ (j / d_segsize (a_desc m')) Hl' H).
      unfold set_spec. rewrite Km.
      assert (Eg : (d_count (a_desc m) <? 0) = false) by (apply N.ltb_ge; lia).
      rewrite Eg. unfold shepof. rewrite Kr. reflexivity.
    + split; [|discriminate]. intros _ j Hj.
      pose proof (set_loop_layout _ _ _ _ _ _ _ H) as (L1 & L2 & L3 & L4 & L5 & _).
      rewrite shepof_is_owner.
      unfold seg_starts in H.
      rewrite (set_loop_owner nsheps _ _ _ _ _ _ Km Hss (Hl eq_refl) (fun q Hq => proj1 (in_nseq q _) Hq) H).
      assert (Hin : existsb (N.eqb (j / d_segsize (a_desc m'))) (nseq (nsegs (a_desc m))) = true).
      { apply existsb_eqb_in, in_nseq. rewrite <- L4. unfold nsegs. apply seg_of_lt; assumption. }
      rewrite Hin. unfold shepof. rewrite Kr. reflexivity.
  - (* ref DIST *)
    destruct (d_kind (a_desc m)) eqn:Km; cbn [kind_eqb andb] in H.
    + destruct (d_segsize (a_desc r) =? d_segsize (a_desc m)); cbn [negb] in H;
        [destruct (d_segbytes (a_desc r) =? d_segbytes (a_desc m)); cbn [negb] in H|];
        inversion H; subst; (split; [discriminate | auto]).
    + destruct (d_segsize (a_desc r) =? d_segsize (a_desc m)); cbn [negb] in H;
        [destruct (d_segbytes (a_desc r) =? d_segbytes (a_desc m)); cbn [negb] in H|];
        inversion H; subst; (split; [discriminate | auto]).
    + inversion H; subst. split; [discriminate | auto].
    + destruct (N.eqb_spec (d_segsize (a_desc r)) (d_segsize (a_desc m))) as [Es|Es]; cbn [negb andb] in *;
        [|inversion H; subst; split; [discriminate | auto]].
      destruct (N.eqb_spec (d_segbytes (a_desc r)) (d_segbytes (a_desc m))) as [Eb|Eb]; cbn [negb andb] in *;
        [|inversion H; subst; split; [discriminate | auto]].
      split; [|discriminate]. intros _ j Hj.
      pose proof (set_loop_layout _ _ _ _ _ _ _ H) as (L1 & L2 & L3 & L4 & L5 & _).
      rewrite shepof_is_owner.
      unfold seg_starts in H.
      rewrite (set_loop_owner nsheps _ _ _ _ _ _ Km Hss (Hl eq_refl) (fun q Hq => proj1 (in_nseq q _) Hq) H).
      assert (Hin : existsb (N.eqb (j / d_segsize (a_desc m'))) (nseq (nsegs (a_desc m))) = true).
      { apply existsb_eqb_in, in_nseq. rewrite <- L4. unfold nsegs. apply seg_of_lt; assumption. }
      rewrite Hin. rewrite <- L4.
      unfold shepof. rewrite Kr. rewrite Es. rewrite N.div_mul by lia. reflexivity.
Qed.

(* ---------- iteration after updates ---------- *)
Lemma asg_of_valid nsheps own q : 0 < nsheps -> Forall (fun s => s < nsheps) own -> asg_of own q < nsheps.
Proof.
  intros Hn Hf. unfold asg_of. destruct (nth_in_or_default (N.to_nat q) own 0) as [Hin|E]; [|rewrite E; exact Hn].
  rewrite Forall_forall in Hf. apply Hf. exact Hin.
Qed.

(* for EVERY array qarray_create_configured can produce (any valid owner table: the random / least-loaded
   assignments are covered), EVERY sequence of qarray_set_shepof / qarray_dist_like calls that stays inside the
   defined behaviour, and every non-empty range: the iteration entry points visit every index exactly once, each on
   its CURRENT owner (the owner table after the updates), nothing else *)
Theorem iter_exact_after_updates count obj d tight segpages pagesize nsheps oshep t x ops t' x' start stop :
  same_layout (create count obj d tight segpages pagesize nsheps oshep) (a_desc x) ->
  0 < nsheps -> 0 < d_segsize (a_desc x) -> arr_ok nsheps x ->
  arun nsheps (t, x) ops = Some (t', x') -> start < stop ->
  iter_exact nsheps (asg_of (a_own x')) (a_desc x') start stop (iter nsheps (asg_of (a_own x')) (a_desc x') start stop) /\
  iter_exact nsheps (asg_of (a_own x')) (a_desc x') start stop (iter_loop nsheps (asg_of (a_own x')) (a_desc x') start stop).
Proof.
  intros L0 Hn Hss Hok H Hlt.
  pose proof (arun_layout _ _ _ _ H) as L. cbn [snd] in L.
  pose proof (arun_ok nsheps ops (t, x) (t', x') Hok H) as Hok'. cbn [snd] in Hok'.
  pose proof (same_layout_trans _ _ _ L0 L) as L2.
  destruct L as (L1 & _ & _ & L4 & L5 & _).
  assert (Hss' : 0 < d_segsize (a_desc x')) by (rewrite <- L4; exact Hss).
  destruct (d_kind (a_desc x')) eqn:K.
  - apply iter_exact_hash; assumption.
  - apply iter_exact_fields; try assumption.
    destruct L2 as (_ & _ & _ & _ & K2 & S2 & _). rewrite <- S2.
    apply create_sps_pos. rewrite K2. exact K.
  - apply iter_exact_allsame; assumption.
  - apply iter_exact_dist; try assumption.
    intros q. apply asg_of_valid; [exact Hn|]. destruct Hok' as [Hd _]. apply (Hd K).
Qed.
