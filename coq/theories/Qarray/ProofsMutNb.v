(* C17 extension L, part 4: qarray_iter_loop_nb at operation level -- under EVERY interleaving of the wrapper and the
   striders the caller's return word is filled at most once, and only after every invocation has returned;
   plus the faithful statement about qarray_elem_migrate. *)
From Coq Require Import List NArith ZArith Bool Arith Lia.
From QV Require Import Qarray.Model Qarray.ModelMut Qarray.ProofsMut.
Import ListNotations.

Definition str_ok (s : strider_st) : Prop := s_done s = true -> s_left s = O /\ s_active s = false.
Fixpoint ndone (l : list strider_st) : nat :=
  match l with [] => O | s :: r => (if s_done s then 1 else 0) + ndone r end.

Lemma ndone_le l : ndone l <= length l.
Proof. induction l as [|s r IH]; cbn; [lia|]. destruct (s_done s); lia. Qed.

Lemma all_done l : ndone l = length l -> Forall (fun s => s_done s = true) l.
Proof.
  induction l as [|s r IH]; cbn; intros H; [constructor|].
  pose proof (ndone_le r). destruct (s_done s) eqn:E; [|lia].
  constructor; [exact E | apply IH; lia].
Qed.

Lemma strider_step_spec s s' inc :
  strider_step s = Some (s', inc) -> s_done s = false /\ s_done s' = inc /\ str_ok s'.
Proof.
  unfold strider_step, str_ok. destruct (s_done s) eqn:D; [discriminate|].
  destruct (s_active s).
  - intros H; inversion H; subst; cbn. repeat split; discriminate.
  - destruct (s_left s); intros H; inversion H; subst; cbn; repeat split; try discriminate; auto.
Qed.

Lemma ndone_upd l : forall j s s',
  nth_error l j = Some s -> s_done s = false ->
  ndone (upd l j s') = ndone l + (if s_done s' then 1 else 0).
Proof.
  induction l as [|a r IH]; intros [|j] s s' H D; cbn in H; try discriminate.
  - inversion H; subst. cbn. rewrite D. lia.
  - cbn [upd ndone]. rewrite (IH j s s' H D). lia.
Qed.

Lemma Forall_upd' {A} (P : A -> Prop) l k v : Forall P l -> P v -> Forall P (upd l k v).
Proof. apply Forall_upd. Qed.

Definition nb_inv (st : nb_state) : Prop :=
  Forall str_ok (nb_str st) /\ nb_donecount st = ndone (nb_str st) /\
  match nb_pc st with
  | W_spawn => nb_str st = [] /\ nb_fills st = 0 /\ nb_full st = false
  | W_wait => length (nb_str st) = length (nb_plan st) /\ nb_fills st = 0 /\ nb_full st = false
  | W_ret => length (nb_str st) = length (nb_plan st) /\ ndone (nb_str st) = length (nb_str st) /\
             nb_fills st = 0 /\ nb_full st = false
  | W_end => length (nb_str st) = length (nb_plan st) /\ ndone (nb_str st) = length (nb_str st) /\
             nb_fills st = 1 /\ nb_full st = true
  end.

Lemma ndone_fresh plan : ndone (map (fun n => mkst n false false) plan) = 0.
Proof. induction plan; cbn; auto. Qed.

Lemma nb_step_inv st tid st' : nb_inv st -> nb_step st tid = Some st' -> nb_inv st'.
Proof.
  intros (Hf & Hd & Hpc) H. destruct tid as [|j]; cbn [nb_step] in H.
  - destruct (nb_pc st) eqn:P.
    + inversion H; subst; clear H. destruct Hpc as (Hs & F0 & Fu). unfold nb_inv; cbn.
      rewrite Hs in Hd. cbn in Hd.
      split; [apply Forall_forall; intros s Hin; apply in_map_iff in Hin; destruct Hin as [n [<- _]]; intros D; discriminate D|].
      split; [rewrite ndone_fresh; exact Hd|]. split; [apply map_length|]. split; assumption.
    + destruct (Nat.eqb (nb_donecount st) (length (nb_str st))) eqn:E; [|discriminate].
      apply Nat.eqb_eq in E. inversion H; subst; clear H. destruct Hpc as (Hl & F0 & Fu).
      unfold nb_inv; cbn. repeat split; try assumption. congruence.
    + inversion H; subst; clear H. destruct Hpc as (Hl & Ha & F0 & Fu).
      unfold nb_inv; cbn. repeat split; try assumption. congruence.
    + discriminate.
  - destruct (nth_error (nb_str st) j) as [s|] eqn:N; [|discriminate].
    destruct (strider_step s) as [[s' inc]|] eqn:S; [|discriminate].
    inversion H; subst; clear H.
    destruct (strider_step_spec _ _ _ S) as (D & D' & Ok).
    unfold nb_inv; cbn.
    split; [apply Forall_upd; assumption|].
    split; [rewrite (ndone_upd _ _ _ _ N D), D'; destruct inc; lia|].
    assert (Hnd : ndone (nb_str st) = length (nb_str st) -> False).
    { intros Ha. pose proof (all_done _ Ha) as Hall. rewrite Forall_forall in Hall.
      apply nth_error_In in N. rewrite (Hall _ N) in D. discriminate. }
    destruct (nb_pc st).
    + destruct Hpc as (Hs & _). rewrite Hs in N. destruct j; discriminate.
    + destruct Hpc as (Hl & F0 & Fu). rewrite upd_length. repeat split; assumption.
    + destruct Hpc as (_ & Ha & _). destruct (Hnd Ha).
    + destruct Hpc as (_ & Ha & _). destruct (Hnd Ha).
Qed.

Lemma nb_run_inv sched : forall st, nb_inv st -> nb_inv (nb_run st sched).
Proof.
  induction sched as [|t r IH]; intros st Hi; cbn [nb_run]; [exact Hi|].
  apply IH. destruct (nb_step st t) as [st'|] eqn:E; [eapply nb_step_inv; eassumption | exact Hi].
Qed.

Lemma nb_init_inv plan : nb_inv (nb_init plan).
Proof. unfold nb_inv, nb_init; cbn. repeat split; constructor. Qed.

Lemma inv_all_returned st :
  nb_inv st -> ndone (nb_str st) = length (nb_str st) -> length (nb_str st) = length (nb_plan st) ->
  nb_all_returned st = true.
Proof.
  intros (Hf & _ & _) Ha Hl. unfold nb_all_returned. rewrite Hl, Nat.eqb_refl, andb_true_r.
  apply forallb_forall. intros s Hin.
  pose proof (all_done _ Ha) as Hall. rewrite Forall_forall in Hall, Hf.
  pose proof (Hall s Hin) as D. destruct (Hf s Hin D) as [L A]. rewrite L, A, D. reflexivity.
Qed.

(* every schedule: the return word is filled at most once; it is full only after the wrapper has seen every strider
   finish, i.e. after every invocation has returned; while it is not full it has never been filled *)
Theorem iter_loop_nb_completion plan sched :
  let st := nb_run (nb_init plan) sched in
  nb_fills st <= 1 /\
  (nb_full st = true -> nb_fills st = 1 /\ nb_all_returned st = true) /\
  (nb_full st = false -> nb_fills st = 0).
Proof.
  intros st. pose proof (nb_run_inv sched _ (nb_init_inv plan)) as Hi. fold st in Hi.
  pose proof Hi as (Hf & Hd & Hpc).
  destruct (nb_pc st).
  - destruct Hpc as (_ & F0 & Fu). rewrite F0, Fu. repeat split; try lia; discriminate.
  - destruct Hpc as (_ & F0 & Fu). rewrite F0, Fu. repeat split; try lia; discriminate.
  - destruct Hpc as (_ & _ & F0 & Fu). rewrite F0, Fu. repeat split; try lia; discriminate.
  - destruct Hpc as (Hl & Ha & F1 & Fu). rewrite F1, Fu. split; [lia|]. split; [|discriminate].
    intros _. split; [reflexivity|]. apply inv_all_returned; assumption.
Qed.

(* progress: as long as the word is not full some thread can take a step (no deadlock) *)
Theorem iter_loop_nb_no_deadlock plan sched :
  let st := nb_run (nb_init plan) sched in
  nb_full st = false -> exists tid st', nb_step st tid = Some st'.
Proof.
  intros st Hfull. pose proof (nb_run_inv sched _ (nb_init_inv plan)) as Hi. fold st in Hi.
  destruct Hi as (Hf & Hd & Hpc).
  destruct (nb_pc st) eqn:P.
  - exists 0. cbn [nb_step]. rewrite P. eexists; reflexivity.
  - destruct (Nat.eq_dec (ndone (nb_str st)) (length (nb_str st))) as [Ha|Hn].
    + exists 0. cbn [nb_step]. rewrite P, Hd, Ha, Nat.eqb_refl. eexists; reflexivity.
    + (* some strider is not done: it can step *)
      assert (Hex : exists j s, nth_error (nb_str st) j = Some s /\ s_done s = false).
      { clear -Hn. induction (nb_str st) as [|a r IH]; [cbn in Hn; congruence|].
        cbn in Hn. destruct (s_done a) eqn:D.
        - destruct IH as [j [s [Hj Hs]]]; [lia|]. exists (S j), s. split; assumption.
        - exists 0, a. split; [reflexivity | exact D]. }
      destruct Hex as [j [s [Hj Hs]]]. exists (S j). cbn [nb_step]. rewrite Hj.
      unfold strider_step. rewrite Hs. destruct (s_active s); [eexists; reflexivity|].
      destruct (s_left s); eexists; reflexivity.
  - exists 0. cbn [nb_step]. rewrite P. eexists; reflexivity.
  - destruct Hpc as (_ & _ & _ & Fu). congruence.
Qed.

Example nb_nonvacuous :
  let st := nb_run (nb_init [2; 0; 1]) [0; 1; 2; 3; 0; 1; 1; 3; 1; 3; 0; 1; 0; 0; 2] in
  nb_full st = true /\ nb_fills st = 1 /\ nb_all_returned st = true.
Proof. vm_compute. repeat split. Qed.

(* ---------- qarray_elem_migrate ---------- *)
Local Open Scope N_scope.
(* the code as it is: NULL (no migration) for EVERY valid index *)
Theorem elem_migrate_code_null nsheps x i :
  i < d_count (a_desc x) -> elem_migrate_code nsheps x i = EM_null.
Proof. intros H. unfold elem_migrate_code. apply N.ltb_lt in H. rewrite H. reflexivity. Qed.

(* hence it never does what the header promises *)
Theorem elem_migrate_refuted nsheps x i :
  i < d_count (a_desc x) -> elem_migrate_code nsheps x i <> elem_migrate_spec nsheps x i.
Proof.
  intros H. rewrite (elem_migrate_code_null nsheps x i H). unfold elem_migrate_spec.
  apply N.ltb_lt in H. rewrite H. discriminate.
Qed.
