(* C17: iteration over DIST arrays (arbitrary segment -> shepherd assignment, e.g. DIST_RAND) is exact for every
   range that starts on a segment boundary. *)
From Coq Require Import List NArith ZArith Bool Lia ZifyBool ZifyN ZifyNat Arith.
From QV Require Import Qarray.Model Qarray.Proofs Qarray.ProofsHash.
Import ListNotations.
Local Open Scope N_scope.

Section Dist.
  Variable n : N.
  Variable asg : N -> N.
  Variable a : desc.
  Hypothesis K : d_kind a = DIST.
  Hypothesis Hn : 0 < n.
  Hypothesis Hss : 0 < d_segsize a.
  Hypothesis Hasg : forall q, asg q < n.
  Let ss := d_segsize a.

  Lemma ss_ne' : ss <> 0. Proof. unfold ss; lia. Qed.

  Lemma div_bounds' i : (i / ss) * ss <= i < (i / ss + 1) * ss.
  Proof.
    pose proof (N.div_mod i ss ss_ne') as H. pose proof (N.mod_lt i ss ss_ne') as H1. nia.
  Qed.

  Lemma shepof_dist i : shepof n asg a i = asg (i / ss).
  Proof. unfold shepof, shepof_seg. rewrite K. reflexivity. Qed.

  Lemma shepof_dist_aligned q : shepof n asg a (q * ss) = asg q.
  Proof. rewrite shepof_dist. rewrite N.div_mul by exact ss_ne'. reflexivity. Qed.

  Lemma q_le_div q m : q * ss < m -> q <= m / ss.
  Proof. intros H. apply N.div_le_lower_bound; [exact ss_ne' | lia]. Qed.

  (* seek: first segment at or after q owned by s, below m *)
  Lemma seek_dist fuel s q m :
    q * ss < m ->
    match seek n asg fuel a s (q * ss) m with
    | Some c' => exists q', c' = q' * ss /\ q <= q' /\ q' * ss < m /\ asg q' = s /\
                            forall q'', q <= q'' < q' -> asg q'' <> s
    | None => (N.to_nat (m / ss + 1 - q) <= fuel)%nat ->
              forall q'', q <= q'' -> q'' * ss < m -> asg q'' <> s
    end.
  Proof.
    revert q. induction fuel as [|f IH]; intros q Hq; cbn [seek].
    - intros Hf. pose proof (q_le_div _ _ Hq). lia.
    - rewrite shepof_dist_aligned. fold ss.
      destruct (asg q =? s) eqn:E.
      + apply N.eqb_eq in E. exists q. repeat split; try lia.
      + apply N.eqb_neq in E.
        replace (q * ss + ss) with ((q + 1) * ss) by lia.
        destruct (m <=? (q + 1) * ss) eqn:E2.
        * apply N.leb_le in E2. intros _ q'' H1 H2.
          assert (q'' = q) by nia. subst. exact E.
        * apply N.leb_gt in E2. specialize (IH (q + 1) E2).
          destruct (seek n asg f a s ((q + 1) * ss) m) as [c'|].
          -- destruct IH as (q' & -> & Hle & Hlt & Hown & Hskip).
             exists q'. repeat split; try lia. intros q'' Hr.
             destruct (N.eq_dec q'' q) as [->|]; [exact E | apply Hskip; lia].
          -- intros Hf q'' H1 H2.
             destruct (N.eq_dec q'' q) as [->|]; [exact E|].
             apply IH; try lia.
  Qed.

  Lemma covers_chunks_dist fuel s q m i :
    q * ss < m -> asg q = s -> (N.to_nat (m / ss + 1 - q) <= fuel)%nat ->
    covers (chunks n asg fuel a s (q * ss) m) i =
    if (q * ss <=? i) && (i <? m) && (asg (i / ss) =? s) then 1%nat else 0%nat.
  Proof.
    revert q. induction fuel as [|f IH]; intros q Hq Hown Hf.
    { pose proof (q_le_div _ _ Hq). lia. }
    cbn [chunks]. rewrite K. fold ss. cbn [covers].
    pose proof (div_bounds' i) as [Hlo Hhi]. set (qi := i / ss) in *.
    pose proof (q_le_div _ _ Hq) as Hqm.
    replace (q * ss + ss) with ((q + 1) * ss) by lia.
    set (mo := if ss <? m - q * ss then ss else m - q * ss).
    assert (Hmo : mo = N.min ss (m - q * ss)).
    { unfold mo. destruct (ss <? m - q * ss) eqn:E; lia. }
    (* the part after the first range *)
    assert (Hrest :
      covers (if m <=? (q + 1) * ss then [] else
              match seek n asg f a s ((q + 1) * ss) m with
              | Some c' => if m <=? c' then [] else chunks n asg f a s c' m
              | None => []
              end) i =
      if ((q + 1) * ss <=? i) && (i <? m) && (asg qi =? s) then 1%nat else 0%nat).
    { destruct (m <=? (q + 1) * ss) eqn:E2.
      - apply N.leb_le in E2. cbn [covers].
        destruct ((q + 1) * ss <=? i) eqn:A; [|reflexivity].
        destruct (i <? m) eqn:B; [|reflexivity]. lia.
      - apply N.leb_gt in E2.
        pose proof (seek_dist f s (q + 1) m E2) as Hsk.
        destruct (seek n asg f a s ((q + 1) * ss) m) as [c'|].
        + destruct Hsk as (q' & -> & Hle & Hlt & Hown' & Hskip).
          replace (m <=? q' * ss) with false by lia.
          rewrite IH; [| exact Hlt | exact Hown' | lia].
          fold qi.
          destruct (i <? m) eqn:B; [|rewrite !andb_false_r; reflexivity]. apply N.ltb_lt in B.
          destruct (q' * ss <=? i) eqn:A1.
          * apply N.leb_le in A1. replace ((q + 1) * ss <=? i) with true by nia. reflexivity.
          * apply N.leb_gt in A1. cbn [andb].
            destruct ((q + 1) * ss <=? i) eqn:A2; [|reflexivity]. apply N.leb_le in A2. cbn [andb].
            assert (Hne : asg qi <> s) by (apply Hskip; nia).
            apply N.eqb_neq in Hne. rewrite Hne. reflexivity.
        + cbn [covers].
          destruct ((q + 1) * ss <=? i) eqn:A2; [|reflexivity]. apply N.leb_le in A2.
          destruct (i <? m) eqn:B; [|reflexivity]. apply N.ltb_lt in B. cbn [andb].
          assert (Hne : asg qi <> s) by (apply Hsk; [lia | nia | nia]).
          apply N.eqb_neq in Hne. rewrite Hne. reflexivity. }
    rewrite Hrest. clear Hrest IH.
    destruct (i <? m) eqn:B.
    2:{ apply N.ltb_ge in B. rewrite !andb_false_r. cbn [andb].
        replace (i <? q * ss + mo) with false by lia. rewrite andb_false_r. reflexivity. }
    apply N.ltb_lt in B.
    destruct (q * ss <=? i) eqn:A1.
    2:{ apply N.leb_gt in A1. cbn [andb]. replace ((q + 1) * ss <=? i) with false by nia. reflexivity. }
    apply N.leb_le in A1. cbn [andb].
    destruct (N.lt_ge_cases i ((q + 1) * ss)) as [C|C].
    - assert (qi = q) by nia.
      replace (i <? q * ss + mo) with true by lia.
      replace ((q + 1) * ss <=? i) with false by lia. cbn [andb].
      rewrite H, Hown, N.eqb_refl. reflexivity.
    - replace (i <? q * ss + mo) with false by lia.
      replace ((q + 1) * ss <=? i) with true by lia. reflexivity.
  Qed.

  Lemma seek_start_dist s q m :
    q * ss < m ->
    match seek_start n asg (fuel_of a m) a s (q * ss) m with
    | Some c' => exists q', c' = q' * ss /\ q <= q' /\ q' * ss < m /\ asg q' = s /\
                            forall q'', q <= q'' < q' -> asg q'' <> s
    | None => forall q'', q <= q'' -> q'' * ss < m -> asg q'' <> s
    end.
  Proof.
    intros Hq. unfold seek_start. fold ss. rewrite shepof_dist_aligned.
    assert (Hfuel : (N.to_nat (m / ss + 1 - q) <= fuel_of a m)%nat) by (unfold fuel_of, ss; set (x := m / d_segsize a); lia).
    destruct ((0 <? q * ss) && negb (asg q =? s)) eqn:E.
    - apply andb_prop in E. destruct E as [_ E]. apply negb_true_iff in E. apply N.eqb_neq in E.
      rewrite N.mod_mul by exact ss_ne'. rewrite N.sub_0_r.
      replace (q * ss + ss) with ((q + 1) * ss) by lia.
      destruct (m <=? (q + 1) * ss) eqn:E2.
      + apply N.leb_le in E2. intros q'' H1 H2. assert (q'' = q) by nia. subst. exact E.
      + apply N.leb_gt in E2. pose proof (seek_dist (fuel_of a m) s (q + 1) m E2) as Hsk.
        destruct (seek n asg (fuel_of a m) a s ((q + 1) * ss) m) as [c'|].
        * destruct Hsk as (q' & -> & Hle & Hlt & Hown & Hskip).
          exists q'. repeat split; try lia. intros q'' Hr.
          destruct (N.eq_dec q'' q) as [->|]; [exact E | apply Hskip; lia].
        * intros q'' H1 H2. destruct (N.eq_dec q'' q) as [->|]; [exact E|].
          apply Hsk; lia.
    - pose proof (seek_dist (fuel_of a m) s q m Hq) as Hsk.
      destruct (seek n asg (fuel_of a m) a s (q * ss) m) as [c'|]; [exact Hsk|].
      apply Hsk. exact Hfuel.
  Qed.

  Lemma strider_dist_covers s q0 stop i :
    q0 * ss < stop ->
    covers (strider n asg a s (q0 * ss) stop) i =
    if (q0 * ss <=? i) && (i <? stop) && (asg (i / ss) =? s) then 1%nat else 0%nat.
  Proof.
    intros Hne. unfold strider. rewrite K. fold ss.
    pose proof (seek_start_dist s q0 stop Hne) as Hsk.
    pose proof (div_bounds' i) as [Hlo Hhi]. set (qi := i / ss) in *.
    destruct (seek_start n asg (fuel_of a stop) a s (q0 * ss) stop) as [c'|].
    - destruct Hsk as (q' & -> & Hle & Hlt & Hown & Hskip).
      rewrite covers_chunks_dist; [| exact Hlt | exact Hown | unfold fuel_of, ss; set (x := stop / d_segsize a); lia].
      fold qi.
      destruct (i <? stop) eqn:B; [|rewrite !andb_false_r; reflexivity]. apply N.ltb_lt in B.
      destruct (q' * ss <=? i) eqn:A1.
      + apply N.leb_le in A1. replace (q0 * ss <=? i) with true by nia. reflexivity.
      + apply N.leb_gt in A1. cbn [andb].
        destruct (q0 * ss <=? i) eqn:A2; [|reflexivity]. apply N.leb_le in A2. cbn [andb].
        assert (Hx : asg qi <> s) by (apply Hskip; nia).
        apply N.eqb_neq in Hx. rewrite Hx. reflexivity.
    - cbn [covers].
      destruct (q0 * ss <=? i) eqn:A2; [|reflexivity]. apply N.leb_le in A2.
      destruct (i <? stop) eqn:B; [|reflexivity]. apply N.ltb_lt in B. cbn [andb].
      assert (Hx : asg qi <> s) by (apply Hsk; nia).
      apply N.eqb_neq in Hx. rewrite Hx. reflexivity.
  Qed.

  Lemma loop_strider_dist s start stop : loop_strider n asg a s start stop = strider n asg a s start stop.
  Proof. unfold loop_strider, strider. rewrite K. reflexivity. Qed.

  Theorem iter_exact_dist_aligned start stop :
    start mod ss = 0 -> start < stop ->
    iter_exact n asg a start stop (iter n asg a start stop) /\
    iter_exact n asg a start stop (iter_loop n asg a start stop).
  Proof.
    intros Hal Hlt.
    assert (Hq0 : start = (start / ss) * ss).
    { pose proof (N.div_mod start ss ss_ne'). lia. }
    set (q0 := start / ss) in *.
    assert (Hil : iter_loop n asg a start stop = iter n asg a start stop).
    { unfold iter_loop, iter. apply map_ext. intros s. rewrite loop_strider_dist. reflexivity. }
    rewrite Hil. assert (G : iter_exact n asg a start stop (iter n asg a start stop)); [|split; exact G].
    unfold iter, spawned. rewrite K. fold ss.
    assert (Hne : q0 * ss < stop) by lia.
    destruct (stop - start <? ss) eqn:Esmall.
    - apply N.ltb_lt in Esmall.
      assert (Hsh : shepof n asg a start = asg q0) by (rewrite shepof_dist; reflexivity).
      rewrite Hsh.
      intros i. cbn [map total_covers fold_right snd]. rewrite Hq0. rewrite strider_dist_covers by exact Hne.
      pose proof (div_bounds' i) as [Hlo Hhi].
      split.
      + intros Hin. assert (i / ss = q0) by nia.
        replace (q0 * ss <=? i) with true by lia. replace (i <? stop) with true by lia. cbn [andb].
        rewrite H, N.eqb_refl. split; [reflexivity|].
        intros s l [Heq|[]] _. inversion Heq; subst s l. rewrite shepof_dist, H. reflexivity.
      + intros Hout. replace ((q0 * ss <=? i) && (i <? stop)) with false by lia. reflexivity.
    - intros i. split.
      + intros Hin.
        rewrite (sum_indicator_all n asg a Hn Hss (fun s => strider n asg a s start stop) i (asg (i / ss))).
        * pose proof (Hasg (i / ss)) as Hown. apply N.ltb_lt in Hown. rewrite Hown.
          split; [reflexivity|].
          intros s l Hinl Hpos. apply in_map_iff in Hinl. destruct Hinl as (s' & Heq & Hs').
          inversion Heq; subst s l.
          rewrite Hq0 in Hpos. rewrite strider_dist_covers in Hpos by exact Hne.
          rewrite shepof_dist. destruct (asg (i / ss) =? s') eqn:E; [apply N.eqb_eq in E; exact E|].
          rewrite andb_false_r in Hpos. inversion Hpos.
        * intros s Hs. rewrite Hq0. rewrite strider_dist_covers by exact Hne.
          replace (q0 * ss <=? i) with true by lia. replace (i <? stop) with true by lia. cbn [andb].
          rewrite N.eqb_sym. reflexivity.
      + intros Hout.
        rewrite (sum_indicator_all n asg a Hn Hss (fun s => strider n asg a s start stop) i n).
        * rewrite N.ltb_irrefl. reflexivity.
        * intros s Hs. rewrite Hq0. rewrite strider_dist_covers by exact Hne.
          replace ((q0 * ss <=? i) && (i <? stop)) with false by lia. cbn [andb].
          replace (s =? n) with false by lia. reflexivity.
  Qed.
End Dist.
