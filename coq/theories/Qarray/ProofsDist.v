(* C17: iteration over DIST arrays (arbitrary segment -> shepherd assignment, e.g. DIST_RAND) is exact for EVERY
   non-empty range [start, stop), aligned to segment boundaries or not. *)
From Coq Require Import List NArith ZArith Bool Lia ZifyBool ZifyN ZifyNat Arith.
From QV Require Import Qarray.Model Qarray.Proofs Qarray.ProofsHash.
Import ListNotations.
Local Open Scope N_scope.

Lemma seg_unique (ss i x y : N) :
  x * ss <= i < (x + 1) * ss -> y * ss <= i < (y + 1) * ss -> x = y.
Proof. intros [H1 H2] [H3 H4]. nia. Qed.

Section Dist.
  Variable n : N.
  Variable asg : N -> N.
  Variable a : desc.
  Hypothesis K : d_kind a = DIST.
  Hypothesis Hn : 0 < n.
  Hypothesis Hss : 0 < d_segsize a.
  Hypothesis Hasg : forall q, asg q < n.
  Let ss := d_segsize a.

  Lemma ss_ne' : ss <> 0. Proof. unfold ss; lia. Qed.

  Lemma div_bounds' i : (i / ss) * ss <= i < (i / ss + 1) * ss.
  Proof.
    pose proof (N.div_mod i ss ss_ne') as H. pose proof (N.mod_lt i ss ss_ne') as H1. nia.
  Qed.

  Lemma shepof_dist i : shepof n asg a i = asg (i / ss).
  Proof. unfold shepof, shepof_seg. rewrite K. reflexivity. Qed.

  Lemma shepof_dist_aligned q : shepof n asg a (q * ss) = asg q.
  Proof. rewrite shepof_dist. rewrite N.div_mul by exact ss_ne'. reflexivity. Qed.

  Lemma q_le_div q m : q * ss < m -> q <= m / ss.
  Proof. intros H. apply N.div_le_lower_bound; [exact ss_ne' | lia]. Qed.

  (* seek: first segment at or after q owned by s, below m *)
  Lemma seek_dist fuel s q m :
    q * ss < m ->
    match seek n asg fuel a s (q * ss) m with
    | Some c' => exists q', c' = q' * ss /\ q <= q' /\ q' * ss < m /\ asg q' = s /\
                            forall q'', q <= q'' < q' -> asg q'' <> s
    | None => (N.to_nat (m / ss + 1 - q) <= fuel)%nat ->
              forall q'', q <= q'' -> q'' * ss < m -> asg q'' <> s
    end.
  Proof.
    revert q. induction fuel as [|f IH]; intros q Hq; cbn [seek].
    - intros Hf. pose proof (q_le_div _ _ Hq). lia.
    - rewrite shepof_dist_aligned. fold ss.
      destruct (asg q =? s) eqn:E.
      + apply N.eqb_eq in E. exists q. repeat split; try lia.
      + apply N.eqb_neq in E.
        replace (q * ss + ss) with ((q + 1) * ss) by lia.
        destruct (m <=? (q + 1) * ss) eqn:E2.
        * apply N.leb_le in E2. intros _ q'' H1 H2.
          assert (q'' = q) by nia. subst. exact E.
        * apply N.leb_gt in E2. specialize (IH (q + 1) E2).
          destruct (seek n asg f a s ((q + 1) * ss) m) as [c'|].
          -- destruct IH as (q' & -> & Hle & Hlt & Hown & Hskip).
             exists q'. repeat split; try lia. intros q'' Hr.
             destruct (N.eq_dec q'' q) as [->|]; [exact E | apply Hskip; lia].
          -- intros Hf q'' H1 H2.
             destruct (N.eq_dec q'' q) as [->|]; [exact E|].
             apply IH; try lia.
  Qed.

  Lemma covers_chunks_dist fuel s c m i :
    c < m -> asg (c / ss) = s -> (N.to_nat (m / ss + 1 - c / ss) <= fuel)%nat ->
    covers (chunks n asg fuel a s c m) i =
    if (c <=? i) && (i <? m) && (asg (i / ss) =? s) then 1%nat else 0%nat.
  Proof.
    revert c. induction fuel as [|f IH]; intros c Hq Hown Hf.
    { assert (c / ss <= m / ss) by (apply N.div_le_mono; [exact ss_ne' | lia]). lia. }
    cbn [chunks]. rewrite K. fold ss. cbn [covers].
    pose proof (div_bounds' i) as [Hlo Hhi]. set (qi := i / ss) in *.
    pose proof (N.div_mod c ss ss_ne') as Hc. pose proof (N.mod_lt c ss ss_ne') as Hr.
    set (q := c / ss) in *. set (r := c mod ss) in *.
    assert (Hqm : q <= m / ss) by (apply N.div_le_mono; [exact ss_ne' | lia]).
    replace (c - r + ss) with ((q + 1) * ss) by lia.
    set (mo := if ss - r <? m - c then ss - r else m - c).
    assert (Hmo : c + mo = N.min ((q + 1) * ss) m).
    { unfold mo. destruct (ss - r <? m - c) eqn:E; lia. }
    assert (Hdv : forall x, (x * ss) / ss = x) by (intros x; apply N.div_mul; exact ss_ne').
    assert (Hrest :
      covers (if m <=? (q + 1) * ss then [] else
              match seek n asg f a s ((q + 1) * ss) m with
              | Some c' => if m <=? c' then [] else chunks n asg f a s c' m
              | None => []
              end) i =
      if ((q + 1) * ss <=? i) && (i <? m) && (asg qi =? s) then 1%nat else 0%nat).
    { destruct (m <=? (q + 1) * ss) eqn:E2.
      - apply N.leb_le in E2. cbn [covers].
        destruct ((q + 1) * ss <=? i) eqn:A; [|reflexivity].
        destruct (i <? m) eqn:B; [|reflexivity]. lia.
      - apply N.leb_gt in E2.
        pose proof (seek_dist f s (q + 1) m E2) as Hsk.
        destruct (seek n asg f a s ((q + 1) * ss) m) as [c'|].
        + destruct Hsk as (q' & -> & Hle & Hlt & Hown' & Hskip).
          replace (m <=? q' * ss) with false by lia.
          rewrite IH; [| exact Hlt | rewrite Hdv; exact Hown' | rewrite Hdv; lia].
          fold qi.
          destruct (i <? m) eqn:B; [|rewrite !andb_false_r; reflexivity]. apply N.ltb_lt in B.
          destruct (q' * ss <=? i) eqn:A1.
          * apply N.leb_le in A1. replace ((q + 1) * ss <=? i) with true by nia. reflexivity.
          * apply N.leb_gt in A1. cbn [andb].
            destruct ((q + 1) * ss <=? i) eqn:A2; [|reflexivity]. apply N.leb_le in A2. cbn [andb].
            assert (Hne : asg qi <> s) by (apply Hskip; nia).
            apply N.eqb_neq in Hne. rewrite Hne. reflexivity.
        + cbn [covers].
          destruct ((q + 1) * ss <=? i) eqn:A2; [|reflexivity]. apply N.leb_le in A2.
          destruct (i <? m) eqn:B; [|reflexivity]. apply N.ltb_lt in B. cbn [andb].
          assert (Hne : asg qi <> s) by (apply Hsk; [lia | nia | nia]).
          apply N.eqb_neq in Hne. rewrite Hne. reflexivity. }
    rewrite Hrest. clear Hrest IH.
    destruct (i <? m) eqn:B.
    2:{ apply N.ltb_ge in B. rewrite !andb_false_r. cbn [andb].
        replace (i <? c + mo) with false by lia. rewrite andb_false_r. reflexivity. }
    apply N.ltb_lt in B.
    destruct (c <=? i) eqn:A1.
    2:{ apply N.leb_gt in A1. cbn [andb]. replace ((q + 1) * ss <=? i) with false by nia. reflexivity. }
    apply N.leb_le in A1. cbn [andb].
    destruct (N.lt_ge_cases i ((q + 1) * ss)) as [C|C].
    - assert (Hqq : qi = q) by (apply (seg_unique ss i); split; lia).
      replace (i <? c + mo) with true by lia.
      replace ((q + 1) * ss <=? i) with false by lia. cbn [andb].
      rewrite Hqq, Hown, N.eqb_refl. reflexivity.
    - replace (i <? c + mo) with false by lia.
      replace ((q + 1) * ss <=? i) with true by lia. reflexivity.
  Qed.

  Lemma seek_start_dist s start m :
    start < m ->
    match seek_start n asg (fuel_of a m) a s start m with
    | Some c' => (c' = start /\ asg (start / ss) = s) \/
                 (exists q', c' = q' * ss /\ start / ss < q' /\ q' * ss < m /\ asg q' = s /\
                             forall q'', start / ss <= q'' < q' -> asg q'' <> s)
    | None => forall q'', start / ss <= q'' -> (q'' = start / ss \/ q'' * ss < m) -> asg q'' <> s
    end.
  Proof.
    intros Hsm. unfold seek_start. fold ss. rewrite shepof_dist.
    pose proof (N.div_mod start ss ss_ne') as Hd. pose proof (N.mod_lt start ss ss_ne') as Hr.
    set (q0 := start / ss) in *. set (r := start mod ss) in *.
    assert (Hfuel : forall q, (N.to_nat (m / ss + 1 - q) <= fuel_of a m)%nat).
    { intros q. unfold fuel_of, ss. set (x := m / d_segsize a). lia. }
    destruct ((0 <? start) && negb (asg q0 =? s)) eqn:E.
    - apply andb_prop in E. destruct E as [_ E]. apply negb_true_iff in E. apply N.eqb_neq in E.
      replace (start + (ss - r)) with ((q0 + 1) * ss) by lia.
      destruct (m <=? (q0 + 1) * ss) eqn:E2.
      + apply N.leb_le in E2. intros q'' H1 [->|H2]; [exact E|]. assert (Hqe : q'' = q0) by nia. rewrite Hqe. exact E.
      + apply N.leb_gt in E2. pose proof (seek_dist (fuel_of a m) s (q0 + 1) m E2) as Hsk.
        destruct (seek n asg (fuel_of a m) a s ((q0 + 1) * ss) m) as [c'|].
        * destruct Hsk as (q' & -> & Hle & Hlt & Hown & Hskip).
          right. exists q'. repeat split; try lia. intros q'' Hrq.
          destruct (N.eq_dec q'' q0) as [->|]; [exact E | apply Hskip; lia].
        * intros q'' H1 H2. destruct (N.eq_dec q'' q0) as [->|]; [exact E|].
          apply Hsk; [apply Hfuel | lia | destruct H2; [congruence | assumption]].
    - apply andb_false_iff in E. destruct E as [E|E].
      + (* start = 0: aligned *)
        apply N.ltb_ge in E. assert (Hs0 : start = 0) by lia.
        assert (Hq00 : q0 = 0) by (unfold q0; rewrite Hs0; apply N.div_0_l; exact ss_ne').
        replace start with (0 * ss) by lia.
        assert (H0m : 0 * ss < m) by lia.
        pose proof (seek_dist (fuel_of a m) s 0 m H0m) as Hsk.
        destruct (seek n asg (fuel_of a m) a s (0 * ss) m) as [c'|].
        * destruct Hsk as (q' & -> & Hle & Hlt & Hown & Hskip).
          destruct (N.eq_dec q' 0) as [->|Hne].
          -- left. split; [lia | rewrite Hq00; exact Hown].
          -- right. exists q'. rewrite Hq00. repeat split; try lia. intros q'' Hrq. apply Hskip. lia.
        * intros q'' H1 H2. apply Hsk; [apply Hfuel | lia |].
          destruct H2 as [->|H2]; [rewrite Hq00; lia | exact H2].
      + apply negb_false_iff in E. apply N.eqb_eq in E.
        unfold fuel_of. cbn [seek]. rewrite shepof_dist. fold ss q0. rewrite E, N.eqb_refl.
        left. split; [reflexivity | first [reflexivity | exact E]].
  Qed.

  Lemma strider_dist_covers s start stop i :
    start < stop ->
    covers (strider n asg a s start stop) i =
    if (start <=? i) && (i <? stop) && (asg (i / ss) =? s) then 1%nat else 0%nat.
  Proof.
    intros Hne. unfold strider. rewrite K. fold ss.
    pose proof (seek_start_dist s start stop Hne) as Hsk.
    pose proof (div_bounds' i) as [Hlo Hhi]. set (qi := i / ss) in *.
    pose proof (div_bounds' start) as [Hslo Hshi]. set (q0 := start / ss) in *.
    assert (Hfuel : forall q, (N.to_nat (stop / ss + 1 - q) <= fuel_of a stop)%nat).
    { intros q. unfold fuel_of, ss. set (x := stop / d_segsize a). lia. }
    destruct (seek_start n asg (fuel_of a stop) a s start stop) as [c'|].
    - destruct Hsk as [[-> Hown]|(q' & -> & Hle & Hlt & Hown & Hskip)].
      + rewrite covers_chunks_dist; [reflexivity | exact Hne | exact Hown | apply Hfuel].
      + rewrite covers_chunks_dist; [| exact Hlt | rewrite N.div_mul by exact ss_ne'; exact Hown
                                      | rewrite N.div_mul by exact ss_ne'; apply Hfuel].
        fold qi.
        destruct (i <? stop) eqn:B; [|rewrite !andb_false_r; reflexivity]. apply N.ltb_lt in B.
        destruct (q' * ss <=? i) eqn:A1.
        * apply N.leb_le in A1. replace (start <=? i) with true by nia. reflexivity.
        * apply N.leb_gt in A1. cbn [andb].
          destruct (start <=? i) eqn:A2; [|reflexivity]. apply N.leb_le in A2. cbn [andb].
          assert (Hx : asg qi <> s) by (apply Hskip; nia).
          apply N.eqb_neq in Hx. rewrite Hx. reflexivity.
    - cbn [covers].
      destruct (start <=? i) eqn:A2; [|reflexivity]. apply N.leb_le in A2.
      destruct (i <? stop) eqn:B; [|reflexivity]. apply N.ltb_lt in B. cbn [andb].
      assert (Hx : asg qi <> s).
      { apply Hsk; [nia|]. destruct (N.eq_dec qi q0); [left; assumption | right; nia]. }
      apply N.eqb_neq in Hx. rewrite Hx. reflexivity.
  Qed.

  Lemma loop_strider_dist s start stop : loop_strider n asg a s start stop = strider n asg a s start stop.
  Proof. unfold loop_strider, strider. rewrite K. reflexivity. Qed.

  Theorem iter_exact_dist start stop :
    start < stop ->
    iter_exact n asg a start stop (iter n asg a start stop) /\
    iter_exact n asg a start stop (iter_loop n asg a start stop).
  Proof.
    intros Hlt.
    assert (Hil : iter_loop n asg a start stop = iter n asg a start stop).
    { unfold iter_loop, iter. apply map_ext. intros s. rewrite loop_strider_dist. reflexivity. }
    rewrite Hil. assert (G : iter_exact n asg a start stop (iter n asg a start stop)); [|split; exact G].
    unfold iter, spawned. rewrite K. fold ss.
    pose proof (div_bounds' start) as [Hslo Hshi]. set (q0 := start / ss) in *.
    destruct (q0 =? (stop - 1) / ss) eqn:Esmall.
    - apply N.eqb_eq in Esmall.
      pose proof (div_bounds' (stop - 1)) as [Hplo Hphi]. rewrite <- Esmall in Hplo, Hphi.
      assert (Hsh : shepof n asg a start = asg q0) by (rewrite shepof_dist; reflexivity).
      rewrite Hsh.
      intros i. cbn [map total_covers fold_right snd]. rewrite strider_dist_covers by exact Hlt.
      pose proof (div_bounds' i) as [Hlo Hhi].
      split.
      + intros Hin. assert (H : i / ss = q0) by nia.
        replace (start <=? i) with true by lia. replace (i <? stop) with true by lia. cbn [andb].
        rewrite H, N.eqb_refl. split; [reflexivity|].
        intros s l [Heq|[]] _. inversion Heq; subst s l. rewrite shepof_dist, H. reflexivity.
      + intros Hout. replace ((start <=? i) && (i <? stop)) with false by lia. reflexivity.
    - intros i. split.
      + intros Hin.
        rewrite (sum_indicator_all n asg a Hn Hss (fun s => strider n asg a s start stop) i (asg (i / ss))).
        * pose proof (Hasg (i / ss)) as Hown. apply N.ltb_lt in Hown. rewrite Hown.
          split; [reflexivity|].
          intros s l Hinl Hpos. apply in_map_iff in Hinl. destruct Hinl as (s' & Heq & Hs').
          inversion Heq; subst s l.
          rewrite strider_dist_covers in Hpos by exact Hlt.
          rewrite shepof_dist. destruct (asg (i / ss) =? s') eqn:E; [apply N.eqb_eq in E; exact E|].
          rewrite andb_false_r in Hpos. inversion Hpos.
        * intros s Hs. rewrite strider_dist_covers by exact Hlt.
          replace (start <=? i) with true by lia. replace (i <? stop) with true by lia. cbn [andb].
          rewrite N.eqb_sym. reflexivity.
      + intros Hout.
        rewrite (sum_indicator_all n asg a Hn Hss (fun s => strider n asg a s start stop) i n).
        * rewrite N.ltb_irrefl. reflexivity.
        * intros s Hs. rewrite strider_dist_covers by exact Hlt.
          replace ((start <=? i) && (i <? stop)) with false by lia. cbn [andb].
          replace (s =? n) with false by lia. reflexivity.
  Qed.
End Dist.
