(* Executable model of the MUTATING / remaining public entry points of src/ds/qarray.c (C17, extension L):
   qarray_set_shepof, qarray_dist_like, qarray_destroy's bookkeeping, the creation-time assignment loop with the
   per-shepherd chunk_distribution_tracker (DIST_LEAST / ALL_LEAST read it), qarray_elem_migrate and an op-level
   model of qarray_iter_loop_nb.  Mirrors the code branch by branch as built with QTHREAD_NO_ASSERTS (config.h):
   qassert_ret / qassert_retvoid RETURN when the assertion fails, assert() is empty.
   Definitions only; the descriptor / shepof / striders are those of Qarray/Model.v. *)
From Coq Require Import List NArith ZArith Bool.
From QV Require Import Qarray.Model.
Import ListNotations.
Local Open Scope N_scope.

(* ---------- state ---------- *)
(* one live array: the descriptor and, for DIST kinds, the shepherd id stored in each segment (a_own, one entry per
   segment, in segment order; [] for the other kinds whose owners are computed from the descriptor) *)
Record arr := mkarr { a_desc : desc; a_own : list N }.

(* the global tracker: chunk_distribution_tracker[0..nsheps-1] (aligned_t; kept in Z: the theorems show it never
   goes below zero, so the unsigned wrap of the C type is never reached) *)
Record world := mkworld { w_tr : list Z; w_arrs : list (N * arr) }.

Definition nsegs (a : desc) : N := seg_count (d_count a) (d_segsize a).
Definition asg_of (own : list N) (seg : N) : N := nth (N.to_nat seg) own 0.

Fixpoint upd {A : Type} (l : list A) (k : nat) (v : A) : list A :=
  match l, k with
  | [], _ => []
  | _ :: r, O => v :: r
  | x :: r, S k' => x :: upd r k' v
  end.

Definition tget (t : list Z) (s : N) : Z := nth (N.to_nat s) t 0%Z.
Definition tr_add (t : list Z) (s : N) (d : Z) : list Z := upd t (N.to_nat s) (tget t s + d)%Z.

(* "least = 0; for (i = 1; i < nsheps; i++) if (tracker[i] < tracker[least]) least = i;" *)
Fixpoint argmin_from (t : list Z) (cands : list N) (least : N) : N :=
  match cands with
  | [] => least
  | i :: r => argmin_from t r (if (tget t i <? tget t least)%Z then i else least)
  end.
Definition nseq (n : N) : list N := map N.of_nat (seq 0 (N.to_nat n)).
Definition argmin (nsheps : N) (t : list Z) : N := argmin_from t (tl (nseq nsheps)) 0.

(* owner of a segment as qarray_shepof / qarray_internal_shepof_segidx compute it *)
Definition owner_seg (nsheps : N) (x : arr) (seg : N) : N := shepof_seg nsheps (asg_of (a_own x)) (a_desc x) seg.
Definition owners (nsheps : N) (x : arr) : list N := map (owner_seg nsheps x) (nseq (nsegs (a_desc x))).

Definition set_dshep (a : desc) (s : N) : desc :=
  mkdesc (d_count a) (d_unit a) (d_segbytes a) (d_segsize a) (d_kind a) (d_sps a) (d_extras a) s.

(* ---------- qarray_create_internal: dist_specific + "Assign locations" loop ---------- *)
(* target_shep of one segment; [rnd] = what random() % nsheps returned for this segment (an oracle input) *)
Definition target (nsheps : N) (d : distribution) (a : desc) (sc : N) (rnd : N -> N) (t : list Z) (seg : N) : N :=
  match d with
  | dFIXED_HASH => seg mod nsheps
  | dFIXED_FIELDS => shepof_seg nsheps (fun _ => 0) a seg
  | dDIST | dDIST_RAND => rnd seg
  | dDIST_FIELDS | dDIST_STRIPES => assign_of d sc nsheps seg
  | dDIST_LEAST => argmin nsheps t
  | dALL_SAME | dALL_LOCAL | dALL_RAND | dALL_LEAST => d_shep a
  end.

Fixpoint assign_loop (nsheps : N) (d : distribution) (a : desc) (sc : N) (rnd : N -> N)
         (segs : list N) (t : list Z) : list N * list Z :=
  match segs with
  | [] => ([], t)
  | s :: r =>
      let tgt := target nsheps d a sc rnd t s in
      let '(o, t') := assign_loop nsheps d a sc rnd r (tr_add t tgt 1) in
      (tgt :: o, t')
  end.

(* [oshep]: qthread_shep() of the caller (ALL_SAME, ALL_LOCAL) or random() % nsheps (ALL_RAND); ALL_LEAST computes *)
Definition pick_shep (nsheps : N) (d : distribution) (t : list Z) (oshep : N) : N :=
  match d with dALL_LEAST => argmin nsheps t | _ => oshep end.

Definition create_arr (nsheps pagesize : N) (t : list Z) (count obj : N) (d : distribution) (tight : bool)
           (segpages oshep : N) (rnd : N -> N) : list Z * arr :=
  let pick := pick_shep nsheps d t oshep in
  let a := create count obj d tight segpages pagesize nsheps pick in
  let sc := nsegs a in
  (* the ALL_* kinds add segment_count in the dist_specific switch ... *)
  let t1 := if is_all d then tr_add t pick (Z.of_N sc) else t in
  (* ... and every kind adds 1 per segment in the assignment loop *)
  let '(own, t2) := assign_loop nsheps d a sc rnd (nseq sc) t1 in
  (t2, mkarr a (match d_kind a with DIST => own | _ => [] end)).

(* ---------- qarray_set_shepof ---------- *)
(* None = the code reads/writes outside the array or outside the tracker (undefined behaviour): i = count on a
   segment boundary addresses a segment past the allocation; shep >= nsheps indexes past the tracker *)
Definition set_shepof_arr (nsheps : N) (t : list Z) (x : arr) (i shep : N) : option (list Z * arr) :=
  let a := a_desc x in
  if d_count a <? i then Some (t, x) else            (* "if (a == NULL || i > a->count) return" *)
  match d_kind a with
  | FIXED_FIELDS | FIXED_HASH => Some (t, x)         (* silently ignored *)
  | ALL_SAME =>
      if d_shep a =? shep then Some (t, x) else
      if nsheps <=? shep then None else
      let sc := Z.of_N (nsegs a) in
      Some (tr_add (tr_add t shep sc) (d_shep a) (- sc)%Z, mkarr (set_dshep a shep) (a_own x))
  | DIST =>
      let seg := i / d_segsize a in
      if nsegs a <=? seg then None else
      let cur := asg_of (a_own x) seg in
      if cur =? shep then Some (t, x) else
      if nsheps <=? shep then None else
      Some (tr_add (tr_add t shep 1) cur (-1)%Z, mkarr a (upd (a_own x) (N.to_nat seg) shep))
  end.

(* "for (i = 0; i < mod->count; i += mod->segment_size) qarray_set_shepof(mod, i, f(i));" *)
Fixpoint set_loop (nsheps : N) (f : N -> N) (idxs : list N) (t : list Z) (x : arr) : option (list Z * arr) :=
  match idxs with
  | [] => Some (t, x)
  | i :: r => match set_shepof_arr nsheps t x i (f i) with
              | None => None
              | Some (t', x') => set_loop nsheps f r t' x'
              end
  end.

Definition seg_starts (a : desc) : list N := map (fun s => s * d_segsize a) (nseq (nsegs a)).

Definition is_fixed (k : dkind) : bool := match k with FIXED_HASH | FIXED_FIELDS => true | _ => false end.
Definition kind_eqb (k1 k2 : dkind) : bool :=
  match k1, k2 with
  | FIXED_HASH, FIXED_HASH | FIXED_FIELDS, FIXED_FIELDS | ALL_SAME, ALL_SAME | DIST, DIST => true
  | _, _ => false
  end.

(* ---------- qarray_dist_like(ref, mod) ---------- *)
Definition dist_like_arr (nsheps : N) (t : list Z) (r m : arr) : option (list Z * arr) :=
  let ra := a_desc r in let ma := a_desc m in
  if negb (d_count ra =? d_count ma) then Some (t, m) else
  if negb (d_unit ra =? d_unit ma) then Some (t, m) else
  if kind_eqb (d_kind ra) DIST && kind_eqb (d_kind ma) ALL_SAME then Some (t, m) else
  match d_kind ra with
  | ALL_SAME =>
      let shep := shepof nsheps (asg_of (a_own r)) ra 0 in
      match d_kind ma with
      | FIXED_HASH | FIXED_FIELDS => Some (t, m)
      | ALL_SAME => set_shepof_arr nsheps t m 0 shep
      | DIST => set_loop nsheps (fun _ => shep) (seg_starts ma) t m
      end
  | DIST =>
      if negb (d_segsize ra =? d_segsize ma) then Some (t, m) else
      if negb (d_segbytes ra =? d_segbytes ma) then Some (t, m) else
      match d_kind ma with
      | FIXED_HASH | FIXED_FIELDS => Some (t, m)
      | DIST => set_loop nsheps (fun i => shepof nsheps (asg_of (a_own r)) ra i) (seg_starts ma) t m
      | ALL_SAME => Some (t, m)      (* unreachable: excluded above *)
      end
  | FIXED_HASH | FIXED_FIELDS => Some (t, m)
  end.

(* ---------- qarray_destroy: tracker bookkeeping ---------- *)
Fixpoint dec_loop (nsheps : N) (x : arr) (segs : list N) (t : list Z) : list Z :=
  match segs with
  | [] => t
  | s :: r => dec_loop nsheps x r (tr_add t (owner_seg nsheps x s) (-1)%Z)
  end.
Definition destroy_tr (nsheps : N) (t : list Z) (x : arr) : list Z :=
  match d_kind (a_desc x) with
  | ALL_SAME => tr_add t (d_shep (a_desc x)) (- Z.of_N (nsegs (a_desc x)))%Z
  | _ => dec_loop nsheps x (nseq (nsegs (a_desc x))) t
  end.

(* ---------- the world: several live arrays, one tracker ---------- *)
Fixpoint find_arr (id : N) (l : list (N * arr)) : option arr :=
  match l with
  | [] => None
  | (k, x) :: r => if k =? id then Some x else find_arr id r
  end.
Fixpoint put_arr (id : N) (x : arr) (l : list (N * arr)) : list (N * arr) :=
  match l with
  | [] => []
  | (k, y) :: r => if k =? id then (k, x) :: r else (k, y) :: put_arr id x r
  end.
Fixpoint del_arr (id : N) (l : list (N * arr)) : list (N * arr) :=
  match l with
  | [] => []
  | (k, y) :: r => if k =? id then r else (k, y) :: del_arr id r
  end.

Inductive op :=
| OCreate (id count obj : N) (d : distribution) (tight : bool) (segpages oshep : N) (rnd : list N)
| OSet (id i shep : N)
| OLike (ref md : N)
| ODestroy (id : N).

(* None: the script is outside the code's defined behaviour (see set_shepof_arr) or names a dead array *)
Definition step (nsheps pagesize : N) (w : world) (o : op) : option world :=
  match o with
  | OCreate id count obj d tight segpages oshep rnd =>
      if (count =? 0) || (obj =? 0) then Some w else      (* qassert_ret: NULL *)
      let '(t, x) := create_arr nsheps pagesize (w_tr w) count obj d tight segpages oshep (asg_of rnd) in
      Some (mkworld t ((id, x) :: w_arrs w))
  | OSet id i shep =>
      match find_arr id (w_arrs w) with
      | None => None
      | Some x => match set_shepof_arr nsheps (w_tr w) x i shep with
                  | None => None
                  | Some (t, x') => Some (mkworld t (put_arr id x' (w_arrs w)))
                  end
      end
  | OLike r m =>
      match find_arr r (w_arrs w), find_arr m (w_arrs w) with
      | Some xr, Some xm => match dist_like_arr nsheps (w_tr w) xr xm with
                            | None => None
                            | Some (t, x') => Some (mkworld t (put_arr m x' (w_arrs w)))
                            end
      | _, _ => None
      end
  | ODestroy id =>
      match find_arr id (w_arrs w) with
      | None => None
      | Some x => Some (mkworld (destroy_tr nsheps (w_tr w) x) (del_arr id (w_arrs w)))
      end
  end.

Fixpoint run (nsheps pagesize : N) (w : world) (ops : list op) : option world :=
  match ops with
  | [] => Some w
  | o :: r => match step nsheps pagesize w o with None => None | Some w' => run nsheps pagesize w' r end
  end.

Definition world0 (nsheps : N) : world := mkworld (map (fun _ => 0%Z) (nseq nsheps)) [].

(* array-level sequences: set_shepof / dist_like applied to ONE array (the reference arrays are arbitrary) *)
Inductive aop := ASet (i shep : N) | ALike (ref : arr).
Definition astep (nsheps : N) (tx : list Z * arr) (o : aop) : option (list Z * arr) :=
  match o with
  | ASet i shep => set_shepof_arr nsheps (fst tx) (snd tx) i shep
  | ALike r => dist_like_arr nsheps (fst tx) r (snd tx)
  end.
Fixpoint arun (nsheps : N) (tx : list Z * arr) (ops : list aop) : option (list Z * arr) :=
  match ops with
  | [] => Some tx
  | o :: r => match astep nsheps tx o with None => None | Some tx' => arun nsheps tx' r end
  end.

(* ---------- qarray_elem_migrate ---------- *)
(* what the code does: (byte offset returned, shepherd the caller is migrated to); EM_null = returns NULL and the
   caller stays where it is.  The first qassert_ret is "index >= a->count", so every VALID index returns NULL; an
   index >= count goes on with segment_head = base + (segment_num + segment_bytes) *)
Inductive em_result := EM_null | EM_at (off dest : N) | EM_undefined.
Definition elem_migrate_code (nsheps : N) (x : arr) (i : N) : em_result :=
  let a := a_desc x in
  if i <? d_count a then EM_null else
  let seg := i / d_segsize a in
  let head := seg + d_segbytes a in
  let off := head + (i - seg * d_segsize a) * d_unit a in
  match d_kind a with
  | ALL_SAME => EM_at off (d_shep a)
  | FIXED_HASH => EM_at off ((head / d_segbytes a) mod nsheps)
  | FIXED_FIELDS => EM_at off (shepof_seg nsheps (fun _ => 0) a (head / d_segbytes a))
  | DIST => EM_undefined       (* reads a shepherd id from an address that is not a segment head *)
  end.
(* what the header promises: the element's address, caller on the owner *)
Definition elem_migrate_spec (nsheps : N) (x : arr) (i : N) : em_result :=
  let a := a_desc x in
  if i <? d_count a then EM_at (elem_off a i) (shepof nsheps (asg_of (a_own x)) a i) else EM_null.

(* ---------- qarray_iter_loop_nb, op level ---------- *)
(* The call forks qarray_ilnb_wrapper with the caller's return word (the fork empties the word); the wrapper runs
   qarray_iter_loop (spawn k striders, wait until donecount = k) and returns, which fills the word.
   Threads: 0 = the wrapper, j+1 = strider j.  A strider performs its invocations one after the other (begin / end
   are separate steps), then increments donecount. *)
Record strider_st := mkst { s_left : nat; s_active : bool; s_done : bool }.
Inductive wpc := W_spawn | W_wait | W_ret | W_end.
Record nb_state := mknb { nb_pc : wpc; nb_str : list strider_st; nb_plan : list nat;
                          nb_donecount : nat; nb_fills : nat; nb_full : bool }.

Definition nb_init (plan : list nat) : nb_state := mknb W_spawn [] plan 0 0 false.

Definition strider_step (s : strider_st) : option (strider_st * bool) :=   (* bool: donecount++ *)
  if s_done s then None else
  if s_active s then Some (mkst (s_left s) false false, false) else
  match s_left s with
  | S n => Some (mkst n true false, false)
  | O => Some (mkst O false true, true)
  end.

Definition nb_step (st : nb_state) (tid : nat) : option nb_state :=
  match tid with
  | O =>
      match nb_pc st with
      | W_spawn => Some (mknb W_wait (map (fun n => mkst n false false) (nb_plan st)) (nb_plan st)
                              (nb_donecount st) (nb_fills st) (nb_full st))
      | W_wait => if Nat.eqb (nb_donecount st) (length (nb_str st))
                  then Some (mknb W_ret (nb_str st) (nb_plan st) (nb_donecount st) (nb_fills st) (nb_full st))
                  else None                 (* "while (donecount < n) qthread_yield()": not enabled *)
      | W_ret => Some (mknb W_end (nb_str st) (nb_plan st) (nb_donecount st) (S (nb_fills st)) true)
      | W_end => None
      end
  | S j =>
      match nth_error (nb_str st) j with
      | None => None
      | Some s => match strider_step s with
                  | None => None
                  | Some (s', inc) =>
                      Some (mknb (nb_pc st) (upd (nb_str st) j s') (nb_plan st)
                                 (if inc then S (nb_donecount st) else nb_donecount st) (nb_fills st) (nb_full st))
                  end
      end
  end.

(* a schedule is any list of thread ids; a step that is not enabled is skipped (the thread was not runnable) *)
Fixpoint nb_run (st : nb_state) (sched : list nat) : nb_state :=
  match sched with
  | [] => st
  | t :: r => nb_run (match nb_step st t with Some st' => st' | None => st end) r
  end.

Definition nb_all_returned (st : nb_state) : bool :=
  forallb (fun s => Nat.eqb (s_left s) 0 && negb (s_active s) && s_done s) (nb_str st) &&
  Nat.eqb (length (nb_str st)) (length (nb_plan st)).
