(* C17 extension L: proofs about the mutating entry points (Qarray/ModelMut.v), part 1:
   list/tracker basics, the layout never changes, shepof follows the updates, dist_like copies owners,
   iteration is exact for the updated owner table. *)
From Coq Require Import List NArith ZArith Bool Arith Lia FinFun.
From QV Require Import Qarray.Model Qarray.ModelMut Qarray.Proofs Qarray.ProofsHash Qarray.ProofsDist
     Qarray.ProofsFields Qarray.ProofsAll.
Import ListNotations.
Local Open Scope N_scope.

(* ---------- lists ---------- *)
Lemma upd_length {A} (l : list A) k v : length (upd l k v) = length l.
Proof. revert k; induction l as [|x r IH]; intros [|k]; cbn; auto. Qed.

Lemma nth_upd {A} (l : list A) k v j d :
  nth j (upd l k v) d = if Nat.eqb j k then (if Nat.ltb k (length l) then v else nth j l d) else nth j l d.
Proof.
  revert k j; induction l as [|x r IH]; intros k j.
  - cbn. destruct k; destruct (Nat.eqb j _); destruct j; reflexivity.
  - destruct k as [|k]; destruct j as [|j]; cbn [upd nth length Nat.eqb]; try reflexivity.
    rewrite IH. change (Nat.ltb (S k) (S (length r))) with (Nat.ltb k (length r)). reflexivity.
Qed.

Lemma to_nat_eqb (a b : N) : Nat.eqb (N.to_nat a) (N.to_nat b) = (a =? b).
Proof.
  destruct (N.eqb_spec a b) as [->|H]; [apply Nat.eqb_refl|].
  apply Nat.eqb_neq. intros E. apply H. apply N2Nat.inj. exact E.
Qed.

Lemma asg_upd own seg v q :
  (N.to_nat seg < length own)%nat ->
  asg_of (upd own (N.to_nat seg) v) q = if q =? seg then v else asg_of own q.
Proof.
  intros H. unfold asg_of. rewrite nth_upd, to_nat_eqb.
  destruct (q =? seg); [|reflexivity].
  apply Nat.ltb_lt in H. rewrite H. reflexivity.
Qed.

(* reading the tracker after an increment: for every slot q INSIDE the tracker *)
Lemma tget_tr_add t s d q :
  (N.to_nat q < length t)%nat ->
  tget (tr_add t s d) q = if q =? s then (tget t s + d)%Z else tget t q.
Proof.
  intros H. unfold tr_add, tget at 1. rewrite nth_upd, to_nat_eqb.
  destruct (N.eqb_spec q s) as [->|Hn]; [|reflexivity].
  apply Nat.ltb_lt in H. rewrite H. reflexivity.
Qed.

Lemma tr_add_length t s d : length (tr_add t s d) = length t.
Proof. apply upd_length. Qed.

Lemma nseq_length n : length (nseq n) = N.to_nat n.
Proof. unfold nseq. rewrite map_length, seq_length. reflexivity. Qed.

Lemma in_nseq q n : In q (nseq n) <-> q < n.
Proof.
  unfold nseq. rewrite in_map_iff. split.
  - intros [k [<- Hk]]. apply in_seq in Hk. lia.
  - intros H. exists (N.to_nat q). split; [apply N2Nat.id|]. apply in_seq. lia.
Qed.

Lemma nseq_nodup n : NoDup (nseq n).
Proof.
  unfold nseq. apply Injective_map_NoDup; [|apply seq_NoDup].
  intros a b E. apply Nat2N.inj. exact E.
Qed.

(* ---------- the layout never changes ---------- *)
Definition same_layout (a b : desc) : Prop :=
  d_count a = d_count b /\ d_unit a = d_unit b /\ d_segbytes a = d_segbytes b /\ d_segsize a = d_segsize b /\
  d_kind a = d_kind b /\ d_sps a = d_sps b /\ d_extras a = d_extras b.

Lemma same_layout_refl a : same_layout a a.
Proof. repeat split. Qed.
Lemma same_layout_trans a b c : same_layout a b -> same_layout b c -> same_layout a c.
Proof. unfold same_layout. intuition congruence. Qed.
Lemma same_layout_set a s : same_layout a (set_dshep a s).
Proof. repeat split. Qed.

Lemma same_layout_elem a b i : same_layout a b -> elem_off a i = elem_off b i.
Proof. intros (H1 & H2 & H3 & H4 & _). unfold elem_off. rewrite H2, H3, H4. reflexivity. Qed.
Lemma same_layout_nsegs a b : same_layout a b -> nsegs a = nsegs b.
Proof. intros (H1 & H2 & H3 & H4 & _). unfold nsegs. rewrite H1, H4. reflexivity. Qed.
Lemma same_layout_slot a b : same_layout a b -> shep_slot a = shep_slot b.
Proof. intros (H1 & H2 & H3 & H4 & _). unfold shep_slot. rewrite H2, H4. reflexivity. Qed.

Lemma set_shepof_layout nsheps t x i shep t' x' :
  set_shepof_arr nsheps t x i shep = Some (t', x') -> same_layout (a_desc x) (a_desc x').
Proof.
  unfold set_shepof_arr. intros H.
  destruct (d_count (a_desc x) <? i); [inversion H; subst; apply same_layout_refl|].
  destruct (d_kind (a_desc x)) eqn:K.
  - inversion H; subst; apply same_layout_refl.
  - inversion H; subst; apply same_layout_refl.
  - destruct (d_shep (a_desc x) =? shep); [inversion H; subst; apply same_layout_refl|].
    destruct (nsheps <=? shep); [discriminate|]. inversion H; subst. cbn [a_desc]. apply same_layout_set.
  - destruct (nsegs (a_desc x) <=? i / d_segsize (a_desc x)); [discriminate|].
    destruct (asg_of (a_own x) (i / d_segsize (a_desc x)) =? shep); [inversion H; subst; apply same_layout_refl|].
    destruct (nsheps <=? shep); [discriminate|]. inversion H; subst. apply same_layout_refl.
Qed.

Lemma set_loop_layout nsheps f idxs : forall t x t' x',
  set_loop nsheps f idxs t x = Some (t', x') -> same_layout (a_desc x) (a_desc x').
Proof.
  induction idxs as [|i r IH]; intros t x t' x' H; cbn [set_loop] in H.
  - inversion H; subst. apply same_layout_refl.
  - destruct (set_shepof_arr nsheps t x i (f i)) as [[t1 x1]|] eqn:E; [|discriminate].
    eapply same_layout_trans; [eapply set_shepof_layout; exact E | eapply IH; exact H].
Qed.

Lemma dist_like_layout nsheps t r m t' m' :
  dist_like_arr nsheps t r m = Some (t', m') -> same_layout (a_desc m) (a_desc m').
Proof.
  unfold dist_like_arr. intros H.
  repeat match type of H with
         | (if ?c then _ else _) = _ => destruct c
         | (match ?k with FIXED_HASH => _ | _ => _ end) = _ => destruct k
         end;
    try (inversion H; subst; apply same_layout_refl);
    try (eapply set_shepof_layout; exact H);
    try (eapply set_loop_layout; exact H).
Qed.

Lemma astep_layout nsheps tx o tx' :
  astep nsheps tx o = Some tx' -> same_layout (a_desc (snd tx)) (a_desc (snd tx')).
Proof.
  destruct tx as [t x], tx' as [t' x'], o as [i shep|r]; cbn [astep fst snd]; intros H.
  - eapply set_shepof_layout; exact H.
  - eapply dist_like_layout; exact H.
Qed.

Theorem arun_layout nsheps ops : forall tx tx',
  arun nsheps tx ops = Some tx' -> same_layout (a_desc (snd tx)) (a_desc (snd tx')).
Proof.
  induction ops as [|o r IH]; intros tx tx' H; cbn [arun] in H.
  - inversion H; subst. apply same_layout_refl.
  - destruct (astep nsheps tx o) as [tx1|] eqn:E; [|discriminate].
    eapply same_layout_trans; [eapply astep_layout; exact E | eapply IH; exact H].
Qed.

(* ---------- well-formed owner table ---------- *)
(* DIST arrays keep one valid shepherd id per segment; ALL_SAME arrays a valid dist_shep *)
Definition arr_ok (nsheps : N) (x : arr) : Prop :=
  (d_kind (a_desc x) = DIST -> length (a_own x) = N.to_nat (nsegs (a_desc x)) /\ Forall (fun s => s < nsheps) (a_own x)) /\
  (d_kind (a_desc x) = ALL_SAME -> d_shep (a_desc x) < nsheps).

Lemma Forall_upd {A} (P : A -> Prop) l k v : Forall P l -> P v -> Forall P (upd l k v).
Proof.
  intros H Hv. revert k; induction H as [|x r Hx Hr IH]; intros [|k]; cbn; constructor; auto.
Qed.

Lemma set_shepof_ok nsheps t x i shep t' x' :
  arr_ok nsheps x -> set_shepof_arr nsheps t x i shep = Some (t', x') -> arr_ok nsheps x'.
Proof.
  unfold set_shepof_arr. intros Hok H.
  destruct (d_count (a_desc x) <? i); [inversion H; subst; exact Hok|].
  destruct (d_kind (a_desc x)) eqn:K in H.
  - inversion H; subst; exact Hok.
  - inversion H; subst; exact Hok.
  - destruct (d_shep (a_desc x) =? shep); [inversion H; subst; exact Hok|].
    destruct (nsheps <=? shep) eqn:E; [discriminate|]. apply N.leb_gt in E.
    inversion H; subst. split; cbn [a_desc a_own set_dshep d_kind d_shep]; intros K'; [congruence | exact E].
  - destruct (nsegs (a_desc x) <=? i / d_segsize (a_desc x)); [discriminate|].
    destruct (asg_of (a_own x) (i / d_segsize (a_desc x)) =? shep); [inversion H; subst; exact Hok|].
    destruct (nsheps <=? shep) eqn:E; [discriminate|]. apply N.leb_gt in E.
    destruct Hok as [Hd Ha].
    inversion H; subst. split; cbn [a_desc a_own]; intros K'; [|congruence].
    destruct (Hd K') as [Hl Hf]. split; [rewrite upd_length; exact Hl | apply Forall_upd; assumption].
Qed.

Lemma set_loop_ok nsheps f idxs : forall t x t' x',
  arr_ok nsheps x -> set_loop nsheps f idxs t x = Some (t', x') -> arr_ok nsheps x'.
Proof.
  induction idxs as [|i r IH]; intros t x t' x' Hok H; cbn [set_loop] in H.
  - inversion H; subst. exact Hok.
  - destruct (set_shepof_arr nsheps t x i (f i)) as [[t1 x1]|] eqn:E; [|discriminate].
    eapply IH; [eapply set_shepof_ok; [exact Hok | exact E] | exact H].
Qed.

Lemma dist_like_ok nsheps t r m t' m' :
  arr_ok nsheps m -> dist_like_arr nsheps t r m = Some (t', m') -> arr_ok nsheps m'.
Proof.
  unfold dist_like_arr. intros Hok H.
  repeat match type of H with
         | (if ?c then _ else _) = _ => destruct c
         | (match ?k with FIXED_HASH => _ | _ => _ end) = _ => destruct k
         end;
    try (inversion H; subst; exact Hok);
    try (eapply set_shepof_ok; [exact Hok | exact H]);
    try (eapply set_loop_ok; [exact Hok | exact H]).
Qed.

Theorem arun_ok nsheps ops : forall tx tx',
  arr_ok nsheps (snd tx) -> arun nsheps tx ops = Some tx' -> arr_ok nsheps (snd tx').
Proof.
  induction ops as [|o r IH]; intros tx tx' Hok H; cbn [arun] in H.
  - inversion H; subst. exact Hok.
  - destruct (astep nsheps tx o) as [tx1|] eqn:E; [|discriminate].
    eapply IH; [|exact H].
    destruct tx as [t x], tx1 as [t1 x1], o as [i shep|rf]; cbn [astep fst snd] in *.
    + eapply set_shepof_ok; [exact Hok | exact E].
    + eapply dist_like_ok; [exact Hok | exact E].
Qed.

(* ---------- shepof follows the updates ---------- *)
Lemma shepof_is_owner nsheps x i :
  shepof nsheps (asg_of (a_own x)) (a_desc x) i = owner_seg nsheps x (i / d_segsize (a_desc x)).
Proof. unfold shepof, owner_seg, shepof_seg. destruct (d_kind (a_desc x)); reflexivity. Qed.

(* what ONE qarray_set_shepof(a, i, shep) does to the owner of segment q *)
Definition set_spec (k : dkind) (ss count i shep q old : N) : N :=
  if count <? i then old else
  match k with
  | ALL_SAME => shep
  | DIST => if q =? i / ss then shep else old
  | _ => old
  end.

Lemma set_shepof_owner nsheps t x i shep t' x' q :
  (d_kind (a_desc x) = DIST -> length (a_own x) = N.to_nat (nsegs (a_desc x))) ->
  set_shepof_arr nsheps t x i shep = Some (t', x') ->
  owner_seg nsheps x' q =
  set_spec (d_kind (a_desc x)) (d_segsize (a_desc x)) (d_count (a_desc x)) i shep q (owner_seg nsheps x q).
Proof.
  unfold set_shepof_arr, set_spec. intros Hl H.
  destruct (d_count (a_desc x) <? i); [inversion H; subst; reflexivity|].
  destruct (d_kind (a_desc x)) eqn:K.
  - inversion H; subst; reflexivity.
  - inversion H; subst; reflexivity.
  - destruct (N.eqb_spec (d_shep (a_desc x)) shep) as [E|E].
    + injection H as Ht Hx. subst t' x'. unfold owner_seg, shepof_seg. rewrite K. exact E.
    + destruct (nsheps <=? shep); [discriminate|]. injection H as Ht Hx. subst t' x'.
      unfold owner_seg, shepof_seg. cbn [a_desc set_dshep d_kind d_shep]. rewrite K. reflexivity.
  - destruct (nsegs (a_desc x) <=? i / d_segsize (a_desc x)) eqn:Eb; [discriminate|]. apply N.leb_gt in Eb.
    destruct (N.eqb_spec (asg_of (a_own x) (i / d_segsize (a_desc x))) shep) as [E|E].
    + injection H as Ht Hx. subst t' x'. unfold owner_seg, shepof_seg. rewrite K.
      destruct (N.eqb_spec q (i / d_segsize (a_desc x))) as [->|]; [exact E | reflexivity].
    + destruct (nsheps <=? shep); [discriminate|]. inversion H; subst.
      unfold owner_seg, shepof_seg. cbn [a_desc a_own]. rewrite K.
      apply asg_upd. rewrite (Hl eq_refl). lia.
Qed.

(* the owner of segment q after a sequence of (index, shepherd) updates: the last update that addressed q *)
Fixpoint owner_after (k : dkind) (ss count : N) (ops : list (N * N)) (q old : N) : N :=
  match ops with
  | [] => old
  | (i, s) :: r => owner_after k ss count r q (set_spec k ss count i s q old)
  end.

Definition sets (ops : list (N * N)) : list aop := map (fun p => ASet (fst p) (snd p)) ops.

Lemma own_len_preserved nsheps t x i shep t' x' :
  (d_kind (a_desc x) = DIST -> length (a_own x) = N.to_nat (nsegs (a_desc x))) ->
  set_shepof_arr nsheps t x i shep = Some (t', x') ->
  (d_kind (a_desc x') = DIST -> length (a_own x') = N.to_nat (nsegs (a_desc x'))).
Proof.
  unfold set_shepof_arr. intros Hl H.
  destruct (d_count (a_desc x) <? i); [inversion H; subst; exact Hl|].
  destruct (d_kind (a_desc x)) eqn:K in H.
  - inversion H; subst; exact Hl.
  - inversion H; subst; exact Hl.
  - destruct (d_shep (a_desc x) =? shep); [inversion H; subst; exact Hl|].
    destruct (nsheps <=? shep); [discriminate|]. inversion H; subst. cbn [a_desc set_dshep d_kind]. congruence.
  - destruct (nsegs (a_desc x) <=? i / d_segsize (a_desc x)); [discriminate|].
    destruct (asg_of (a_own x) (i / d_segsize (a_desc x)) =? shep); [inversion H; subst; exact Hl|].
    destruct (nsheps <=? shep); [discriminate|]. inversion H; subst. cbn [a_desc a_own]. intros K'.
    rewrite upd_length. apply Hl. exact K'.
Qed.

Theorem shepof_follows_updates nsheps ops : forall t x t' x',
  (d_kind (a_desc x) = DIST -> length (a_own x) = N.to_nat (nsegs (a_desc x))) ->
  arun nsheps (t, x) (sets ops) = Some (t', x') ->
  forall j,
    shepof nsheps (asg_of (a_own x')) (a_desc x') j =
    owner_after (d_kind (a_desc x)) (d_segsize (a_desc x)) (d_count (a_desc x)) ops (j / d_segsize (a_desc x))
                (shepof nsheps (asg_of (a_own x)) (a_desc x) j).
Proof.
  induction ops as [|[i s] r IH]; intros t x t' x' Hl H j.
  - cbn in H. inversion H; subst. reflexivity.
  - cbn [sets map arun astep fst snd] in H.
    destruct (set_shepof_arr nsheps t x i s) as [[t1 x1]|] eqn:E; [|discriminate].
    pose proof (set_shepof_layout _ _ _ _ _ _ _ E) as (L1 & L2 & L3 & L4 & L5 & _).
    rewrite (IH t1 x1 t' x' (own_len_preserved _ _ _ _ _ _ _ Hl E) H j).
    cbn [owner_after]. rewrite <- L1, <- L4, <- L5.
    f_equal. rewrite !shepof_is_owner. rewrite <- L4.
    apply (set_shepof_owner _ _ _ _ _ _ _ _ Hl E).
Qed.
