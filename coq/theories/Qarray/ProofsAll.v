(* C17: iteration exactness for every array qarray_create* can produce (all eleven creation-time distributions). *)
From Coq Require Import List NArith Bool Lia.
From QV Require Import Qarray.Model Qarray.Proofs Qarray.ProofsHash Qarray.ProofsDist Qarray.ProofsFields.
Local Open Scope N_scope.

Lemma create_sps_pos count obj d tight segpages pagesize nsheps oshep :
  d_kind (create count obj d tight segpages pagesize nsheps oshep) = FIXED_FIELDS ->
  0 < d_sps (create count obj d tight segpages pagesize nsheps oshep).
Proof.
  unfold create. cbn [d_kind d_sps]. intros K. rewrite K.
  match goal with |- context [if ?c then _ else _] => destruct c eqn:E end.
  - lia.
  - apply N.eqb_neq in E. apply N.neq_0_lt_0. exact E.
Qed.

Theorem iter_exact_created count obj d tight segpages pagesize nsheps oshep asg start stop :
  let a := create count obj d tight segpages pagesize nsheps oshep in
  0 < nsheps -> 0 < d_segsize a -> (forall q, asg q < nsheps) -> start < stop ->
  iter_exact nsheps asg a start stop (iter nsheps asg a start stop) /\
  iter_exact nsheps asg a start stop (iter_loop nsheps asg a start stop).
Proof.
  intros a Hn Hss Hasg Hlt.
  destruct (d_kind a) eqn:K.
  - apply iter_exact_hash; assumption.
  - apply iter_exact_fields; try assumption. apply create_sps_pos. exact K.
  - apply iter_exact_allsame; assumption.
  - apply iter_exact_dist; assumption.
Qed.
