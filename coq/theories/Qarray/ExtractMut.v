From Coq Require Import List NArith ZArith.
From QV Require Import Qarray.Model Qarray.ModelMut.
Require Extraction.
Require Import ExtrOcamlBasic.
Extraction Language OCaml.
Extraction "../ocaml/gen/c17mut_model.ml" step world0 find_arr owners nsegs elem_off iter iter_loop iter_loopaccum
  asg_of elem_migrate_code elem_migrate_spec nb_init nb_step nb_run nb_all_returned.
