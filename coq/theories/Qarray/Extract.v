From Coq Require Import List NArith.
From QV Require Import Qarray.Model.
Require Extraction.
Require Import ExtrOcamlBasic.
Extraction Language OCaml.
Extraction "../ocaml/gen/c17_model.ml" create elem_off shep_slot assign_of seg_count shepof shepof_seg iter iter_loop iter_loopaccum.
