(* C17 extension L, part 3: chunk_distribution_tracker bookkeeping over every sequence of
   create / set_shepof / dist_like / destroy on any number of live arrays. *)
From Coq Require Import List NArith ZArith Bool Arith Lia.
From QV Require Import Qarray.Model Qarray.ModelMut Qarray.ProofsMut.
Import ListNotations.
Local Open Scope N_scope.

Fixpoint sumZ (g : N -> Z) (l : list N) : Z := match l with [] => 0%Z | q :: r => (g q + sumZ g r)%Z end.
Definition ind (b : bool) : Z := if b then 1%Z else 0%Z.

(* number of segments of array x currently owned by shepherd s *)
Definition cnt (nsheps : N) (x : arr) (s : N) : Z :=
  sumZ (fun q => ind (owner_seg nsheps x q =? s)) (nseq (nsegs (a_desc x))).
(* ... summed over the live arrays *)
Fixpoint owned (nsheps : N) (l : list (N * arr)) (s : N) : Z :=
  match l with [] => 0%Z | p :: r => (cnt nsheps (snd p) s + owned nsheps r s)%Z end.

Lemma sumZ_ext g g' l : (forall q, In q l -> g q = g' q) -> sumZ g l = sumZ g' l.
Proof.
  induction l as [|a r IH]; intros H; cbn; [reflexivity|].
  rewrite (H a (or_introl eq_refl)), IH; [reflexivity|]. intros q Hq. apply H. right. exact Hq.
Qed.

Lemma sumZ_point g g' l q0 :
  NoDup l -> In q0 l -> (forall q, q <> q0 -> g' q = g q) -> (sumZ g' l = sumZ g l + (g' q0 - g q0))%Z.
Proof.
  intros Hnd Hin Hne. induction l as [|a r IH]; [destruct Hin|].
  inversion Hnd as [|? ? Hna Hnd']; subst. cbn [sumZ].
  destruct Hin as [->|Hin].
  - rewrite (sumZ_ext g' g r); [lia|]. intros q Hq. apply Hne. intros ->. contradiction.
  - rewrite (IH Hnd' Hin). rewrite (Hne a); [lia|]. intros ->. contradiction.
Qed.

Lemma sumZ_const c l : (sumZ (fun _ => c) l = c * Z.of_nat (length l))%Z.
Proof. induction l as [|a r IH]; cbn [sumZ length]; [lia|]. rewrite IH. lia. Qed.

Lemma cnt_allsame nsheps x s :
  d_kind (a_desc x) = ALL_SAME ->
  (cnt nsheps x s = ind (N.eqb (d_shep (a_desc x)) s) * Z.of_N (nsegs (a_desc x)))%Z.
Proof.
  intros K. unfold cnt.
  rewrite (sumZ_ext _ (fun _ => ind (d_shep (a_desc x) =? s))).
  - rewrite sumZ_const, nseq_length, N_nat_Z. reflexivity.
  - intros q _. unfold owner_seg, shepof_seg. rewrite K. reflexivity.
Qed.

(* the effect of an operation on (tracker, array): tracker[s] moves exactly as the ownership count of the array *)
Definition moves (nsheps : N) (t : list Z) (x : arr) (t' : list Z) (x' : arr) : Prop :=
  length t' = length t /\
  forall s, (N.to_nat s < length t)%nat -> (tget t' s - tget t s = cnt nsheps x' s - cnt nsheps x s)%Z.

Lemma moves_refl nsheps t x : moves nsheps t x t x.
Proof. split; [reflexivity|]. intros; lia. Qed.
Lemma moves_trans nsheps t x t1 x1 t2 x2 :
  moves nsheps t x t1 x1 -> moves nsheps t1 x1 t2 x2 -> moves nsheps t x t2 x2.
Proof.
  intros [L1 M1] [L2 M2]. split; [congruence|]. intros s Hs.
  specialize (M1 s Hs). assert (Hs' : (N.to_nat s < length t1)%nat) by (rewrite L1; exact Hs).
  specialize (M2 s Hs'). lia.
Qed.

Definition own_len_ok (x : arr) : Prop :=
  d_kind (a_desc x) = DIST -> length (a_own x) = N.to_nat (nsegs (a_desc x)).

Lemma set_shepof_moves nsheps t x i shep t' x' :
  own_len_ok x -> set_shepof_arr nsheps t x i shep = Some (t', x') -> moves nsheps t x t' x'.
Proof.
  unfold set_shepof_arr, own_len_ok. intros Hl H.
  destruct (d_count (a_desc x) <? i); [inversion H; subst; apply moves_refl|].
  destruct (d_kind (a_desc x)) eqn:K in H.
  - inversion H; subst; apply moves_refl.
  - inversion H; subst; apply moves_refl.
  - destruct (N.eqb_spec (d_shep (a_desc x)) shep) as [E|E]; [inversion H; subst; apply moves_refl|].
    destruct (nsheps <=? shep); [discriminate|]. injection H as Ht Hx. subst t' x'.
    split; [rewrite !tr_add_length; reflexivity|]. intros s Hs.
    rewrite (cnt_allsame nsheps x s K).
    rewrite (cnt_allsame nsheps (mkarr (set_dshep (a_desc x) shep) (a_own x)) s) by exact K.
    cbn [a_desc set_dshep d_shep]. change (nsegs (set_dshep (a_desc x) shep)) with (nsegs (a_desc x)).
    rewrite tget_tr_add by (rewrite tr_add_length; exact Hs).
    unfold ind.
    destruct (N.eqb_spec s (d_shep (a_desc x))) as [E1|E1].
    + rewrite <- E1. rewrite !tget_tr_add by exact Hs.
      destruct (N.eqb_spec s s) as [_|E3]; [|congruence].
      destruct (N.eqb_spec shep s) as [E4|E4]; [congruence|].
      destruct (N.eqb_spec s shep) as [E5|E5]; [congruence|]. lia.
    + rewrite !tget_tr_add by exact Hs.
      destruct (N.eqb_spec (d_shep (a_desc x)) s) as [E3|E3]; [congruence|].
      destruct (N.eqb_spec shep s) as [E4|E4]; destruct (N.eqb_spec s shep) as [E5|E5]; try congruence; try rewrite <- E5; lia.
  - destruct (nsegs (a_desc x) <=? i / d_segsize (a_desc x)) eqn:Eb; [discriminate|]. apply N.leb_gt in Eb.
    destruct (N.eqb_spec (asg_of (a_own x) (i / d_segsize (a_desc x))) shep) as [E|E]; [inversion H; subst; apply moves_refl|].
    destruct (nsheps <=? shep); [discriminate|]. injection H as Ht Hx. subst t' x'.
    split; [rewrite !tr_add_length; reflexivity|]. intros s Hs.
    set (seg := i / d_segsize (a_desc x)) in *.
    set (cur := asg_of (a_own x) seg) in *.
    unfold cnt. cbn [a_desc].
    rewrite (sumZ_point (fun q => ind (owner_seg nsheps x q =? s))
                        (fun q => ind (owner_seg nsheps (mkarr (a_desc x) (upd (a_own x) (N.to_nat seg) shep)) q =? s))
                        (nseq (nsegs (a_desc x))) seg (nseq_nodup _)).
    + assert (Hnew : owner_seg nsheps (mkarr (a_desc x) (upd (a_own x) (N.to_nat seg) shep)) seg = shep).
      { unfold owner_seg, shepof_seg. cbn [a_desc a_own]. rewrite K. rewrite asg_upd by (rewrite (Hl K); lia).
        rewrite N.eqb_refl. reflexivity. }
      assert (Hold : owner_seg nsheps x seg = cur).
      { unfold owner_seg, shepof_seg. rewrite K. reflexivity. }
      rewrite Hnew, Hold.
      rewrite tget_tr_add by (rewrite tr_add_length; exact Hs).
      unfold ind.
      destruct (N.eqb_spec s cur) as [E1|E1].
      * rewrite <- E1. rewrite !tget_tr_add by exact Hs.
        destruct (N.eqb_spec s s) as [_|E3]; [|congruence].
        destruct (N.eqb_spec shep s) as [E4|E4]; [congruence|].
        destruct (N.eqb_spec s shep) as [E5|E5]; [congruence|]. lia.
      * rewrite !tget_tr_add by exact Hs.
        destruct (N.eqb_spec cur s) as [E3|E3]; [congruence|].
        destruct (N.eqb_spec shep s) as [E4|E4]; destruct (N.eqb_spec s shep) as [E5|E5]; try congruence; try rewrite <- E5; lia.
    + apply in_nseq. exact Eb.
    + intros q Hq. unfold owner_seg, shepof_seg. cbn [a_desc a_own]. rewrite K.
      rewrite asg_upd by (rewrite (Hl K); lia).
      destruct (N.eqb_spec q seg); [contradiction | reflexivity].
Qed.

Lemma set_shepof_lenok nsheps t x i shep t' x' :
  own_len_ok x -> set_shepof_arr nsheps t x i shep = Some (t', x') -> own_len_ok x'.
Proof. unfold own_len_ok. intros Hl H. exact (own_len_preserved _ _ _ _ _ _ _ Hl H). Qed.

Lemma set_loop_moves nsheps f idxs : forall t x t' x',
  own_len_ok x -> set_loop nsheps f idxs t x = Some (t', x') -> moves nsheps t x t' x' /\ own_len_ok x'.
Proof.
  induction idxs as [|i r IH]; intros t x t' x' Hl H; cbn [set_loop] in H.
  - inversion H; subst. split; [apply moves_refl | exact Hl].
  - destruct (set_shepof_arr nsheps t x i (f i)) as [[t1 x1]|] eqn:E; [|discriminate].
    destruct (IH t1 x1 t' x' (set_shepof_lenok _ _ _ _ _ _ _ Hl E) H) as [M Hl'].
    split; [|exact Hl']. eapply moves_trans; [eapply set_shepof_moves; [exact Hl | exact E] | exact M].
Qed.

Lemma dist_like_moves nsheps t r m t' m' :
  own_len_ok m -> dist_like_arr nsheps t r m = Some (t', m') -> moves nsheps t m t' m' /\ own_len_ok m'.
Proof.
  unfold dist_like_arr. intros Hl H.
  repeat match type of H with
         | (if ?c then _ else _) = _ => destruct c
         | (match ?k with FIXED_HASH => _ | _ => _ end) = _ => destruct k
         end;
    try (inversion H; subst; split; [apply moves_refl | exact Hl]);
    try (split; [eapply set_shepof_moves; [exact Hl | exact H] | eapply set_shepof_lenok; [exact Hl | exact H]]);
    try (eapply set_loop_moves; [exact Hl | exact H]).
Qed.

(* ---------- the assoc list of live arrays ---------- *)
Lemma find_forall (P : arr -> Prop) id l x :
  find_arr id l = Some x -> Forall (fun p => P (snd p)) l -> P x.
Proof.
  induction l as [|[k y] r IH]; cbn [find_arr]; [discriminate|]. intros H Hf.
  inversion Hf as [|? ? Hy Hr]; subst.
  destruct (k =? id); [inversion H; subst; exact Hy | apply IH; assumption].
Qed.

Lemma put_forall (P : arr -> Prop) id x' l :
  P x' -> Forall (fun p => P (snd p)) l -> Forall (fun p => P (snd p)) (put_arr id x' l).
Proof.
  intros Hx Hf. induction Hf as [|[k y] r Hy Hr IH]; cbn [put_arr]; [constructor|].
  destruct (k =? id); constructor; auto.
Qed.

Lemma del_forall (P : arr -> Prop) id l :
  Forall (fun p => P (snd p)) l -> Forall (fun p => P (snd p)) (del_arr id l).
Proof.
  intros Hf. induction Hf as [|[k y] r Hy Hr IH]; cbn [del_arr]; [constructor|].
  destruct (k =? id); [exact Hr | constructor; auto].
Qed.

Lemma owned_put nsheps id x x' l s :
  find_arr id l = Some x ->
  (owned nsheps (put_arr id x' l) s = owned nsheps l s - cnt nsheps x s + cnt nsheps x' s)%Z.
Proof.
  induction l as [|[k y] r IH]; cbn [find_arr put_arr]; [discriminate|]. intros H.
  destruct (k =? id).
  - inversion H; subst. cbn [owned snd]. lia.
  - cbn [owned snd]. rewrite (IH H). lia.
Qed.

Lemma owned_del nsheps id x l s :
  find_arr id l = Some x -> (owned nsheps (del_arr id l) s = owned nsheps l s - cnt nsheps x s)%Z.
Proof.
  induction l as [|[k y] r IH]; cbn [find_arr del_arr]; [discriminate|]. intros H.
  destruct (k =? id).
  - inversion H; subst. cbn [owned snd]. lia.
  - cbn [owned snd]. rewrite (IH H). lia.
Qed.

(* ---------- destroy ---------- *)
Lemma dec_loop_spec nsheps x segs : forall t,
  length (dec_loop nsheps x segs t) = length t /\
  forall s, (N.to_nat s < length t)%nat ->
            (tget (dec_loop nsheps x segs t) s = tget t s - sumZ (fun q => ind (N.eqb (owner_seg nsheps x q) s)) segs)%Z.
Proof.
  induction segs as [|q r IH]; intros t; cbn [dec_loop sumZ].
  - split; [reflexivity|]. intros; lia.
  - destruct (IH (tr_add t (owner_seg nsheps x q) (-1)%Z)) as [L M]. rewrite tr_add_length in L.
    split; [exact L|]. intros s Hs.
    rewrite M by (rewrite tr_add_length; exact Hs).
    rewrite tget_tr_add by exact Hs. unfold ind.
    destruct (N.eqb_spec s (owner_seg nsheps x q)) as [E|E]; destruct (N.eqb_spec (owner_seg nsheps x q) s) as [E'|E'];
      try congruence; try rewrite E'; lia.
Qed.

Lemma destroy_spec nsheps t x :
  length (destroy_tr nsheps t x) = length t /\
  forall s, (N.to_nat s < length t)%nat -> (tget (destroy_tr nsheps t x) s = tget t s - cnt nsheps x s)%Z.
Proof.
  unfold destroy_tr. destruct (d_kind (a_desc x)) eqn:K; try apply dec_loop_spec.
  split; [apply tr_add_length|]. intros s Hs.
  rewrite tget_tr_add by exact Hs. rewrite (cnt_allsame nsheps x s K). unfold ind.
  destruct (N.eqb_spec s (d_shep (a_desc x))) as [E|E]; destruct (N.eqb_spec (d_shep (a_desc x)) s) as [E'|E'];
    try congruence; try rewrite E'; lia.
Qed.

(* ---------- create ---------- *)
Fixpoint countZ (s : N) (o : list N) : Z := match o with [] => 0%Z | v :: r => (ind (N.eqb v s) + countZ s r)%Z end.

Lemma sumZ_countZ f s l : sumZ (fun q => ind (f q =? s)) l = countZ s (map f l).
Proof. induction l as [|a r IH]; cbn; [reflexivity|]. rewrite IH. reflexivity. Qed.

Lemma assign_loop_spec nsheps d a sc rnd segs : forall t o t',
  assign_loop nsheps d a sc rnd segs t = (o, t') ->
  length o = length segs /\ length t' = length t /\
  forall s, (N.to_nat s < length t)%nat -> (tget t' s = tget t s + countZ s o)%Z.
Proof.
  induction segs as [|q r IH]; intros t o t' H; cbn [assign_loop] in H.
  - inversion H; subst. repeat split. intros. cbn. lia.
  - destruct (assign_loop nsheps d a sc rnd r (tr_add t (target nsheps d a sc rnd t q) 1)) as [o1 t1] eqn:E.
    inversion H; subst. destruct (IH _ _ _ E) as (L1 & L2 & M). rewrite tr_add_length in L2.
    split; [cbn; congruence|]. split; [exact L2|]. intros s Hs.
    rewrite M by (rewrite tr_add_length; exact Hs). rewrite tget_tr_add by exact Hs.
    cbn [countZ]. unfold ind.
    destruct (N.eqb_spec s (target nsheps d a sc rnd t q)) as [E1|E1];
      destruct (N.eqb_spec (target nsheps d a sc rnd t q) s) as [E2|E2]; try congruence; try rewrite E2; lia.
Qed.

Lemma assign_loop_fst nsheps d a sc rnd h segs :
  (forall t q, target nsheps d a sc rnd t q = h q) ->
  forall t, fst (assign_loop nsheps d a sc rnd segs t) = map h segs.
Proof.
  intros Hh. induction segs as [|q r IH]; intros t; cbn [assign_loop map]; [reflexivity|].
  specialize (IH (tr_add t (target nsheps d a sc rnd t q) 1)).
  destruct (assign_loop nsheps d a sc rnd r (tr_add t (target nsheps d a sc rnd t q) 1)) as [o1 t1].
  cbn [fst] in *. rewrite IH, Hh. reflexivity.
Qed.

Lemma map_nth_all (o : list N) : map (fun k => nth k o 0) (seq 0 (length o)) = o.
Proof.
  induction o as [|v r IH]; cbn [length seq map nth]; [reflexivity|].
  f_equal. rewrite <- seq_shift, map_map. exact IH.
Qed.

Lemma map_asg_of (o : list N) n : N.to_nat n = length o -> map (asg_of o) (nseq n) = o.
Proof.
  intros H. unfold nseq. rewrite map_map, H.
  rewrite <- (map_nth_all o) at 2. apply map_ext. intros k. unfold asg_of. rewrite Nat2N.id. reflexivity.
Qed.

Lemma create_kind count obj d tight segpages pagesize nsheps oshep :
  d_kind (create count obj d tight segpages pagesize nsheps oshep) = kind_of d.
Proof. reflexivity. Qed.

(* the array qarray_create_internal builds and what it adds to the tracker *)
Lemma create_arr_spec nsheps pagesize t count obj d tight segpages oshep rnd t' x :
  create_arr nsheps pagesize t count obj d tight segpages oshep rnd = (t', x) ->
  own_len_ok x /\ length t' = length t /\
  forall s, (N.to_nat s < length t)%nat ->
    (tget t' s = tget t s + cnt nsheps x s +
                 (if is_all d && (N.eqb s (pick_shep nsheps d t oshep)) then Z.of_N (nsegs (a_desc x)) else 0))%Z.
Proof.
  unfold create_arr.
  set (pick := pick_shep nsheps d t oshep).
  set (a := create count obj d tight segpages pagesize nsheps pick).
  set (t1 := if is_all d then tr_add t pick (Z.of_N (nsegs a)) else t).
  destruct (assign_loop nsheps d a (nsegs a) rnd (nseq (nsegs a)) t1) as [own t2] eqn:E.
  intros H. inversion H; subst t' x. clear H.
  destruct (assign_loop_spec _ _ _ _ _ _ _ _ _ E) as (L1 & L2 & M).
  rewrite nseq_length in L1.
  assert (Lt1 : length t1 = length t) by (unfold t1; destruct (is_all d); [apply tr_add_length | reflexivity]).
  (* the owners of the new array are exactly the targets of the loop *)
  set (x := mkarr a (match d_kind a with DIST => own | _ => [] end)).
  assert (Hown : map (owner_seg nsheps x) (nseq (nsegs a)) = own).
  { unfold x. destruct (d_kind a) eqn:K.
    - assert (Ht : forall t0 q, target nsheps d a (nsegs a) rnd t0 q = owner_seg nsheps (mkarr a []) q).
      { intros t0 q. unfold owner_seg, shepof_seg. cbn [a_desc a_own]. rewrite K.
        unfold a in K. rewrite create_kind in K. destruct d; try discriminate K. reflexivity. }
      pose proof (assign_loop_fst nsheps d a (nsegs a) rnd _ (nseq (nsegs a)) Ht t1) as F.
      rewrite E in F. cbn [fst] in F. symmetry. exact F.
    - assert (Ht : forall t0 q, target nsheps d a (nsegs a) rnd t0 q = owner_seg nsheps (mkarr a []) q).
      { intros t0 q. unfold owner_seg. cbn [a_desc a_own].
        assert (Kd : d = dFIXED_FIELDS) by (unfold a in K; rewrite create_kind in K; destruct d; try discriminate K; reflexivity).
        rewrite Kd. cbn [target]. unfold shepof_seg. rewrite K. reflexivity. }
      pose proof (assign_loop_fst nsheps d a (nsegs a) rnd _ (nseq (nsegs a)) Ht t1) as F.
      rewrite E in F. cbn [fst] in F. symmetry. exact F.
    - assert (Ht : forall t0 q, target nsheps d a (nsegs a) rnd t0 q = owner_seg nsheps (mkarr a []) q).
      { intros t0 q. unfold owner_seg, shepof_seg. cbn [a_desc a_own]. rewrite K.
        unfold a in K. rewrite create_kind in K. destruct d; try discriminate K; reflexivity. }
      pose proof (assign_loop_fst nsheps d a (nsegs a) rnd _ (nseq (nsegs a)) Ht t1) as F.
      rewrite E in F. cbn [fst] in F. symmetry. exact F.
    - rewrite (map_ext _ (asg_of own)).
      + apply map_asg_of. symmetry. exact L1.
      + intros q. unfold owner_seg, shepof_seg. cbn [a_desc a_own]. rewrite K. reflexivity. }
  split.
  { unfold own_len_ok, x. cbn [a_desc a_own]. intros K. change (kind_of d) with (d_kind a). rewrite K. exact L1. }
  split; [congruence|]. intros s Hs.
  rewrite M by (rewrite Lt1; exact Hs).
  change (mkarr a (match kind_of d with DIST => own | _ => [] end)) with x.
  unfold cnt. change (a_desc x) with a. rewrite sumZ_countZ, Hown.
  unfold t1. destruct (is_all d); cbn [andb].
  - rewrite tget_tr_add by exact Hs. destruct (N.eqb_spec s pick) as [Ep|Ep]; try rewrite Ep. all: lia.
  - lia.
Qed.

(* ---------- the invariant over every operation sequence ---------- *)
(* surplus: what the ALL_* creations added on top of the ownership count (see create_arr) *)
Definition leak_step (nsheps pagesize : N) (w : world) (o : op) (lk : N -> Z) : N -> Z :=
  match o with
  | OCreate id count obj d tight segpages oshep rnd =>
      if (count =? 0) || (obj =? 0) then lk else
      if is_all d then
        let pick := pick_shep nsheps d (w_tr w) oshep in
        fun s => if s =? pick then (lk s + Z.of_N (nsegs (create count obj d tight segpages pagesize nsheps pick)))%Z else lk s
      else lk
  | _ => lk
  end.

Fixpoint run_leak (nsheps pagesize : N) (w : world) (ops : list op) (lk : N -> Z) : N -> Z :=
  match ops with
  | [] => lk
  | o :: r => match step nsheps pagesize w o with
              | None => lk
              | Some w' => run_leak nsheps pagesize w' r (leak_step nsheps pagesize w o lk)
              end
  end.

Definition winv (nsheps : N) (w : world) (lk : N -> Z) : Prop :=
  length (w_tr w) = N.to_nat nsheps /\
  Forall (fun p => own_len_ok (snd p)) (w_arrs w) /\
  forall s, s < nsheps -> (tget (w_tr w) s = owned nsheps (w_arrs w) s + lk s)%Z.

Lemma step_inv nsheps pagesize w o w' lk :
  winv nsheps w lk -> step nsheps pagesize w o = Some w' -> winv nsheps w' (leak_step nsheps pagesize w o lk).
Proof.
  intros (Lt & Hf & Ht) H. unfold winv. destruct o as [id count obj d tight segpages oshep rnd | id i shep | rf md | id];
    cbn [step leak_step] in *.
  - destruct ((count =? 0) || (obj =? 0)); [inversion H; subst; repeat split; assumption|].
    destruct (create_arr nsheps pagesize (w_tr w) count obj d tight segpages oshep (asg_of rnd)) as [t x] eqn:E.
    inversion H; subst w'. clear H. cbn [w_tr w_arrs].
    destruct (create_arr_spec _ _ _ _ _ _ _ _ _ _ _ _ E) as (Hl & L & M).
    split; [congruence|]. split; [constructor; [exact Hl | exact Hf]|].
    intros s Hs. rewrite M by lia. rewrite (Ht s Hs). cbn [owned snd].
    assert (Ea : a_desc x = create count obj d tight segpages pagesize nsheps (pick_shep nsheps d (w_tr w) oshep)).
    { unfold create_arr in E.
      destruct (assign_loop nsheps d _ _ (asg_of rnd) _ _) as [o1 t1] in E. inversion E; subst. reflexivity. }
    destruct (is_all d); cbn [andb]; cbv beta; [|lia].
    rewrite Ea. destruct (s =? pick_shep nsheps d (w_tr w) oshep); lia.
  - destruct (find_arr id (w_arrs w)) as [x|] eqn:F; [|discriminate].
    destruct (set_shepof_arr nsheps (w_tr w) x i shep) as [[t x']|] eqn:E; [|discriminate].
    inversion H; subst w'. clear H. cbn [w_tr w_arrs].
    pose proof (find_forall own_len_ok _ _ _ F Hf) as Hl.
    destruct (set_shepof_moves _ _ _ _ _ _ _ Hl E) as [L M].
    split; [congruence|]. split; [apply put_forall; [eapply set_shepof_lenok; eassumption | exact Hf]|].
    intros s Hs. rewrite (owned_put nsheps id x x' _ s F).
    specialize (M s ltac:(lia)). specialize (Ht s Hs). lia.
  - destruct (find_arr rf (w_arrs w)) as [xr|] eqn:Fr; [|discriminate].
    destruct (find_arr md (w_arrs w)) as [xm|] eqn:Fm; [|discriminate].
    destruct (dist_like_arr nsheps (w_tr w) xr xm) as [[t x']|] eqn:E; [|discriminate].
    inversion H; subst w'. clear H. cbn [w_tr w_arrs].
    pose proof (find_forall own_len_ok _ _ _ Fm Hf) as Hl.
    destruct (dist_like_moves _ _ _ _ _ _ Hl E) as [[L M] Hl'].
    split; [congruence|]. split; [apply put_forall; [exact Hl' | exact Hf]|].
    intros s Hs. rewrite (owned_put nsheps md xm x' _ s Fm).
    specialize (M s ltac:(lia)). specialize (Ht s Hs). lia.
  - destruct (find_arr id (w_arrs w)) as [x|] eqn:F; [|discriminate].
    inversion H; subst w'. clear H. cbn [w_tr w_arrs].
    destruct (destroy_spec nsheps (w_tr w) x) as [L M].
    split; [congruence|]. split; [apply del_forall; exact Hf|].
    intros s Hs. rewrite (owned_del nsheps id x _ s F). rewrite M by lia. specialize (Ht s Hs). lia.
Qed.

Theorem run_inv nsheps pagesize ops : forall w lk w',
  winv nsheps w lk -> run nsheps pagesize w ops = Some w' -> winv nsheps w' (run_leak nsheps pagesize w ops lk).
Proof.
  induction ops as [|o r IH]; intros w lk w' Hi H; cbn [run run_leak] in *.
  - inversion H; subst. exact Hi.
  - destruct (step nsheps pagesize w o) as [w1|] eqn:E; [|discriminate].
    eapply IH; [eapply step_inv; eassumption | exact H].
Qed.

Lemma world0_inv nsheps : winv nsheps (world0 nsheps) (fun _ => 0%Z).
Proof.
  unfold world0, winv. cbn [w_tr w_arrs owned].
  split; [rewrite map_length; apply nseq_length|]. split; [constructor|].
  intros s _. unfold tget.
  destruct (nth_in_or_default (N.to_nat s) (map (fun _ : N => 0%Z) (nseq nsheps)) 0%Z) as [Hin|E]; [|rewrite E; reflexivity].
  apply in_map_iff in Hin. destruct Hin as [q [Hq _]]. rewrite <- Hq. reflexivity.
Qed.

(* EXACT bookkeeping: after any sequence of create / set_shepof / dist_like / destroy (any number of live arrays, all
   eleven distributions), tracker[s] = number of live segments currently owned by s + the ALL_* creation surplus *)
Theorem tracker_exact nsheps pagesize ops w :
  run nsheps pagesize (world0 nsheps) ops = Some w ->
  length (w_tr w) = N.to_nat nsheps /\
  forall s, s < nsheps ->
    (tget (w_tr w) s = owned nsheps (w_arrs w) s + run_leak nsheps pagesize (world0 nsheps) ops (fun _ => 0%Z) s)%Z.
Proof.
  intros H. destruct (run_inv nsheps pagesize ops _ _ _ (world0_inv nsheps) H) as (L & _ & M). split; assumption.
Qed.

(* no ALL_SAME / ALL_LOCAL / ALL_RAND / ALL_LEAST array is ever created *)
Definition no_all (ops : list op) : bool :=
  forallb (fun o => match o with OCreate _ _ _ d _ _ _ _ => negb (is_all d) | _ => true end) ops.

Lemma run_leak_no_all nsheps pagesize ops : forall w lk,
  no_all ops = true -> run_leak nsheps pagesize w ops lk = lk.
Proof.
  induction ops as [|o r IH]; intros w lk H; cbn [run_leak]; [reflexivity|].
  cbn [no_all forallb] in H. apply andb_true_iff in H. destruct H as [Ho Hr].
  destruct (step nsheps pagesize w o) as [w1|]; [|reflexivity].
  rewrite (IH w1 _ Hr). destruct o as [id count obj d tight segpages oshep rnd| | |]; cbn [leak_step]; try reflexivity.
  destruct ((count =? 0) || (obj =? 0)); [reflexivity|].
  destruct (is_all d); [discriminate | reflexivity].
Qed.

(* the intended conservation law, under the guard that excludes exactly the double-counted class *)
Theorem tracker_conservation nsheps pagesize ops w :
  no_all ops = true ->
  run nsheps pagesize (world0 nsheps) ops = Some w ->
  forall s, s < nsheps -> tget (w_tr w) s = owned nsheps (w_arrs w) s.
Proof.
  intros Hna H s Hs. destruct (tracker_exact nsheps pagesize ops w H) as [_ M].
  rewrite (M s Hs), (run_leak_no_all nsheps pagesize ops _ _ Hna). lia.
Qed.

(* the full statement is false for the code as it is: create one ALL_LOCAL array, destroy it *)
Theorem tracker_conservation_refuted :
  exists nsheps pagesize ops w,
    run nsheps pagesize (world0 nsheps) ops = Some w /\ w_arrs w = [] /\ tget (w_tr w) 0 <> 0%Z.
Proof.
  exists 3, 4096, [OCreate 0 3000 8 dALL_LOCAL false 1 0 []; ODestroy 0].
  eexists. split; [vm_compute; reflexivity|]. split; [reflexivity|]. vm_compute. discriminate.
Qed.
