(* C17: iteration over FIXED_HASH arrays is exact for EVERY non-empty range [start, stop), aligned to segment
   boundaries or not (the striders as repaired by the fix: commit; before it the unaligned case was a finding). *)
From Coq Require Import List NArith ZArith Bool Lia ZifyBool ZifyN ZifyNat Arith.
From QV Require Import Qarray.Model Qarray.Proofs.
Import ListNotations.
Local Open Scope N_scope.

Section Hash.
  Variable n : N.                (* number of shepherds *)
  Variable asg : N -> N.
  Variable a : desc.
  Hypothesis K : d_kind a = FIXED_HASH.
  Hypothesis Hn : 0 < n.
  Hypothesis Hss : 0 < d_segsize a.
  Let ss := d_segsize a.

  Lemma ss_ne : ss <> 0. Proof. unfold ss; lia. Qed.
  Lemma n_ne : n <> 0. Proof. lia. Qed.

  Lemma div_bounds i : (i / ss) * ss <= i < (i / ss + 1) * ss.
  Proof.
    pose proof (N.div_mod i ss ss_ne) as H. pose proof (N.mod_lt i ss ss_ne) as H1. nia.
  Qed.

  Lemma div_mul' q : (q * ss) / ss = q.
  Proof. apply N.div_mul. exact ss_ne. Qed.

  Lemma shepof_aligned q : shepof n asg a (q * ss) = q mod n.
  Proof. unfold shepof, shepof_seg. rewrite K. fold ss. rewrite div_mul'. reflexivity. Qed.

  Lemma shepof_hash i : shepof n asg a i = (i / ss) mod n.
  Proof. unfold shepof, shepof_seg. rewrite K. reflexivity. Qed.

  (* modular fact used twice *)
  Lemma sub_mod_zero x y : y <= x -> ((x - y) mod n = 0 <-> x mod n = y mod n).
  Proof.
    intros Hle. split; intros H.
    - apply N.mod_divide in H; [|exact n_ne]. destruct H as [k Hk].
      replace x with (y + k * n) by lia. apply N.mod_add. exact n_ne.
    - pose proof (N.div_mod x n n_ne) as Hx. pose proof (N.div_mod y n n_ne) as Hy.
      rewrite H in Hx.
      assert (Hq : y / n <= x / n) by (apply N.div_le_mono; [exact n_ne | exact Hle]).
      replace (x - y) with ((x / n - y / n) * n) by nia.
      apply N.mod_mul. exact n_ne.
  Qed.

  (* ---------------- seek ---------------- *)
  Lemma seek_sound fuel s q m c' :
    seek n asg fuel a s (q * ss) m = Some c' ->
    exists q', c' = q' * ss /\ q <= q' /\ q' mod n = s /\ (q' = q \/ q' * ss < m).
  Proof.
    revert q. induction fuel as [|f IH]; intros q; cbn [seek]; [discriminate|].
    rewrite shepof_aligned. fold ss.
    destruct (q mod n =? s) eqn:E.
    - intros H; inversion H; subst. apply N.eqb_eq in E. exists q. repeat split; try lia.
    - destruct (m <=? q * ss + ss) eqn:E2; [discriminate|].
      apply N.leb_gt in E2.
      replace (q * ss + ss) with ((q + 1) * ss) in * by lia.
      intros H. destruct (IH _ H) as (q' & -> & Hq & Hm & Hor).
      exists q'. repeat split; try lia.
  Qed.

  Lemma seek_finds fuel s q qt m :
    q <= qt -> qt mod n = s -> qt * ss < m -> (N.to_nat (qt - q) < fuel)%nat ->
    exists q', seek n asg fuel a s (q * ss) m = Some (q' * ss) /\ q <= q' <= qt /\ q' mod n = s.
  Proof.
    revert q. induction fuel as [|f IH]; intros q Hle Hqt Hm Hf; [lia|].
    cbn [seek]. rewrite shepof_aligned. fold ss.
    destruct (q mod n =? s) eqn:E.
    - apply N.eqb_eq in E. exists q. repeat split; try lia.
    - apply N.eqb_neq in E.
      assert (q <> qt) by (intros ->; contradiction).
      assert (Hlt : (q + 1) * ss <= qt * ss) by nia.
      destruct (m <=? q * ss + ss) eqn:E2; [apply N.leb_le in E2; lia|].
      replace (q * ss + ss) with ((q + 1) * ss) by lia.
      destruct (IH (q + 1)) as (q' & Hs & Hb & Hmq); try lia.
      exists q'. repeat split; try lia. exact Hs.
  Qed.

  (* seek_start from an arbitrary start (q0 = start / ss): either the start itself (its segment is mine),
     or the first of my segments after it *)
  Lemma seek_start_sound fuel s start m c' :
    seek_start n asg fuel a s start m = Some c' ->
    (c' = start /\ (start / ss) mod n = s) \/
    (exists q', c' = q' * ss /\ start / ss < q' /\ q' mod n = s /\ q' * ss < m) \/
    (start mod ss = 0 /\ c' = start /\ (start / ss) mod n = s).
  Proof.
    unfold seek_start. fold ss. rewrite shepof_hash.
    pose proof (N.div_mod start ss ss_ne) as Hd. pose proof (N.mod_lt start ss ss_ne) as Hr.
    set (q0 := start / ss) in *. set (r := start mod ss) in *.
    destruct ((0 <? start) && negb (q0 mod n =? s)) eqn:E.
    - replace (start + (ss - r)) with ((q0 + 1) * ss) by lia.
      destruct (m <=? (q0 + 1) * ss) eqn:E2; [discriminate|]. apply N.leb_gt in E2.
      intros H. destruct (seek_sound _ _ _ _ _ H) as (q' & -> & Hq & Hm & Hor).
      right; left. exists q'. repeat split; try lia.
    - (* seek from start itself: it answers at once when the segment is mine; otherwise start = 0 *)
      apply andb_false_iff in E. destruct E as [E|E].
      + apply N.ltb_ge in E. assert (start = 0) by lia.
        assert (q0 = 0) by (unfold q0; rewrite H; apply N.div_0_l; exact ss_ne).
        replace start with (0 * ss) by lia.
        intros H1. destruct (seek_sound _ _ _ _ _ H1) as (q' & -> & Hq & Hm & Hor).
        destruct (N.eq_dec q' 0) as [->|Hne].
        * left. split; [lia|]. rewrite H0. exact Hm.
        * right; left. exists q'. repeat split; try lia.
      + apply negb_false_iff in E. apply N.eqb_eq in E.
        destruct fuel as [|f]; cbn [seek]; [discriminate|].
        rewrite shepof_hash. fold q0. rewrite E, N.eqb_refl.
        intros H; inversion H as [Hc']. left. split; [congruence | first [reflexivity | exact E]].
  Qed.

  Lemma seek_start_finds fuel s start qt m :
    start / ss <= qt -> qt mod n = s -> (qt = start / ss \/ qt * ss < m) -> start < m ->
    (N.to_nat (qt - start / ss) < fuel)%nat ->
    exists c', seek_start n asg fuel a s start m = Some c' /\
               ((c' = start /\ (start / ss) mod n = s) \/
                (exists q', c' = q' * ss /\ start / ss < q' <= qt /\ q' mod n = s)).
  Proof.
    intros Hle Hqt Hor Hsm Hf. unfold seek_start. fold ss. rewrite shepof_hash.
    pose proof (N.div_mod start ss ss_ne) as Hd. pose proof (N.mod_lt start ss ss_ne) as Hr.
    set (q0 := start / ss) in *. set (r := start mod ss) in *.
    destruct ((0 <? start) && negb (q0 mod n =? s)) eqn:E.
    - apply andb_prop in E. destruct E as [_ E]. apply negb_true_iff in E. apply N.eqb_neq in E.
      assert (q0 <> qt) by (intros ->; contradiction).
      assert (Hm : qt * ss < m) by (destruct Hor; [congruence | assumption]).
      assert (Hlt : (q0 + 1) * ss <= qt * ss) by nia.
      replace (start + (ss - r)) with ((q0 + 1) * ss) by lia.
      destruct (m <=? (q0 + 1) * ss) eqn:E2; [apply N.leb_le in E2; lia|].
      destruct (seek_finds fuel s (q0 + 1) qt m) as (q' & Hs & Hb & Hmq); try lia.
      exists (q' * ss). split; [exact Hs|]. right. exists q'. repeat split; try lia.
    - apply andb_false_iff in E. destruct E as [E|E].
      + apply N.ltb_ge in E. assert (start = 0) by lia.
        assert (Hq00 : q0 = 0) by (unfold q0; rewrite H; apply N.div_0_l; exact ss_ne).
        replace start with (0 * ss) by lia.
        assert (Hm : qt * ss < m) by (destruct Hor as [->|]; [rewrite Hq00; lia | assumption]).
        destruct (seek_finds fuel s 0 qt m) as (q' & Hs & Hb & Hmq); try lia.
        exists (q' * ss). split; [exact Hs|].
        destruct (N.eq_dec q' 0) as [->|Hne].
        * left. split; [lia | rewrite Hq00; exact Hmq].
        * right. exists q'. repeat split; try lia.
      + apply negb_false_iff in E. apply N.eqb_eq in E.
        destruct fuel as [|f]; [lia|]. cbn [seek]. rewrite shepof_hash. fold q0. rewrite E, N.eqb_refl.
        exists start. split; [reflexivity|]. left. split; [reflexivity | first [reflexivity | exact E]].
  Qed.

  (* ---------------- the main loop ---------------- *)
  Lemma covers_chunks_hash fuel s c m i :
    c < m -> (N.to_nat ((m - (c - c mod ss)) / (ss * n)) < fuel)%nat ->
    covers (chunks n asg fuel a s c m) i =
    if (c <=? i) && (i <? m) && ((i / ss - c / ss) mod n =? 0) then 1%nat else 0%nat.
  Proof.
    revert c. induction fuel as [|f IH]; intros c Hcm Hf; [exfalso; exact (Nat.nlt_0_r _ Hf)|].
    cbn [chunks]. rewrite K. fold ss. cbn [covers].
    pose proof (div_bounds i) as [Hlo Hhi]. set (qi := i / ss) in *.
    pose proof ss_ne as Hs0. pose proof n_ne as Hn0.
    pose proof (N.div_mod c ss Hs0) as Hc. pose proof (N.mod_lt c ss Hs0) as Hr.
    set (q := c / ss) in *. set (r := c mod ss) in *.
    assert (Hssn : ss * n <> 0) by nia.
    assert (Hstep : c - r + ss * n = (q + n) * ss) by lia.
    rewrite Hstep.
    assert (Hal : ((q + n) * ss) mod ss = 0) by (apply N.mod_mul; exact Hs0).
    assert (Hdv : ((q + n) * ss) / ss = q + n) by (apply N.div_mul; exact Hs0).
    assert (Hrest :
      covers (if m <=? (q + n) * ss then [] else chunks n asg f a s ((q + n) * ss) m) i =
      if ((q + n) * ss <=? i) && (i <? m) && ((qi - (q + n)) mod n =? 0) then 1%nat else 0%nat).
    { destruct (m <=? (q + n) * ss) eqn:E2.
      - apply N.leb_le in E2. cbn [covers].
        destruct ((q + n) * ss <=? i) eqn:A; [|reflexivity].
        destruct (i <? m) eqn:B; [|reflexivity]. lia.
      - apply N.leb_gt in E2. rewrite IH; [rewrite Hdv; reflexivity | lia |].
        rewrite Hal, N.sub_0_r.
        assert ((m - (c - r)) / (ss * n) = (m - (q + n) * ss) / (ss * n) + 1).
        { replace (m - (c - r)) with ((m - (q + n) * ss) + 1 * (ss * n)) by lia.
          rewrite N.div_add by exact Hssn. reflexivity. }
        set (x := (m - (q + n) * ss) / (ss * n)) in *. set (y := (m - (c - r)) / (ss * n)) in *. lia. }
    rewrite Hrest. clear Hrest IH.
    set (mo := if ss - r <? m - c then ss - r else m - c).
    assert (Hmo : c + mo = N.min ((q + 1) * ss) m).
    { unfold mo. destruct (ss - r <? m - c) eqn:E; lia. }
    destruct (c <=? i) eqn:A1.
    2:{ apply N.leb_gt in A1. cbn [andb].
        replace ((q + n) * ss <=? i) with false by nia. cbn [andb]. reflexivity. }
    apply N.leb_le in A1.
    assert (Hq : q <= qi) by nia.
    destruct (i <? m) eqn:A2.
    2:{ apply N.ltb_ge in A2. cbn [andb]. rewrite andb_false_r. cbn [andb].
        replace (i <? c + mo) with false by lia. reflexivity. }
    apply N.ltb_lt in A2. cbn [andb].
    destruct (N.lt_ge_cases qi (q + 1)) as [C1|C1].
    - assert (Hqq : qi = q) by lia. rewrite Hqq in *.
      replace (i <? c + mo) with true by lia.
      replace ((q + n) * ss <=? i) with false by nia.
      replace (q - q) with 0 by lia. rewrite N.mod_0_l by exact Hn0. reflexivity.
    - replace (i <? c + mo) with false by nia. cbn [Nat.add].
      destruct (N.lt_ge_cases qi (q + n)) as [C2|C2].
      + replace ((q + n) * ss <=? i) with false by nia. cbn [andb].
        rewrite N.mod_small by lia.
        replace (qi - q =? 0) with false by lia. reflexivity.
      + replace ((q + n) * ss <=? i) with true by nia. cbn [andb].
        replace (qi - q) with ((qi - (q + n)) + 1 * n) by lia.
        rewrite N.mod_add by exact Hn0. reflexivity.
  Qed.

  (* ---------------- one strider ---------------- *)
  Lemma fuel_enough q0 qt stop : q0 <= qt -> qt * ss < stop ->
    (N.to_nat (qt - q0) < fuel_of a stop)%nat.
  Proof.
    intros H1 H2. unfold fuel_of. fold ss.
    assert (qt <= stop / ss) by (apply N.div_le_lower_bound; [exact ss_ne | lia]).
    lia.
  Qed.

  Lemma fuel_enough_chunks c stop : c < stop ->
    (N.to_nat ((stop - (c - c mod ss)) / (ss * n)) < fuel_of a stop)%nat.
  Proof.
    intros H. unfold fuel_of. fold ss.
    pose proof ss_ne. pose proof n_ne.
    assert ((stop - (c - c mod ss)) / (ss * n) <= stop / ss).
    { rewrite <- N.div_div by assumption.
      set (x := (stop - (c - c mod ss)) / ss).
      assert (x / n <= x) by (apply N.div_le_upper_bound; [assumption | nia]).
      assert (x <= stop / ss) by (apply N.div_le_mono; [assumption | lia]).
      lia. }
    set (x := (stop - (c - c mod ss)) / (ss * n)) in *. set (y := stop / ss) in *. lia.
  Qed.

  Lemma strider_hash_covers s start stop i :
    s < n -> start <= i < stop ->
    covers (strider n asg a s start stop) i = if (i / ss) mod n =? s then 1%nat else 0%nat.
  Proof.
    intros Hs [Hi1 Hi2]. unfold strider. rewrite K. fold ss.
    pose proof (div_bounds i) as [Hlo Hhi]. set (qi := i / ss) in *.
    pose proof (div_bounds start) as [Hslo Hshi]. set (q0 := start / ss) in *.
    assert (Hq0 : q0 <= qi) by nia.
    destruct (qi mod n =? s) eqn:E.
    - apply N.eqb_eq in E.
      assert (P1 : start / ss <= qi) by exact Hq0.
      assert (P2 : qi = start / ss \/ qi * ss < stop) by (right; nia).
      assert (P3 : start < stop) by lia.
      assert (P4 : (N.to_nat (qi - start / ss) < fuel_of a stop)%nat) by (apply fuel_enough; [exact Hq0 | nia]).
      destruct (seek_start_finds (fuel_of a stop) s start qi stop P1 E P2 P3 P4) as (c' & Hsk & Hshape).
      rewrite Hsk.
      destruct Hshape as [[-> Hown]|(q' & -> & Hb & Hm)].
      + rewrite covers_chunks_hash; [| lia | apply fuel_enough_chunks; lia].
        fold qi q0.
        replace (start <=? i) with true by lia. replace (i <? stop) with true by lia. cbn [andb].
        assert (Hz : (qi - q0) mod n = 0) by (apply sub_mod_zero; [exact Hq0 | fold q0 in Hown; congruence]).
        rewrite Hz. reflexivity.
      + fold q0 in Hb.
        rewrite covers_chunks_hash; [| nia | apply fuel_enough_chunks; nia].
        rewrite div_mul'. fold qi.
        replace (q' * ss <=? i) with true by nia.
        replace (i <? stop) with true by lia. cbn [andb].
        assert (Hz : (qi - q') mod n = 0) by (apply sub_mod_zero; lia).
        rewrite Hz. reflexivity.
    - apply N.eqb_neq in E.
      destruct (seek_start n asg (fuel_of a stop) a s start stop) as [c'|] eqn:Hsk; [|reflexivity].
      destruct (seek_start_sound _ _ _ _ _ Hsk) as [[-> Hown]|[(q' & -> & Hq & Hm & Hlt)|(_ & -> & Hown)]].
      + rewrite covers_chunks_hash; [| lia | apply fuel_enough_chunks; lia].
        fold qi q0. fold q0 in Hown.
        replace (start <=? i) with true by lia. replace (i <? stop) with true by lia. cbn [andb].
        destruct ((qi - q0) mod n =? 0) eqn:Z; [|reflexivity].
        apply N.eqb_eq in Z. apply sub_mod_zero in Z; [|exact Hq0]. congruence.
      + fold q0 in Hq.
        rewrite covers_chunks_hash; [| exact Hlt | apply fuel_enough_chunks; exact Hlt].
        rewrite div_mul'. fold qi.
        destruct (q' * ss <=? i) eqn:A1; [|reflexivity]. apply N.leb_le in A1.
        replace (i <? stop) with true by lia. cbn [andb].
        destruct ((qi - q') mod n =? 0) eqn:Z; [|reflexivity].
        apply N.eqb_eq in Z. apply sub_mod_zero in Z; [|nia]. lia.
      + rewrite covers_chunks_hash; [| lia | apply fuel_enough_chunks; lia].
        fold qi q0. fold q0 in Hown.
        replace (start <=? i) with true by lia. replace (i <? stop) with true by lia. cbn [andb].
        destruct ((qi - q0) mod n =? 0) eqn:Z; [|reflexivity].
        apply N.eqb_eq in Z. apply sub_mod_zero in Z; [|exact Hq0]. congruence.
  Qed.

  Lemma strider_hash_outside s start stop i :
    s < n -> start < stop -> ~ (start <= i < stop) ->
    covers (strider n asg a s start stop) i = 0%nat.
  Proof.
    intros Hs Hne Hout. unfold strider. rewrite K. fold ss.
    pose proof (div_bounds start) as [Hslo Hshi]. set (q0 := start / ss) in *.
    destruct (seek_start n asg (fuel_of a stop) a s start stop) as [c'|] eqn:Hsk; [|reflexivity].
    assert (Hc : start <= c' /\ c' < stop).
    { destruct (seek_start_sound _ _ _ _ _ Hsk) as [[-> _]|[(q' & -> & Hq & Hm & Hlt)|(_ & -> & _)]]; try lia.
      fold q0 in Hq. nia. }
    rewrite covers_chunks_hash; [| lia | apply fuel_enough_chunks; lia].
    destruct (c' <=? i) eqn:A1; [|reflexivity]. apply N.leb_le in A1.
    destruct (i <? stop) eqn:A2; [|reflexivity]. apply N.ltb_lt in A2.
    exfalso. apply Hout. lia.
  Qed.

  (* loop_strider hands out the same ranges for FIXED_HASH *)
  Lemma loop_strider_hash s start stop : loop_strider n asg a s start stop = strider n asg a s start stop.
  Proof. unfold loop_strider, strider. rewrite K. reflexivity. Qed.

  (* ---------------- all shepherds together ---------------- *)
  Lemma sum_indicator (f : N -> list (N * N)) i s0 lo len :
    (forall k, (lo <= k < lo + len)%nat -> covers (f (N.of_nat k)) i = if N.of_nat k =? s0 then 1%nat else 0%nat) ->
    total_covers (map (fun s => (s, f s)) (map N.of_nat (seq lo len))) i =
    if (N.of_nat lo <=? s0) && (s0 <? N.of_nat (lo + len)) then 1%nat else 0%nat.
  Proof.
    revert lo. induction len as [|len IH]; intros lo Hf.
    - cbn. destruct (N.of_nat lo <=? s0) eqn:A, (s0 <? N.of_nat (lo + 0)) eqn:B; try reflexivity. lia.
    - cbn [seq map total_covers fold_right snd].
      change (fold_right (fun p acc => (covers (snd p) i + acc)%nat) 0%nat
                (map (fun s => (s, f s)) (map N.of_nat (seq (S lo) len))))
        with (total_covers (map (fun s => (s, f s)) (map N.of_nat (seq (S lo) len))) i).
      rewrite IH by (intros k Hk; apply Hf; lia).
      rewrite Hf by lia.
      destruct (N.of_nat lo =? s0) eqn:E.
      + apply N.eqb_eq in E.
        replace ((N.of_nat (S lo) <=? s0)) with false by lia. cbn [andb].
        replace ((N.of_nat lo <=? s0) && (s0 <? N.of_nat (lo + S len))) with true by lia. reflexivity.
      + apply N.eqb_neq in E.
        destruct ((N.of_nat (S lo) <=? s0) && (s0 <? N.of_nat (S lo + len))) eqn:B.
        * replace ((N.of_nat lo <=? s0) && (s0 <? N.of_nat (lo + S len))) with true by lia. reflexivity.
        * replace ((N.of_nat lo <=? s0) && (s0 <? N.of_nat (lo + S len))) with false by lia. reflexivity.
  Qed.

  Lemma sum_indicator_all (f : N -> list (N * N)) i s0 :
    (forall s, s < n -> covers (f s) i = if s =? s0 then 1%nat else 0%nat) ->
    total_covers (map (fun s => (s, f s)) (map N.of_nat (seq 0 (N.to_nat n)))) i =
    if s0 <? n then 1%nat else 0%nat.
  Proof.
    intros Hf. rewrite (sum_indicator f i s0 0 (N.to_nat n)).
    - rewrite Nat.add_0_l, N2Nat.id. change (N.of_nat 0) with 0.
      replace (0 <=? s0) with true by (symmetry; apply N.leb_le, N.le_0_l). reflexivity.
    - intros k Hk. apply Hf.
      lia.
  Qed.

  Theorem iter_exact_hash start stop :
    start < stop ->
    iter_exact n asg a start stop (iter n asg a start stop) /\
    iter_exact n asg a start stop (iter_loop n asg a start stop).
  Proof.
    intros Hlt.
    assert (Hil : iter_loop n asg a start stop = iter n asg a start stop).
    { unfold iter_loop, iter. apply map_ext. intros s. rewrite loop_strider_hash. reflexivity. }
    rewrite Hil. assert (G : iter_exact n asg a start stop (iter n asg a start stop)); [|split; exact G].
    unfold iter, spawned. rewrite K. fold ss.
    pose proof (div_bounds start) as [Hslo Hshi]. set (q0 := start / ss) in *.
    destruct (q0 =? (stop - 1) / ss) eqn:Esmall.
    - (* the whole range lies inside segment q0: one strider on its owner *)
      apply N.eqb_eq in Esmall. rewrite shepof_hash. fold q0.
      pose proof (div_bounds (stop - 1)) as [Hplo Hphi]. rewrite <- Esmall in Hplo, Hphi.
      assert (Hs : q0 mod n < n) by (apply N.mod_lt; exact n_ne).
      intros i. cbn [map total_covers fold_right snd]. split.
      + intros Hin. rewrite strider_hash_covers by (try assumption; lia).
        pose proof (div_bounds i) as [Hlo Hhi].
        assert (H : i / ss = q0) by nia. rewrite H, N.eqb_refl. split; [reflexivity|].
        intros s l [Heq|[]] _. inversion Heq; subst s l. rewrite shepof_hash, H. reflexivity.
      + intros Hout. rewrite strider_hash_outside by (try assumption; lia). reflexivity.
    - (* one strider per shepherd *)
      intros i. split.
      + intros Hin.
        pose proof (N.mod_lt (i / ss) n n_ne) as Hown.
        rewrite (sum_indicator_all (fun s => strider n asg a s start stop) i ((i / ss) mod n)).
        * apply N.ltb_lt in Hown. rewrite Hown.
          split; [reflexivity|].
          intros s l Hinl Hpos. apply in_map_iff in Hinl. destruct Hinl as (s' & Heq & Hs').
          inversion Heq; subst s l. apply in_map_iff in Hs'. destruct Hs' as (k & <- & Hk). apply in_seq in Hk.
          assert (Hkn : N.of_nat k < n) by lia.
          rewrite strider_hash_covers in Hpos; [| exact Hkn | exact Hin].
          rewrite shepof_hash. destruct ((i / ss) mod n =? N.of_nat k) eqn:E; [apply N.eqb_eq in E; exact E | inversion Hpos].
        * intros s Hs. rewrite strider_hash_covers; [| exact Hs | exact Hin].
          rewrite N.eqb_sym. reflexivity.
      + intros Hout.
        rewrite (sum_indicator_all (fun s => strider n asg a s start stop) i n).
        * rewrite N.ltb_irrefl. reflexivity.
        * intros s Hs. rewrite strider_hash_outside; [| exact Hs | exact Hlt | exact Hout].
          replace (s =? n) with false; [reflexivity|]. symmetry. apply N.eqb_neq. intros ->. exact (N.lt_irrefl _ Hs).
  Qed.
End Hash.
