(* Abstract full/empty cell (C01/C02, reusable by C05/C06).
   A cell is (full, value).  [atomic c o] is the effect of operation [o] executed
   atomically on [c]:  None = the operation has to wait in this state.
   Written from the property text, not from the code. *)
From Coq Require Import List ZArith Bool.
Import ListNotations.
Local Open Scope Z_scope.

Record cell := mkCell { c_full : bool; c_val : Z }.

(* source of a write: [Some v] = the value v; [None] = the source aliases the word
   itself (the C API is pointer based: dest == src stores nothing) *)
Definition wsrc := option Z.
Definition stored (s : wsrc) (old : Z) : Z := match s with Some v => v | None => old end.

Inductive cop :=
| CReadFE | CReadFF | CReadXX
| CWriteEF (s : wsrc) | CWriteF (s : wsrc) | CWriteFF (s : wsrc)
| CFill | CEmpty | CPurge (s : wsrc) | CStatus.

(* result of a completed operation: the value read (reads), the full bit (status) *)
Inductive cres := RNone | RVal (v : Z) | RBit (b : bool).

Definition atomic (c : cell) (o : cop) : option (cell * cres) :=
  match o with
  | CReadFE    => if c_full c then Some (mkCell false (c_val c), RVal (c_val c)) else None
  | CReadFF    => if c_full c then Some (c, RVal (c_val c)) else None
  | CReadXX    => Some (c, RVal (c_val c))
  | CWriteEF s => if c_full c then None else Some (mkCell true (stored s (c_val c)), RNone)
  | CWriteF s  => Some (mkCell true (stored s (c_val c)), RNone)
  | CWriteFF s => if c_full c then Some (mkCell true (stored s (c_val c)), RNone) else None
  | CFill      => Some (mkCell true (c_val c), RNone)
  | CEmpty     => Some (mkCell false (c_val c), RNone)
  | CPurge s   => Some (mkCell false (stored s (c_val c)), RNone)
  | CStatus    => Some (c, RBit (c_full c))
  end.

Definition enabled (c : cell) (o : cop) : bool :=
  match atomic c o with Some _ => true | None => false end.

(* the state an operation has to wait out *)
Definition waits_for_full (o : cop) : bool :=
  match o with CReadFE | CReadFF | CWriteFF _ => true | _ => false end.
Definition waits_for_empty (o : cop) : bool :=
  match o with CWriteEF _ => true | _ => false end.

Lemma enabled_char c o :
  enabled c o = if waits_for_full o then c_full c else if waits_for_empty o then negb (c_full c) else true.
Proof. destruct o, c as [[] v]; reflexivity. Qed.

(* lock = readFE, unlock = fill *)
Definition CLock := CReadFE.
Definition CUnlock := CFill.

(* A linearisation: operations applied one after the other, each enabled where it stands.
   Entries carry an opaque tag (task id, destination mode ...) *)
Section Lin.
  Context {T : Type}.
  Inductive lin : cell -> list (T * cop) -> list (T * cres) -> cell -> Prop :=
  | lin_nil c : lin c [] [] c
  | lin_cons c x o c1 r l rs c2 :
      atomic c o = Some (c1, r) -> lin c1 l rs c2 -> lin c ((x, o) :: l) ((x, r) :: rs) c2.

  Lemma lin_app c l1 r1 c1 l2 r2 c2 :
    lin c l1 r1 c1 -> lin c1 l2 r2 c2 -> lin c (l1 ++ l2) (r1 ++ r2) c2.
  Proof. induction 1; simpl; intros; [assumption|]. econstructor; eauto. Qed.

  (* executable version, used to state results as equations *)
  Fixpoint run (c : cell) (l : list (T * cop)) : option (cell * list (T * cres)) :=
    match l with
    | [] => Some (c, [])
    | (x, o) :: l' =>
        match atomic c o with
        | None => None
        | Some (c1, r) =>
            match run c1 l' with None => None | Some (c2, rs) => Some (c2, (x, r) :: rs) end
        end
    end.

  Lemma run_lin c l c2 rs : run c l = Some (c2, rs) <-> lin c l rs c2.
  Proof.
    split.
    - revert c c2 rs. induction l as [|[x o] l IH]; simpl; intros c c2 rs H.
      + inversion H; constructor.
      + destruct (atomic c o) as [[c1 r]|] eqn:E; [|discriminate].
        destruct (run c1 l) as [[c3 rs']|] eqn:E2; [|discriminate].
        inversion H; subst. econstructor; eauto.
    - induction 1; simpl; [reflexivity|]. rewrite H, IHlin. reflexivity.
  Qed.
End Lin.
