(* Corollaries on histories of the abstract cell (C01): mutual exclusion of lock/unlock, writeEF/readFE hand-over. *)
From Coq Require Import List ZArith Bool.
Import ListNotations.
From QV Require Import Cell.Spec.

Definition sets_full (o : cop) : bool :=
  match o with CFill | CWriteEF _ | CWriteF _ => true | _ => false end.

Section Hist.
  Context {T : Type}.

  (* while no filling operation takes effect an empty cell stays empty *)
  Lemma stays_empty (c : cell) (l : list (T * cop)) rs c' :
    c_full c = false -> lin c l rs c' -> Forall (fun x => sets_full (snd x) = false) l -> c_full c' = false.
  Proof.
    intros E L. induction L as [c|c x o c1 r l rs c2 A L IH]; intros F; [exact E|].
    inversion F as [|? ? Ho Fl]; subst. simpl in Ho. apply IH; [|exact Fl].
    destruct o, c as [[] v]; simpl in *; try discriminate; inversion A; reflexivity.
  Qed.

  (* lock = readFE, unlock = fill: between two completed locks some operation filled the word
     (i.e. the first holder, or someone, released it): at most one holder at a time *)
  Theorem lock_mutex (c : cell) t1 t2 (l : list (T * cop)) rs c' :
    lin c ((t1, CLock) :: l ++ [(t2, CLock)]) rs c' ->
    ~ Forall (fun x => sets_full (snd x) = false) l.
  Proof.
    intros L F. inversion L as [|? ? ? c1 r ? rs1 ? A L1]; subst.
    assert (E1 : c_full c1 = false).
    { unfold CLock in A. simpl in A. destruct (c_full c); [inversion A; reflexivity | discriminate]. }
    clear L A. revert c1 E1 rs1 L1. induction l as [|[x o] l IH]; intros c1 E1 rs1 L1; simpl in L1.
    - inversion L1 as [|? ? ? c2 r2 ? rs2 ? A2 L2]; subst. unfold CLock in A2. simpl in A2. rewrite E1 in A2. discriminate.
    - inversion F as [|? ? Ho Fl]; subst. inversion L1 as [|? ? ? c2 r2 ? rs2 ? A2 L2]; subst.
      eapply (IH Fl c2); [|exact L2]. simpl in Ho.
      destruct o, c1 as [[] v]; simpl in *; try discriminate; inversion A2; reflexivity.
  Qed.

  (* a word used only with writeEF and readFE: completed operations alternate, starting with the one the state allows,
     and every value read is the value of the immediately preceding write (none overwritten unread, none read twice) *)
  Definition ef_fe_only (l : list (T * cop)) : Prop :=
    Forall (fun x => match snd x with CWriteEF (Some _) | CReadFE => True | _ => False end) l.

  Fixpoint handover (full : bool) (v : Z) (l : list (T * cop)) (rs : list (T * cres)) : Prop :=
    match l, rs with
    | [], [] => True
    | (_, CWriteEF (Some w)) :: l', (_, RNone) :: rs' => full = false /\ handover true w l' rs'
    | (_, CReadFE) :: l', (_, RVal x) :: rs' => full = true /\ x = v /\ handover false v l' rs'
    | _, _ => False
    end.

  Theorem ef_fe_once (c : cell) (l : list (T * cop)) rs c' :
    ef_fe_only l -> lin c l rs c' -> handover (c_full c) (c_val c) l rs.
  Proof.
    intros O L. induction L as [c|c x o c1 r l rs c2 A L IH]; simpl; [exact I|].
    inversion O as [|? ? Ho Ol]; subst. simpl in Ho. specialize (IH Ol).
    destruct o as [| | |[w|]| | | | | |]; try contradiction; simpl in A; destruct (c_full c) eqn:F; try discriminate;
      inversion A; subst; simpl in IH; auto.
  Qed.
End Hist.

(* non-vacuity: a lock/unlock history and a producer/consumer history that do linearise *)
Example lock_history_ok :
  exists rs c', lin (mkCell true 0%Z) [(1%nat, CLock); (1%nat, CUnlock); (2%nat, CLock)] rs c'.
Proof. do 2 eexists. repeat (econstructor; [reflexivity|]). constructor. Qed.
Example prodcons_history_ok :
  exists rs c', lin (mkCell false 0%Z) [(1%nat, CWriteEF (Some 5%Z)); (2%nat, CReadFE); (1%nat, CWriteEF (Some 6%Z))] rs c'
                /\ ef_fe_only [(1%nat, CWriteEF (Some 5%Z)); (2%nat, CReadFE); (1%nat, CWriteEF (Some 6%Z))].
Proof. do 2 eexists. split; [repeat (econstructor; [reflexivity|]); constructor | repeat constructor]. Qed.
