"""Shared machinery for the /verif checks (see DESIGN.md section 2).

One check = build the real code from /repo's working tree, (re)build the Coq
obligations, run model and implementation on the same cases, decide.
"""
import fcntl
import hashlib
import json
import os
import re
import shutil
import subprocess
import sys
import tempfile
import time

VERIF = os.path.dirname(os.path.dirname(os.path.dirname(os.path.abspath(__file__))))
REPO = os.environ.get("VERIF_REPO", "/repo")
# evidence/ and replays/ of a run against /repo live in /verif; a run against a scratch tree (VERIF_REPO=<tree>,
# mutation testing only) writes them under /var/tmp so that it never overwrites what the registered checks wrote
OUT = VERIF if os.path.realpath(REPO) == "/repo" else os.environ.get(
    "VERIF_OUT", os.path.join("/var/tmp", "verif_out", os.path.basename(os.path.normpath(REPO))))
COQ = os.path.join(VERIF, "coq")
OCAML = os.path.join(VERIF, "ocaml")
HARNESS = os.path.join(VERIF, "harness", "c")
NCPU = os.cpu_count() or 4

# The 52 translation units of the configured in-tree build (src/Makefile.am with
# sherwood / donecount / feb barrier / base alloc / hwloc / shavit dictionary).
LIB_TUS = """
affinity/common.c affinity/hwloc.c alloc/base.c barrier/feb.c cacheline.c
ds/dictionary/dictionary_shavit.c ds/dictionary/hash.c ds/qarray.c ds/qdqueue.c
ds/qlfqueue.c ds/qpool.c ds/qswsrqueue.c envariables.c fastcontext/asm.S
fastcontext/context.c feb.c hashmap.c hazardptrs.c io.c locks.c mpool.c
patterns/allpairs.c patterns/wavefront.c performance.c qalloc.c qloop.c qthread.c
qtimer/gettime.c queue.c qutil.c shepherds.c sincs/donecount.c syncvar.c
syscalls/accept.c syscalls/connect.c syscalls/nanosleep.c syscalls/poll.c
syscalls/pread.c syscalls/pwrite.c syscalls/read.c syscalls/select.c
syscalls/sleep.c syscalls/system.c syscalls/user_defined.c syscalls/usleep.c
syscalls/wait4.c syscalls/write.c teams.c threadqueues/sherwood_threadqueues.c
tls.c touch.c workers.c
""".split()

# generated headers (config.h, qthread/common.h, qthread/qthread-int.h) normally live in /repo/include (ignored
# files of the in-tree configure run); committed copies are the fallback for a tree that lacks them
_GENH = os.path.join(VERIF, "harness", "gen_headers")
CPPFLAGS = ["-DHAVE_CONFIG_H", "-I%s/src" % REPO, "-I%s/include" % REPO,
            "-I%s/include/qthread" % REPO, "-idirafter", _GENH, "-idirafter", _GENH + "/qthread"]
CFLAGS = ["-O1", "-g", "-w", "-std=gnu99"]
LDLIBS = ["-lpthread", "-lhwloc", "-lm"]


class Splitmix:
    """The one PRNG every random choice of a check derives from."""

    def __init__(self, seed):
        self.s = seed & 0xFFFFFFFFFFFFFFFF

    def next(self):
        self.s = (self.s + 0x9E3779B97F4A7C15) & 0xFFFFFFFFFFFFFFFF
        z = self.s
        z = ((z ^ (z >> 30)) * 0xBF58476D1CE4E5B9) & 0xFFFFFFFFFFFFFFFF
        z = ((z ^ (z >> 27)) * 0x94D049BB133111EB) & 0xFFFFFFFFFFFFFFFF
        return z ^ (z >> 31)

    def below(self, n):
        return self.next() % n if n > 0 else 0

    def range(self, lo, hi):
        """inclusive"""
        return lo + self.below(hi - lo + 1)

    def choice(self, xs):
        return xs[self.below(len(xs))]

    def weighted(self, pairs):
        tot = sum(w for _, w in pairs)
        r = self.below(tot)
        for x, w in pairs:
            if r < w:
                return x
            r -= w
        return pairs[-1][0]

    def chance(self, num, den):
        return self.below(den) < num

    def shuffle(self, xs):
        xs = list(xs)
        for i in range(len(xs) - 1, 0, -1):
            j = self.below(i + 1)
            xs[i], xs[j] = xs[j], xs[i]
        return xs

    def fork(self):
        return Splitmix(self.next())


def sh(cmd, timeout=None, cwd=None, env=None, input=None, check=False):
    """run, return (rc, stdout, stderr); rc = -9 on timeout"""
    try:
        p = subprocess.run(cmd, cwd=cwd, env=env, input=input, timeout=timeout,
                           stdout=subprocess.PIPE, stderr=subprocess.PIPE,
                           universal_newlines=True, errors="replace")
        rc, out, err = p.returncode, p.stdout, p.stderr
    except subprocess.TimeoutExpired as e:
        def _s(x):
            if x is None:
                return ""
            return x if isinstance(x, str) else x.decode("utf-8", "replace")
        rc, out, err = -9, _s(e.stdout), _s(e.stderr)
    if check and rc != 0:
        raise RuntimeError("command failed (%s): %s\n%s\n%s" % (rc, " ".join(map(str, cmd)), out[-2000:], err[-4000:]))
    return rc, out, err


class BuildError(Exception):
    pass


class Ctx:
    def __init__(self, prop, tier, seed):
        self.prop = prop
        self.tier = tier
        self.seed = seed
        self.rng = Splitmix(seed * 1000003 + int(prop[1:]))
        self.t0 = time.time()
        self.scratch = tempfile.mkdtemp(prefix="qv_%s_" % prop, dir=os.environ.get("VERIF_SCRATCH", "/var/tmp"))
        self.objdir = None
        self.violations = []     # (signature, what, replay_path, no_input)
        self.known = []
        self.notes = []
        self.cov = {}
        self.assumptions = []
        self.obligations = 0
        self.discharged = 0
        self.trusted = []
        self.coq_failed = []     # names of theorem files that no longer check
        self._replay_n = 0

    # ---------- real code ----------
    def build_lib(self, extra_cflags=()):
        """compile every TU of the library from the working tree into scratch/obj"""
        if self.objdir:
            return self.objdir
        od = os.path.join(self.scratch, "obj")
        os.makedirs(od)
        mk = ["OBJS="]
        rules = []
        for tu in LIB_TUS:
            src = os.path.join(REPO, "src", tu)
            if not os.path.exists(src):
                raise BuildError("library source missing: " + src)
            o = tu.replace("/", "__").rsplit(".", 1)[0] + ".o"
            mk[0] += " " + o
            rules.append("%s: %s\n\t@gcc %s %s -c $< -o $@\n" % (
                o, src, " ".join(CPPFLAGS), " ".join(CFLAGS + list(extra_cflags))))
        with open(os.path.join(od, "Makefile"), "w") as f:
            f.write(mk[0] + "\nall: $(OBJS)\n" + "".join(rules))
        rc, out, err = sh(["make", "-j%d" % NCPU, "-s", "all"], cwd=od, timeout=600)
        if rc != 0:
            raise BuildError("library does not build from the working tree:\n" + err[-3000:])
        self.objdir = od
        return od

    def obj(self, tu):
        return os.path.join(self.objdir, tu.replace("/", "__").rsplit(".", 1)[0] + ".o")

    def link(self, name, sources, exclude=(), cflags=(), cxx=False, libs=()):
        """build harness `name` from harness sources (+ all lib objects except `exclude` TUs)"""
        self.build_lib()
        out = os.path.join(self.scratch, name)
        objs = [self.obj(t) for t in LIB_TUS if t not in exclude]
        srcs = [s if os.path.isabs(s) else os.path.join(HARNESS, s) for s in sources]
        cc = "g++" if cxx else "gcc"
        fl = CPPFLAGS + (["-O1", "-g", "-w"] if cxx else CFLAGS) + ["-I" + HARNESS, '-DREPO="%s"' % REPO] + list(cflags)
        rc, o, e = sh([cc] + fl + srcs + objs + ["-o", out] + LDLIBS + list(libs), timeout=600)
        if rc != 0:
            raise BuildError("harness %s does not build against the working tree:\n%s" % (name, e[-3000:]))
        return out

    # ---------- Coq ----------
    def coq_make(self, targets, timeout=1800):
        """make the given .vo targets (relative to coq/); returns (ok, log)"""
        with open(os.path.join(COQ, ".lock"), "w") as lk:
            fcntl.flock(lk, fcntl.LOCK_EX)
            sh([os.path.join(VERIF, "tools", "gen_coqproject.sh")], cwd=VERIF, check=True)
            rc, out, err = sh(["make", "-k", "-j%d" % NCPU] + list(targets), cwd=COQ, timeout=timeout)
        return rc == 0, out + err

    def coq_properties(self, relfile, timeout=900):
        """Compile theories/<relfile> (a Properties file: theorems closed by `exact`, each
        followed by Print Assumptions).  Returns dict with obligations/discharged/assumptions."""
        path = os.path.join(COQ, "theories", relfile)
        src = open(path).read()
        thms = re.findall(r"^\s*(?:Theorem|Corollary)\s+([A-Za-z0-9_']+)", src, re.M)
        deps_ok, log = self.coq_make(["theories/" + relfile.replace(".v", ".vo")], timeout=timeout)
        res = {"file": relfile, "theorems": thms, "ok": False, "assumptions": {}, "log": ""}
        self.obligations += len(thms)
        if not deps_ok:
            res["log"] = log[-4000:]
            self.coq_failed.append(relfile)
            return res
        # re-run coqc on the (small) property file to capture Print Assumptions
        rc, out, err = sh(["coqc", "-Q", "theories", "QV", "-o", os.path.join(self.scratch, os.path.basename(relfile) + "o"),
                           "theories/" + relfile], cwd=COQ, timeout=timeout)
        if rc != 0:
            res["log"] = (out + err)[-4000:]
            self.coq_failed.append(relfile)
            return res
        res["ok"] = True
        self.discharged += len(thms)
        # parse Print Assumptions blocks in order
        blocks = re.split(r"(?=Closed under the global context|Axioms:)", out)
        k = 0
        for b in blocks:
            if b.startswith("Closed under the global context"):
                if k < len(thms):
                    res["assumptions"][thms[k]] = []
                k += 1
            elif b.startswith("Axioms:"):
                names = re.findall(r"^([A-Za-z0-9_.']+)\s*:", b, re.M)
                if k < len(thms):
                    res["assumptions"][thms[k]] = names
                k += 1
        if self.tier == "thorough" and not os.environ.get("VERIF_NO_COQCHK"):
            # independent re-check of the compiled property file and everything it depends on
            mod = "QV." + relfile[:-2].replace("/", ".")
            rc2, o2, e2 = sh(["coqchk", "-o", "-silent", "-Q", "theories", "QV", mod], cwd=COQ, timeout=3000)
            summ = (o2 + e2)
            i = summ.find("CONTEXT SUMMARY")
            res["coqchk"] = {"rc": rc2, "summary": " ".join(summ[i:].split())[:1500] if i >= 0 else summ[-800:]}
            self.trusted.append("coqchk -o %s: rc=%d %s" % (mod, rc2, res["coqchk"]["summary"][:600]))
            if rc2 != 0:
                res["ok"] = False
                res["log"] = "coqchk failed: " + summ[-2000:]
                self.discharged -= len(thms)
                self.coq_failed.append(relfile + " (coqchk)")
        for t in thms:
            ax = res["assumptions"].get(t)
            self.trusted.append("%s: %s" % (t, "closed under the global context" if ax == [] else
                                            ("axioms " + ", ".join(ax) if ax else "Print Assumptions not captured")))
        return res

    # ---------- OCaml model driver ----------
    def model_driver(self, name):
        """path of ocaml/bin/<name> (built from extraction by setup/make); rebuild if stale"""
        with open(os.path.join(OCAML, ".lock"), "w") as lk:
            fcntl.flock(lk, fcntl.LOCK_EX)
            rc, out, err = sh(["make", "-s", "bin/" + name], cwd=OCAML, timeout=600)
        if rc != 0:
            raise BuildError("model driver %s does not build:\n%s" % (name, (out + err)[-3000:]))
        return os.path.join(OCAML, "bin", name)

    # ---------- verdicts ----------
    def replay_path(self, tag="case"):
        d = os.path.join(OUT, "replays", self.prop)
        os.makedirs(d, exist_ok=True)
        self._replay_n += 1
        return os.path.join(d, "%s_seed%d_%s_%d.json" % (self.tier, self.seed, tag, self._replay_n))

    def violation(self, signature, what, replay, no_input=False):
        """record a violation; `replay` is a json-able object written to replays/"""
        kf = match_known(self.prop, signature)
        if kf is not None:
            if kf["id"] not in [k["id"] for k in self.known]:
                self.known.append(kf)
            return False
        p = self.replay_path(re.sub(r"[^A-Za-z0-9]+", "_", signature)[:40])
        with open(p, "w") as f:
            json.dump({"property": self.prop, "signature": signature, "what": what,
                       "no_failing_input_found": no_input, "replay": replay}, f, indent=1, default=str)
        self.violations.append((signature, what, p, no_input))
        return True

    def finish(self, level="proof", explanation=None):
        if self.coq_failed and not self.violations:
            # safety net: a proof obligation that no longer checks is always reported, whatever the property module did
            self.violation("proof-broken", "theorems no longer check: %s" % ", ".join(self.coq_failed),
                           {"theorem_or_correspondence": self.coq_failed}, no_input=True)
        wall = time.time() - self.t0
        cov = dict(self.cov)
        LEVELS = ("exploration", "fault_enumeration", "model_checking", "proof", "translation_validation", "other")
        if level not in LEVELS:
            cov["level_detail"] = str(level)      # e.g. "partial": proof of the algorithm around an assumed primitive
            level = "proof"
        cov.setdefault("obligations", self.obligations)
        cov.setdefault("discharged", self.discharged)
        cov.setdefault("checker_cmd", "coqc (Coq 8.16.1) via make -C /verif/coq ; ./check %s --tier %s" % (self.prop, self.tier))
        cov.setdefault("trusted_base", self.trusted + [
            "Coq 8.16.1 kernel + vm_compute (no native_compute)",
            "extraction: ExtrOcamlBasic only; hand-written OCaml driver; ocamlfind ocamlopt 4.13.1",
            "correspondence harness (C drivers, gcc, Python orchestration); see DESIGN.md section 7"])
        cov.setdefault("evaluations", 0)
        cov.setdefault("distinct_nontrivial", 0)
        cov.setdefault("samples", [])
        cov["known_findings"] = [k["id"] for k in self.known]
        cov["coq_files_failed"] = self.coq_failed
        if explanation:
            cov["explanation"] = explanation
        ev = {"property_id": self.prop, "tier": self.tier, "seed": self.seed, "level": level,
              "coverage": cov, "assumptions": self.assumptions, "wall_s": round(wall, 2),
              "violations": len(self.violations), "notes": self.notes}
        os.makedirs(os.path.join(OUT, "evidence"), exist_ok=True)
        with open(os.path.join(OUT, "evidence", self.prop + ".json"), "w") as f:
            json.dump(ev, f, indent=1, default=str)
        for k in self.known:
            print("KNOWN-FINDING: property=%s %s" % (self.prop, k["what"]))
        for sig, what, p, no_input in self.violations:
            print("# %s: %s" % (sig, what))
            print("VIOLATION property=%s replay=%s%s" % (self.prop, p, " no-failing-input-found" if no_input else ""))
        sys.stdout.flush()
        return 1 if self.violations else 0

    def cleanup(self):
        if os.environ.get("VERIF_KEEP"):
            print("# scratch kept: " + self.scratch)
        else:
            shutil.rmtree(self.scratch, ignore_errors=True)


_KF = None


def known_findings():
    global _KF
    if _KF is None:
        p = os.path.join(VERIF, "known_findings.json")
        _KF = json.load(open(p))["findings"] if os.path.exists(p) else []
    return _KF


def match_known(prop, signature):
    for k in known_findings():
        if k["property"] == prop and k.get("status") == "open" and k["signature"] == signature:
            return k
    return None


def run_lines(exe, lines, timeout=120, env=None, args=()):
    """feed lines on stdin, return (rc, list of stdout lines, stderr)"""
    rc, out, err = sh([exe] + list(args), input="\n".join(lines) + "\n", timeout=timeout, env=env)
    return rc, out.splitlines(), err


def qenv(sheps=None, workers=None, stack=None, **kw):
    e = dict(os.environ)
    for k in list(e):
        if k.startswith("QT_") or k.startswith("QTHREAD_"):
            del e[k]
    if sheps is not None:
        e["QT_NUM_SHEPHERDS"] = str(sheps)
    if workers is not None:
        e["QT_NUM_WORKERS_PER_SHEPHERD"] = str(workers)
    if stack is not None:
        e["QT_STACK_SIZE"] = str(stack)
    # With the default CPU binding every worker of a shepherd is pinned to that shepherd's processing unit; on
    # configurations with more workers than CPUs per shepherd (2x2, 1x4, 3x3 ...) the busy-waiting scheduler then
    # starves the worker that holds the lock (runs of 0.1 s take up to minutes).  The harnesses study the library's
    # logic, not its binding policy: let the OS place the worker threads (override with QT_AFFINITY=... if needed).
    e.setdefault("QT_AFFINITY", "0")
    for k, v in kw.items():
        e[k] = str(v)
    return e


def first_diff(a, b):
    for i, (x, y) in enumerate(zip(a, b)):
        if x != y:
            return i
    if len(a) != len(b):
        return min(len(a), len(b))
    return None


def ddmin(items, fails, budget=200):
    """delta-debugging: smallest sub-list of items for which fails(sub) is True"""
    n = 2
    items = list(items)
    calls = 0
    while len(items) >= 2 and calls < budget:
        chunk = max(1, len(items) // n)
        reduced = False
        for i in range(0, len(items), chunk):
            cand = items[:i] + items[i + chunk:]
            calls += 1
            if cand and fails(cand):
                items = cand
                n = max(n - 1, 2)
                reduced = True
                break
            if calls >= budget:
                break
        if not reduced:
            if chunk == 1:
                break
            n = min(n * 2, len(items))
    return items
