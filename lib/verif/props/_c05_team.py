"""C05 extension T: team completion at the granularity of src/teams.c.
Model: coq/theories/Kernel/TeamFinish.v (micro-step machine over the operations of qt_internal_teamfinish / team_new / the
watcher / the team part of qthread_spawn / the delivery in qthread_wrapper on the two sincs, the parent's eureka word, the team
structure and the return location) + TeamFinishAccept.v (event acceptor); theorems: Properties/Properties_C05_team.v.
Tie (M4, acceptor): harness/c/c05_team.c runs real team trees with gates; white-box includes of the working tree's qthread.c,
teams.c and sincs/donecount.c log every qt_sinc_expect / submit / wait / reset / destroy on a team sinc, FREE_TEAM, the watcher
words, the EXIT signal, qt_internal_team_new, the enqueue of a new task and the delivery to the return location (one global
ticket); the extracted machine must accept the logged order event by event (each event = the NEXT operation of its actor's
program, enabled) and end with every task done.  This pins the order of the leader's two waits, the registration points
(expect before enqueue, also for preconditioned members) and 'deliver after teamfinish' in the real code on every run.
Oracle (searches the failing input when the acceptor refuses): on the implementation's own log -- a founder's return location
is filled only after every spawned task of its team and subteams returned from its function; every location filled once; no
operation on a destroyed sinc / freed team; the run completes and every value is right."""
import json
import os
from concurrent.futures import ThreadPoolExecutor
from .. import core

MEMBER = "mMp"


# ------------------------------------------------------------------ generator
def gen_tree(rng, quick):
    maxn = 12 if quick else 22
    fam = rng.choice(["random", "random", "late-sub", "late-sub", "late-deep", "precond-late", "wide", "chain"])
    nodes = [dict(id=0, parent=-1, kind=rng.choice("ttu"), depth=0)]

    def add(p, kind):
        n = dict(id=len(nodes), parent=p, kind=kind, depth=nodes[p]["depth"] + 1)
        nodes.append(n)
        return n["id"]
    if fam == "random":
        frontier = [0]
        while frontier and len(nodes) < maxn:
            p = frontier.pop(0)
            if nodes[p]["depth"] >= 3:
                continue
            for _ in range(rng.range(0 if p else 1, 3)):
                if len(nodes) >= maxn:
                    break
                k = rng.choice("mmMMsspp")
                i = add(p, k)
                if k != "p":
                    frontier.append(i)
    elif fam == "late-sub":
        # a live (late) member founds a subteam after the leader's function returned; optionally inside a subteam
        base = 0
        if rng.chance(1, 2):
            base = add(0, "s")
        for _ in range(rng.range(0, 2)):
            add(base, rng.choice("ms"))
        lm = add(base, "M")
        s = add(lm, "s")
        for _ in range(rng.range(0, 2)):
            add(s, rng.choice("mMp"))
        if rng.chance(1, 2):
            add(lm, rng.choice("mp"))
    elif fam == "late-deep":
        # late members of SUBteams founding subteams, two levels
        s1 = add(0, "s")
        m1 = add(s1, "M")
        s2 = add(m1, "s")
        m2 = add(s2, "M")
        s3 = add(m2, "s")
        if rng.chance(1, 2):
            add(s3, "m")
        if rng.chance(1, 2):
            add(0, "m")
    elif fam == "precond-late":
        # precondition members under late members (registered at the spawn, runnable much later)
        base = 0 if rng.chance(1, 2) else add(0, "s")
        lm = add(base, "M")
        for _ in range(rng.range(1, 3)):
            add(lm, "p")
        if rng.chance(1, 2):
            s = add(lm, "s")
            add(s, "p")
        add(base, "p")
    elif fam == "wide":
        for _ in range(rng.range(3, 6)):
            k = rng.choice("mmsp")
            i = add(0, k)
            if k == "s" and rng.chance(1, 2):
                add(i, rng.choice("mp"))
    else:   # chain of subteams, each with one member
        p = 0
        for _ in range(rng.range(2, 4)):
            add(p, rng.choice("mM"))
            p = add(p, "s")
    kind = {n["id"]: n["kind"] for n in nodes}
    par = {n["id"]: n["parent"] for n in nodes}
    has_kids = {n["parent"] for n in nodes}
    for n in nodes:
        if n["kind"] == "M" and n["id"] not in has_kids:
            n["kind"] = kind[n["id"]] = "m"
        if n["kind"] == "p" and n["id"] in has_kids:
            n["kind"] = kind[n["id"]] = "m"

    def late_anc(i):
        p = par[i]
        while p >= 0:
            if kind[p] == "M":
                return p
            p = par[p]
        return -1
    order = rng.shuffle([n["id"] for n in nodes])
    c = rng.below(5)
    if c == 0:      # founders first: every leader's function returns while its members live
        order = sorted(order, key=lambda i: (kind[i] in MEMBER, rng.below(100)))
    elif c == 1:    # deepest first
        order = sorted(order, key=lambda i: (-nodes[i]["depth"], rng.below(100)))
    elif c == 2:    # founders first, then shallow to deep (late subteams outlive everything above them)
        order = sorted(order, key=lambda i: (kind[i] in MEMBER, nodes[i]["depth"], rng.below(100)))
    moved = True
    while moved:
        moved = False
        for i in list(order):
            a = late_anc(i)
            if a >= 0 and order.index(i) < order.index(a):
                order.remove(i)
                order.insert(order.index(a) + 1, i)
                moved = True
    pm = [n["id"] for n in nodes if n["kind"] == "p"]
    if pm and rng.chance(1, 2):
        keep = [i for i in order if i not in pm]
        order = keep + rng.shuffle(pm)
    for i in pm:
        k = order.index(i)
        a = late_anc(i)
        lo = order.index(a) + 1 if a >= 0 else 0
        order.insert(rng.choice([k, k, rng.range(lo, k)]), -i)
    return dict(family=fam, nodes=[dict(id=n["id"], parent=n["parent"], kind=n["kind"]) for n in nodes], order=order)


def case_lines(c):
    return ["N %d %d %s" % (n["id"], n["parent"], n["kind"]) for n in c["nodes"]] + ["O " + " ".join(map(str, c["order"]))]


def load_corpus():
    p = os.path.join(core.VERIF, "corpus", "C05", "team_cases.json")
    return json.load(open(p)) if os.path.exists(p) else []


def split_out(cases, lines):
    res, pos = [], 0
    for _ in cases:
        if pos >= len(lines):
            res.append(None)
            continue
        cur = []
        while pos < len(lines) and lines[pos] != "E" and not lines[pos].startswith("TIMEOUT"):
            cur.append(lines[pos]); pos += 1
        if pos < len(lines) and lines[pos] == "E":
            cur.append("E"); pos += 1
            res.append(cur)
        else:
            res.append(cur + ["TIMEOUT"]); pos = len(lines)
    return res


# ------------------------------------------------------------------ property oracle on the implementation's own log
def oracle(c, il):
    """-> None (accepted) or (class, reason)"""
    if il is None:
        return ("norun", "the case was not run")
    kind = {n["id"]: n["kind"] for n in c["nodes"]}
    par = {n["id"]: n["parent"] for n in c["nodes"]}
    kids = {}
    for n in c["nodes"]:
        kids.setdefault(n["parent"], []).append(n["id"])

    def desc(i):
        out = []
        for k in kids.get(i, []):
            out += [k] + desc(k)
        return out
    spawned, returned, filled, freed = set(), set(), {}, set()
    for l in il:
        p = l.split()
        if not p or p[0] != "e":
            continue
        actor, k = p[1], p[2]
        a, b, cc = int(p[3]), int(p[4]), int(p[5])
        if k == "spawn":
            spawned.add(a)
        elif k == "ret" and actor[0] == "n":
            returned.add(int(actor[1:]))
        elif k in ("expect", "submit", "wait", "reset", "destroy", "sigb") and cc != 0:
            return ("use-after-free", "%s: qt_sinc_%s / signal on a sinc or team word that was already destroyed / freed (team ordinal %d)" % (actor, k, a))
        elif k in ("free", "wgot", "wstart", "lwaitw") and b != 0:
            return ("use-after-free", "%s: %s on a team structure that was already freed (team ordinal %d)" % (actor, k, a))
        elif k == "retfill":
            filled[a] = filled.get(a, 0) + 1
            if filled[a] > 1:
                return ("filled-twice", "the return location of node %d was filled twice" % a)
            if a not in returned:
                return ("fill-before-return", "the return location of node %d was filled before its function returned" % a)
            if kind.get(a) not in MEMBER:
                miss = [j for j in desc(a) if j in spawned and j not in returned]
                if miss:
                    return ("ret-before-members", "the return location of founder %d was filled while tasks %s of its team / subteams had not "
                                                  "returned from their functions" % (a, miss))
    if any(l.startswith("CRASH") for l in il):
        return ("crash", "the runtime died inside the tree (%s)" % [l for l in il if l.startswith("CRASH")][0])
    if any(l.startswith("TIMEOUT") for l in il):
        return ("hang", "the tree did not complete (watchdog): a wait of the finish protocol never returned")
    if "E" not in il:
        return ("crash", "the run ended without completing the tree")
    for l in il:
        if l.startswith("J"):
            for x in l.split()[1:]:
                i, v = x.split(":")
                if v != str(100 + int(i)):
                    return ("value", "node %s delivered %s" % (i, v))
    for n in c["nodes"]:
        if filled.get(n["id"], 0) != 1:
            return ("not-filled", "the return location of node %d was filled %d times" % (n["id"], filled.get(n["id"], 0)))
    return None


def run_config(exe, drv, sheps, workers, cases, perturb):
    script = []
    for c in cases:
        script += case_lines(c)
    env = core.qenv(sheps, workers, stack=65536)
    if perturb:
        env["C05T_PERTURB"] = str(perturb)
    rc, out, err = core.run_lines(exe, script + ["Q"], timeout=1500, env=env)
    if not out or not out[0].startswith("H "):
        raise core.BuildError("c05_team harness did not start on %dx%d: rc=%s %s" % (sheps, workers, rc, err[-500:]))
    impl = split_out(cases, out[1:])
    k = next((i for i, x in enumerate(impl) if x is None or "TIMEOUT" in x), None)
    if k is not None:
        if impl[k] is None:
            impl[k] = ["TIMEOUT"]
        if rc not in (-9, 3):        # the process died (signal / assertion) instead of running into the watchdog
            impl[k] = [l for l in impl[k] if l != "TIMEOUT"] + ["CRASH rc=%s" % rc]
        # the process stopped inside case k: run (a bounded number of) the later cases in processes of their own
        for j in range(k + 1, len(cases)):
            if j > k + 6:
                impl[j] = None
                continue
            rcj, oj, _ = core.run_lines(exe, case_lines(cases[j]) + ["Q"], timeout=400, env=env)
            rj = split_out([cases[j]], oj[1:])
            impl[j] = rj[0] if rj[0] is not None else ["TIMEOUT"]
            if "TIMEOUT" in impl[j] and rcj not in (-9, 3):
                impl[j] = [l for l in impl[j] if l != "TIMEOUT"] + ["CRASH rc=%s" % rcj]
    # the acceptor
    feed, ran = [], []
    for c, il in zip(cases, impl):
        if il is None:
            continue
        ran.append(c)
        feed += [l for l in case_lines(c) if l.startswith("N")] + il
    rc2, mout, merr = core.run_lines(drv, feed, timeout=900)
    if len(mout) != len(ran):
        raise core.BuildError("c05team driver failed: rc=%s, %d answers for %d trees; %s" % (rc2, len(mout), len(ran), merr[-400:]))
    verdicts, it = [], iter(mout)
    for il in impl:
        verdicts.append(None if il is None else next(it))
    return impl, verdicts


def run_team(ctx, quick):
    rng = ctx.rng.fork()
    pr = ctx.coq_properties("Properties/Properties_C05_team.v")
    ok, log = ctx.coq_make(["theories/Kernel/ExtractTeam.vo"])
    if not ok:
        raise core.BuildError("Kernel/ExtractTeam.v does not compile:\n" + log[-2000:])
    exe = ctx.link("c05_team", ["c05_team.c", "c05_team_wb_qthread.c", "c05_team_wb_teams.c", "c05_team_wb_sinc.c"],
                   exclude=["qthread.c", "teams.c", "sincs/donecount.c"])
    drv = ctx.model_driver("c05team_driver")
    configs = [(1, 1), (2, 2), (4, 1)] if quick else [(1, 1), (2, 2), (4, 1), (1, 4), (4, 4), (3, 2)]
    ntree = 26 if quick else 600
    corpus = load_corpus()
    jobs = []
    for (sheps, workers) in configs:
        r2 = rng.fork()
        cases = [dict(c) for c in corpus] + [gen_tree(r2, quick) for _ in range(ntree)]
        jobs.append((sheps, workers, cases, 0 if sheps * workers == 1 else 1 + r2.below(1 << 30)))
    with ThreadPoolExecutor(max_workers=3) as pool:
        futs = [pool.submit(run_config, exe, drv, s, w, cs, p) for (s, w, cs, p) in jobs]
        results = [f.result() for f in futs]
    evals = events = ops = 0
    rejected, ofail, samples = [], [], []
    nontrivial = set()
    hist = {}
    for (sheps, workers, cases, perturb), (impl, verdicts) in zip(jobs, results):
        for c, il, v in zip(cases, impl, verdicts):
            if il is None:
                continue
            evals += 1
            hist[c.get("family", "corpus")] = hist.get(c.get("family", "corpus"), 0) + 1
            cd = dict(config=[sheps, workers], perturb=perturb, tree=c, script=case_lines(c))
            if v.startswith("OK"):
                w = v.split()
                events += int(w[1]); ops += int(w[4])
                if int(w[2]) >= 2 and any(n["kind"] in "Mp" for n in c["nodes"]):
                    nontrivial.add(json.dumps(c, sort_keys=True))
                if len(samples) < 3 and int(w[2]) >= 3:
                    samples.append(dict(config=[sheps, workers], nodes=c["nodes"], order=c["order"], events=int(w[1]), teams=int(w[2]),
                                        members=int(w[3]), machine_steps=int(w[4])))
            else:
                rejected.append((v, dict(cd, log=il[-60:])))
            o = oracle(c, il)
            if o:
                ofail.append((o, dict(cd, log=il[-60:])))
    ctx.cov["team_finish"] = {
        "evaluations": evals, "events_accepted": events, "machine_steps": ops, "distinct_nontrivial": len(nontrivial),
        "rule": "one evaluation = one team tree run on the real runtime whose complete event log (sinc operations, team_new / FREE_TEAM, watcher "
                "protocol, enqueue, function start / return, delivery) the extracted machine accepted event by event, with all tasks done at the "
                "end; non-trivial = at least two teams and a late member or a precondition member",
        "families": hist, "configs": configs, "rejected": len(rejected), "oracle_rejections": len(ofail), "samples": samples}
    ctx.cov["evaluations"] = ctx.cov.get("evaluations", 0) + evals
    ctx.cov["distinct_nontrivial"] = ctx.cov.get("distinct_nontrivial", 0) + len(nontrivial)
    ctx.cov["traces_validated_against_impl"] = ctx.cov.get("traces_validated_against_impl", 0) + evals - len(rejected)
    ctx.assumptions += ["team finish machine: qt_sinc_expect / submit / wait / reset / destroy are atomic counter operations, wait enabled iff the "
                        "counter is 0 (the sinc implementation is C10); FEB words of the watcher protocol are atomic cells (C01); sequential "
                        "consistency; eureka-less build (QTHREAD_USE_EUREKAS undefined), so a watcher only ever receives EXIT signals",
                        "event log: release-type operations are logged before, acquire-type operations after they take effect (one global ticket); "
                        "the machine accepts an order in which the operations can have taken effect"]
    if not rejected and not ofail and pr["ok"]:
        return
    rejected.sort(key=lambda x: not x[0].startswith("REJECT"))
    if rejected:
        what = "team finish: the machine refuses the real code's event order (%d trees), first: %s" % (len(rejected), rejected[0][0][:400])
    elif not pr["ok"]:
        what = "theorems in %s no longer check" % pr["file"]
    else:
        what = "team finish: machine accepts, property oracle rejects (%d trees)" % len(ofail)
    if ofail:
        ofail.sort(key=lambda x: (x[0][0] in ("crash", "hang", "norun"), len(x[1]["tree"]["nodes"])))   # the most telling one first
        (cls, why), cd = ofail[0]
        ctx.violation("team:" + cls, what + "; failing input: " + why,
                      {"failing_input": cd, "reason": why, "first_rejection": rejected[0] if rejected else None, "coq_log": pr["log"][-1500:]})
    else:
        ctx.violation("team-broken", what, {"theorem_or_correspondence": "real teams.c / qthread_spawn event order != Kernel/TeamFinish machine"
                                            if rejected else pr["file"], "first_rejection": rejected[0] if rejected else None,
                                            "coq_log": pr["log"][-1500:]}, no_input=True)
