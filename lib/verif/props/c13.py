"""C13 data-parallel utilities: reductions (qloop.c loopaccum + PARALLEL_FUNC kernels, qutil.c chained chunks),
parallel sorts (qutil_qsort, qutil_aligned_qsort, qt_qsort, qutil_mergesort) and qt_allpairs.
Model: coq/theories/Util/{Reduce,Sort,Allpairs}.v; theorems: Properties/Properties_C13.v.
Tie: M1/M4 differential -- the extracted model (ocaml/bin/c13_driver) and the real code (harness/c/c13_util.c,
white-box include of patterns/allpairs.c) run on the same generated arrays; results must agree bit for bit
(float sums: the model mirrors the code's association order); the allpairs event log must be accepted by the
extracted trace acceptor and every pair must have been processed exactly once."""
import json
import os
import time
from concurrent.futures import ThreadPoolExecutor
from .. import core
from . import _c13_part
from . import _c13_seq

OPS = ["sum", "prod", "max", "min"]
TYS = ["u", "i", "d"]
PATNAMES = {0: "random", 1: "sorted", 2: "reversed", 3: "constant", 4: "two-values", 5: "extremes", 6: "16-values",
            7: "small-random", 9: "mostly-maximum", 10: "strided-two-values", 11: "mixed-sign-extreme-in-first-chunk",
            12: "mixed-sign-extreme-in-middle", 13: "mixed-sign-extreme-at-end", 14: "sorted-one-swap", 15: "sorted-last-smallest"}
SAFE_SORT_PATS = [0, 0, 1, 2, 5, 6, 7, 3, 4, 9]  # incl. constant / two values / mostly the maximum (pivot = maximum rule)
RISKY_SORT_PATS = [3, 4, 9]
LOOP_CHUNK = 10000
FUEL, WFUEL = 120, 64


def lengths_for(w):
    s = {1, 2, 3, 9, 10, 11, 9999, 10000, 10001, 20001, 20002, 40001}
    for x in (w - 1, w, w + 1):
        if x >= 1:
            s.add(x)
    return sorted(s)


RETRIED = []      # cases that hit the watchdog once and were re-run alone (reported in the evidence, never silent)


def run_batch(exe, env, lines, per_case_timeout=1800, watchdog=None, max_fail=None, retry=True):
    """run the harness over `lines`; a crash or watchdog ends the process: the case at that position gets
    'CRASH rc'/'TIMEOUT' and the rest is run in a fresh process.  returns (header, [result line per input line])"""
    results = []
    header = None
    pos = 0
    guard = 0
    nfail = 0
    while pos < len(lines) and guard < 40:
        guard += 1
        if max_fail is not None and nfail >= max_fail:
            break
        chunk = lines[pos:]
        e2 = dict(env)
        if watchdog:
            e2["C13_AP_WATCHDOG"] = str(watchdog)
        rc, out, err = core.run_lines(exe, chunk + ["Q"], timeout=per_case_timeout + 2 * len(chunk), env=e2)
        if not out or not out[0].startswith("H "):
            raise core.BuildError("c13 harness did not start: rc=%s %s" % (rc, err[-400:]))
        header = out[0].split()
        body = out[1:]
        done = 0
        for l in body:
            if l == "TIMEOUT":
                break
            results.append(l)
            done += 1
        pos += done
        if pos < len(lines) and done < len(chunk):
            res = "TIMEOUT" if (body and body[-1] == "TIMEOUT") or rc == -9 else "CRASH rc=%s" % rc
            if res == "TIMEOUT" and retry:
                # judge a watchdog expiry only after the case has been re-run alone (fresh process, same CPU-time budget)
                _, again = run_batch(exe, env, [lines[pos]], per_case_timeout=per_case_timeout, watchdog=watchdog, retry=False)
                RETRIED.append({"command": lines[pos], "first": "TIMEOUT", "alone": again[0][:60]})
                res = again[0]
            results.append(res)
            pos += 1
            if res.startswith(("TIMEOUT", "CRASH")):
                nfail += 1
    while len(results) < len(lines):
        results.append("SKIPPED" if max_fail is not None and nfail >= max_fail else "CRASH not-run")
    return header, results


def red_cases(rng, w, quick):
    """(impl flavour, model kind, op, ty, pat, n, seed, start, stop, checkfeb)"""
    cases = []
    for n in lengths_for(w):
        # qt_<ty>_<op>: PARALLEL_FUNC -> qt_loopaccum_balance_inner(0, n, SYNCVAR_T)
        combos = [(ty, op) for ty in TYS for op in OPS]
        if quick:       # every syncvar-flavour call costs ~0.1 s of wake-up latency on multi-worker configurations
            combos = rng.shuffle(combos)[:3 if w > 1 else 12]
        for (ty, op) in combos:
            pat = rng.choice([0, 0, 3, 4, 5, 6, 7, 1, 2])
            cases.append(("api", "la", op, ty, pat, n, rng.next() >> 1, 0, n, 1 if rng.chance(1, 5) else 0))
        # explicit flavours over a sub-range [start, start+n) of a longer array
        for fl in ("sv", "dc", "sinc", "plain"):
            if quick and w > 1 and fl != "dc" and n not in (1, 2, w - 1, w, w + 1) and rng.chance(2, 3):
                continue
            for _ in range(1 if quick else 3):
                ty, op = rng.choice(TYS), rng.choice(OPS)
                if fl == "sinc" and ty == "d" and op in ("sum", "prod"):
                    ty = rng.choice(["u", "i"])       # slot order is schedule dependent: exact only for associative-commutative operators
                start = rng.below(6)
                pat = rng.choice([0, 3, 4, 5, 6, 7])
                cases.append((fl, "sinc" if fl == "sinc" else "la", op, ty, pat, n + start + rng.below(3), rng.next() >> 1, start, start + n, 0))
    return cases


def signed_red_cases(fl):
    """always run: every signed reduction (int and double, all four operators) on mixed-sign arrays with a unique maximum and a
    unique minimum (+-inf for doubles) in the first chunk / the middle / the last elements, lengths around the 10000-element chunks"""
    kind = "qutil" if fl == "qutil" else "la"
    cs = []
    for n in (10001, 20000, 20001, 25000, 100003):
        for ty in ("i", "d"):
            for op in OPS:
                for pat in (11, 12, 13):
                    cs.append((fl, kind, op, ty, pat, n, 1000 + n % 97 + (7 if op in ("max", "sum") else 8), 0, n, 0))
    return cs


def pinned_sort_cases(which_list, quick):
    """always run: already sorted / reversed / sorted with one swap / sorted except the last element, above the partition threshold"""
    cs = []
    for which in which_list:
        for n in (20002, 30011, 50000, 100003):
            pats = (1, 14, 15) if which == "merge" else (1, 2, 14, 15)           # reversed mergesort is quadratic (model and code)
            if quick and n == 100003:
                pats = (1,) if which == "merge" else (1, 2)
            for pat in pats:
                cs.append((which, pat, n, 500 + n % 89))
    return cs


def qutil_red_cases(rng, quick):
    cases = []
    for n in sorted(set(lengths_for(4)) | {19999, 20000, 30000, 30001}):
        for ty in TYS:
            for op in OPS:
                if quick and n >= 9999 and rng.chance(1, 2):
                    continue
                pat = rng.choice([0, 0, 3, 4, 5, 6, 7, 1, 2])
                cases.append(("qutil", "qutil", op, ty, pat, n, rng.next() >> 1, 0, n, 1 if rng.chance(1, 5) else 0))
    return cases


def sort_cases(rng, quick):
    """(which, pat, n, seed)"""
    cases = []
    base = [1, 2, 3, 9, 10, 11, 19, 20, 21, 39, 40, 41, 9999, 10000, 10001, 20001, 20002, 20003, 40001]
    for which in ("qutil", "aligned", "qt"):
        for n in base:
            k = 1 if (quick and n > 9999) else 2
            for _ in range(k):
                cases.append((which, rng.choice(SAFE_SORT_PATS), n, rng.next() >> 1))
            if n <= 10000:       # below the cutoff every pattern terminates
                cases.append((which, rng.choice(RISKY_SORT_PATS), n, rng.next() >> 1))
        if not quick:
            for _ in range(6):
                cases.append((which, rng.choice(SAFE_SORT_PATS), rng.range(10001, 70000), rng.next() >> 1))
    # mergesort: the in-place merge is quadratic in the model too: model lengths stay small
    for n in [1, 2, 3, 9, 10, 11, 19, 20, 21, 29, 30, 31, 39, 40, 41, 79, 80, 81, 100, 161, 500, 1000] + ([] if quick else [2561, 3000]):
        for _ in range(1 if quick else 2):
            cases.append(("merge", rng.choice([0, 1, 2, 3, 4, 5, 6, 7, 9]), n, rng.next() >> 1))
    return cases


def risky_sort_cases(rng, quick):
    """inputs of open non-termination findings (none at present)"""
    return []          # no open non-termination finding: every input must return (model and implementation)


def pivot_rule_cases(rng, quick):
    """constant / mostly-maximum / two-valued inputs above the cutoff (hung before the pivot-is-maximum fix) and the strided
    two-valued inputs on which the partition loop repeated the same pass for ever (before the no-progress exit)"""
    cs = [("qutil", 3, 10001), ("aligned", 3, 10001), ("qt", 3, 10001), ("qutil", 9, 10001), ("aligned", 4, 20003), ("qt", 9, 15000),
          ("qutil", 10, 40058), ("aligned", 10, 40058)]          # pattern 10: a partition pass that moves neither wall
    if not quick:
        cs += [("qutil", 3, 40001), ("aligned", 9, 25000), ("qt", 4, 30001), ("qutil", 4, 40001), ("qutil", 10, 40061), ("aligned", 10, 40112),
               ("qt", 10, 40058)]
    return [(w, p, n, rng.next() >> 1) for (w, p, n) in cs]


def ap_cases(rng, quick):
    """(n1, n2, unit bytes, seg_pages, delay)"""
    cs = [(1, 1, 8, 1, 0), (5, 7, 1024, 1, 0), (20, 30, 1024, 1, 3), (9, 4, 2048, 1, 2), (600, 3, 8, 1, 0), (3, 1030, 8, 1, 4)]
    for _ in range(2 if quick else 8):
        unit = rng.choice([512, 1024, 2048, 4096])
        cs.append((rng.range(1, 40), rng.range(1, 40), unit, rng.choice([1, 1, 2]), rng.choice([0, 0, 2, 5])))
    return cs


def model_sort_cmd(c, ns, cacheline):
    which, pat, n, seed = c
    if which == "qt":
        return "sort qt %d %d %d %d 0 %d %d" % (pat, n, seed, ns, FUEL, WFUEL)
    if which == "merge":
        return "sort merge %d %d %d 0 0 0 0" % (pat, n, seed)
    return "sort %s %d %d %d %d %d %d %d" % (which, pat, n, seed, cacheline, LOOP_CHUNK, FUEL, WFUEL)


def desc_red(c, ns, nw):
    fl, kind, op, ty, pat, n, seed, start, stop, feb = c
    fn = {"api": "qt_%s_%s" % ({"u": "uint", "i": "int", "d": "double"}[ty], op),
          "qutil": "qutil_%s_%s" % ({"u": "uint", "i": "int", "d": "double"}[ty], "mult" if op == "prod" else op),
          "sv": "qt_loopaccum_balance_sv", "dc": "qt_loopaccum_balance_dc", "sinc": "qt_loopaccum_balance_sinc",
          "plain": "qt_loopaccum_balance"}[fl]
    return {"function": fn, "operator": op, "type": ty, "array": {"pattern": PATNAMES.get(pat, pat), "pattern_id": pat, "length": n, "seed": seed},
            "range": [start, stop], "checkfeb": feb, "config": [ns, nw],
            "harness_command": "red %s %s %s %d %d %d %d %d %d" % (fl, op, ty, pat, n, seed, start, stop, feb)}


def desc_sort(c, ns, nw):
    which, pat, n, seed = c
    fn = {"qutil": "qutil_qsort", "aligned": "qutil_aligned_qsort", "qt": "qt_qsort", "merge": "qutil_mergesort"}[which]
    return {"function": fn, "array": {"pattern": PATNAMES.get(pat, pat), "pattern_id": pat, "length": n, "seed": seed},
            "config": [ns, nw], "harness_command": "sort %s %d %d %d 60" % (which, pat, n, seed)}


def load_corpus():
    p = os.path.join(core.VERIF, "corpus", "C13", "cases.json")
    if os.path.exists(p):
        return json.load(open(p))
    return {"red": [], "sort": [], "risky": [], "ap": []}


def run(ctx):
    rng = ctx.rng
    quick = ctx.tier == "quick"
    pr = ctx.coq_properties("Properties/Properties_C13.v")
    exe = ctx.link("c13_util", ["c13_util.c"], exclude=["patterns/allpairs.c"])
    drv = ctx.model_driver("c13_driver")
    configs = [(1, 1), (2, 2), (4, 1), (3, 2), (1, 4)] if quick else [(1, 1), (2, 2), (4, 1), (3, 2), (1, 4), (2, 1), (5, 1), (3, 3), (8, 1)]
    corpus = load_corpus()
    mism = []          # correspondence failures: (kind, case description)
    ofail = []         # oracle failures on the implementation: (signature or None, why, case description)
    evals = 0
    nontrivial = set()
    samples = []
    hist = {}
    model_cache = {}

    prof = {}

    def tick(k, t0):
        prof[k] = round(prof.get(k, 0) + time.time() - t0, 2)

    def model(cmds):
        need = [c for c in dict.fromkeys(cmds) if c not in model_cache]
        if need:
            t0 = time.time()
            nproc = 3 if len(need) >= 30 else 1          # the model is sequential OCaml: spread long batches over 3 processes
            parts = [need[k::nproc] for k in range(nproc)]
            with ThreadPoolExecutor(max_workers=nproc) as ex:
                res = list(ex.map(lambda part: core.run_lines(drv, part, timeout=1500), parts))
            out = [None] * len(need)
            for k, (rc, o, err) in enumerate(res):
                if len(o) != len(parts[k]):
                    raise core.BuildError("c13 model driver failed: rc=%s, %d of %d answers; %s" % (rc, len(o), len(parts[k]), err[-300:]))
                out[k::nproc] = o
            tick("model:" + need[0].split()[0], t0)
            for c, o in zip(need, out):
                model_cache[c] = o
        return [model_cache[c] for c in cmds]

    sorts = [tuple(c) for c in corpus.get("sort", [])] + pivot_rule_cases(rng.fork(), quick) + sort_cases(rng.fork(), quick)
    npin = len(corpus.get("sort", [])) + len(pivot_rule_cases(core.Splitmix(1), quick))
    risky = [tuple(c) for c in corpus.get("risky", [])] + risky_sort_cases(rng.fork(), quick)
    qreds = [tuple(c) for c in corpus.get("qutil_red", [])] + qutil_red_cases(rng.fork(), quick)
    aps = [tuple(c) for c in corpus.get("ap", [])] + ap_cases(rng.fork(), quick)
    hyp_evals = hyp_entered = 0
    hang_budget = 3 if quick else 8
    hangs_seen = []          # known-class cases where model (OutOfFuel) and implementation (watchdog) agree

    for ci, (ns, nw) in enumerate(configs):
        # QT_AFFINITY=0: with the default binding qthreads pins all workers of a shepherd to ONE cpu on this machine's
        # topology; its busy-waiting scheduler then makes the same call take anything from 0.05 s to minutes
        env = core.qenv(ns, nw, stack=65536, QT_AFFINITY=0)
        w = ns * nw
        # ------------------------------------------------------------ reductions
        reds = [tuple(c) for c in corpus.get("red", [])] + red_cases(rng.fork(), w, quick) + (qreds if ci < (2 if quick else 99) or ci == 3 else qreds[::7])
        if ci in (0, 1) or not quick:
            reds += signed_red_cases("qutil")
        if ci == 0 or not quick:
            reds += signed_red_cases("api")
        elif ci == 1:
            reds += [c for c in signed_red_cases("api") if c[2] in ("max", "min") and c[4] == 12 and c[5] == 25000]
        ilines = ["red %s %s %s %d %d %d %d %d %d" % (fl, op, ty, pat, n, seed, start, stop, feb)
                  for (fl, kind, op, ty, pat, n, seed, start, stop, feb) in reds]
        t0 = time.time()
        header, iout = run_batch(exe, env, ilines)
        tick("impl:red", t0)
        if int(header[1]) != ns or int(header[2]) != w:
            raise core.BuildError("runtime reports %s shepherds / %s workers, asked %dx%d" % (header[1], header[2], ns, nw))
        cacheline = int(header[3])
        mout = model(["red %s %s %s %d %d %d %d %d %d %d" % (kind, op, ty, pat, n, seed, w, start, stop, LOOP_CHUNK)
                      for (fl, kind, op, ty, pat, n, seed, start, stop, feb) in reds])
        for c, io, mo in zip(reds, iout, mout):
            evals += 1
            fl, kind, op, ty, pat, n, seed, start, stop, feb = c
            d = desc_red(c, ns, nw)
            hist["red:" + fl] = hist.get("red:" + fl, 0) + 1
            if (kind != "qutil" and min(w, stop - start) >= 2) or (kind == "qutil" and n > LOOP_CHUNK):
                nontrivial.add(("red",) + c[:9] + (w if kind != "qutil" else 0,))
            p = io.split()
            if p[0] != "r":
                mism.append(("reduction-" + p[0].lower(), dict(d, impl=io, model=mo)))
                ofail.append((None, "%s did not return: %s" % (d["function"], io), d))
                continue
            if "MISMATCH" in mo:
                mism.append(("coq-operator", dict(d, model=mo)))
            if p[1] != mo.split()[1]:
                mism.append(("reduction", dict(d, impl=p[1], model=mo.split()[1], sequential=p[3])))
            if p[5] != "1":
                ofail.append((None, "%s returned %s, the sequential fold is %s" % (d["function"], p[1], p[3]), dict(d, impl=p[1], sequential=p[3])))
            if len(samples) < 3 and n > 3 and min(w, stop - start) >= 2:
                samples.append(dict(d, impl=p[1], model=mo.split()[1]))
        # ------------------------------------------------------------ sorts
        if not quick or ci == 3:
            scs = sorts
        elif ci == 1:
            scs = sorts[:npin] + sorts[npin::2]
        else:
            scs = sorts[:npin][ci % 2::2] + [c for c in sorts[npin:] if c[2] <= 10001 or c[0] == "qt"][ci % 4::4]
        if ci in (0, 3) or not quick:
            scs = pinned_sort_cases(["qutil", "aligned", "merge"], quick) + scs
        if ci == 3 or not quick:
            scs = pinned_sort_cases(["qt"], quick) + scs
        mo_s = model([model_sort_cmd(c, ns, cacheline) for c in scs])
        # the named hypothesis of the sortedness theorem (strided_partition_post) evaluated on the model for every input
        # whose top-level call enters the parallel partition loop
        hyp = [c for c in scs if ((c[0] in ("qutil", "aligned") and c[2] > 2 * LOOP_CHUNK + 1) or (c[0] == "qt" and ns >= 3 and c[2] > 10000))
               and not (quick and c[2] > 60000)]
        hyp_cmds = ["wallspost %s %d %d %d %d %d" % (c[0], c[1], c[2], c[3], ns if c[0] == "qt" else cacheline, 0 if c[0] == "qt" else LOOP_CHUNK) for c in hyp]
        for c, ho in zip(hyp, model(hyp_cmds)):
            hyp_evals += 1
            if ho.endswith(" entered"):
                hyp_entered += 1
            if not ho.startswith("p ok"):
                mism.append(("partition-post-hypothesis", dict(desc_sort(c, ns, nw), model=ho)))
        term = [(c, mo) for c, mo in zip(scs, mo_s) if mo != "s outoffuel"]
        for c, mo in zip(scs, mo_s):
            if mo == "s outoffuel":      # a generated "safe" case the model says diverges: treat like the risky ones
                risky.append(c)
        t0 = time.time()
        header, iout = run_batch(exe, env, ["sort %s %d %d %d 30" % c for c, _ in term], max_fail=1)
        tick("impl:sort", t0)
        for (c, mo), io in zip(term, iout):
            evals += 1
            d = desc_sort(c, ns, nw)
            hist["sort:" + c[0]] = hist.get("sort:" + c[0], 0) + 1
            if c[2] > LOOP_CHUNK and c[0] != "merge" and not (c[0] == "qt" and ns == 1):
                nontrivial.add(("sort",) + c + (ns if c[0] == "qt" else 0,))
            p = io.split()
            if p[0] == "SKIPPED":
                evals -= 1
                continue
            if p[0] != "s":
                mism.append(("sort-" + p[0].lower(), dict(d, impl=io, model=mo)))
                ofail.append((None, "%s did not return (%s); the model terminates" % (d["function"], io), d))
                continue
            if p[2] != mo.split()[2]:
                mism.append(("sort", dict(d, impl_hash=p[2], model_hash=mo.split()[2])))
            if p[3] != "1" or p[4] != "1":
                ofail.append((None, "%s left the array %s" % (d["function"], "unsorted" if p[3] != "1" else "with different elements"), d))
            if len(samples) < 6 and c[2] > 20001:
                samples.append(dict(d, impl_hash=p[2], model_hash=mo.split()[2]))
        # ------------------------------------------------------------ the known-finding class (one config is enough)
        if ci == 1:
            rk = list(dict.fromkeys(risky))
            mo_r = model([model_sort_cmd(c, ns, cacheline) for c in rk])
            for c, mo in zip(rk, mo_r):
                d = desc_sort(c, ns, nw)
                if mo != "s outoffuel":
                    wd = 60
                elif hang_budget > 0:
                    wd = 3
                    hang_budget -= 1
                else:
                    continue
                evals += 1
                _, io = run_batch(exe, env, ["sort %s %d %d %d %d" % (c + (wd,))])
                io = io[0]
                if mo == "s outoffuel":
                    if io == "TIMEOUT":
                        hangs_seen.append(d)
                    else:
                        mism.append(("sort-model-diverges", dict(d, impl=io, model=mo)))
                else:
                    p = io.split()
                    if p[0] != "s":
                        mism.append(("sort-" + p[0].lower(), dict(d, impl=io, model=mo)))
                        ofail.append((None, "%s did not return (%s); the model terminates" % (d["function"], io), d))
                    else:
                        if p[2] != mo.split()[2]:
                            mism.append(("sort", dict(d, impl_hash=p[2], model_hash=mo.split()[2])))
                        if p[3] != "1" or p[4] != "1":
                            ofail.append((None, "%s left the array unsorted or with different elements" % d["function"], d))
        # ------------------------------------------------------------ allpairs
        header, iout = run_batch(exe, env, ["ap %d %d %d %d %d" % c for c in aps])
        acmds = []
        for c, io in zip(aps, iout):
            p = io.split()
            acmds.append("ap %d %s" % (ns, " ".join(p[p.index("ev") + 1:])) if p and p[0] == "a" and "ev" in p else None)
        amod = model([a for a in acmds if a is not None])
        k = 0
        for c, io, ac in zip(aps, iout, acmds):
            evals += 1
            n1, n2, unit, segp, delay = c
            d = {"function": "qt_allpairs", "array1": {"count": n1}, "array2": {"count": n2}, "unit_size": unit, "seg_pages": segp,
                 "distribution": "FIXED_HASH", "generator_delay": delay, "config": [ns, nw], "harness_command": "ap %d %d %d %d %d" % c}
            hist["allpairs"] = hist.get("allpairs", 0) + 1
            if ac is None:
                mism.append(("allpairs-" + io.split()[0].lower(), dict(d, impl=io)))
                ofail.append((None, "qt_allpairs did not return: " + io, d))
                continue
            mo = amod[k]; k += 1
            p = io.split()
            kv = dict(x.split("=") for x in p[2:p.index("ev")])
            ss = (segp * 4096) // unit
            exp_units = sorted(i * (n2 + 1) + j for i in range(0, n1, ss) for j in range(0, n2, ss))
            got_units = sorted(int(t[1:]) for t in p[p.index("ev") + 1:] if t[0] == "e")
            if len(exp_units) >= 2:
                nontrivial.add(("ap",) + c + (ns,))
            if mo != "a ok":
                mism.append(("allpairs-protocol", dict(d, acceptor=mo, events=" ".join(p[p.index("ev") + 1:])[:1500])))
            if got_units != exp_units:
                mism.append(("allpairs-units", dict(d, expected_units=len(exp_units), enqueued=len(got_units))))
            if kv["bad"] != "0" or kv["active"] != "0":
                i, j = kv["first"].split(":")
                ofail.append((None, "qt_allpairs: %s pairs not processed exactly once (pair (%s,%s): %s times); %s calls still running at return"
                              % (kv["bad"], i, j, kv["cnt"], kv["active"]), d))
            if kv["overflow"] != "0":
                ctx.notes.append("allpairs event log overflow on %s" % (c,))
    # ---------------------------------------------------------------- verdict
    prof["total_before_verdict"] = round(time.time() - ctx.t0, 1)
    if RETRIED:
        ctx.notes.append("watchdog expiries re-run alone: %s" % json.dumps(RETRIED[:10]))
    ctx.cov.update(watchdog_policy="CPU-time (ITIMER_PROF, 30-60 CPU-s per worker) + re-run alone before judging; QT_AFFINITY=0",
                   watchdog_retries=len(RETRIED), phase_seconds=prof, evaluations=evals, distinct_nontrivial=len(nontrivial), samples=samples,
                   rule="non-trivial = reduction with >= 2 worker partials or >= 2 qutil chunks; quicksort above the parallel cutoff; "
                        "allpairs with >= 2 work units.  lengths {1,2,3,w-1,w,w+1,9,10,11,9999,10000,10001,20001,20002,40001,...} x patterns "
                        "(random, sorted, reversed, constant, two values, extremes, 16 values) x types (aligned_t, saligned_t, double) x operators",
                   traces_validated_against_impl=evals, input_distribution=hist, configs=configs,
                   correspondence_mismatches=len(mism), known_class_hangs_reproduced=len(hangs_seen),
                   partition_post_hypothesis_evaluated=hyp_evals, partition_post_hypothesis_loop_entered=hyp_entered,
                   refuted_on_current_tree=[])
    ctx.assumptions += ["the sort used below the parallel cutoff (libc qsort, drf_qsort_dbl/_algt) is a correct sort (Section hypothesis; "
                        "compared with the real code on every run)",
                        "inputs contain no NaN and no -0.0; worker counts < 65536",
                        "partition threads of one partitioner call touch pairwise disjoint slices (proved: strided_slices_partition); the model "
                        "runs them in index order",
                        "the partition postcondition (proved: strided_pass_correct / partition loop invariant) is additionally evaluated on the "
                        "extracted model for every generated input that enters the parallel partition loop"]
    broken = bool(mism) or not pr["ok"]
    unknown = [(w_, c) for (s, w_, c) in ofail if s is None]
    if not broken:
        if hangs_seen:
            ctx.violation("unlisted:nontermination", "parallel quicksort does not terminate (model: OutOfFuel; implementation: no return "
                          "within the watchdog)", hangs_seen[0])
        for (w_, c) in unknown[:3]:
            ctx.violation("unlisted:" + w_.split()[0], w_, c)
    else:
        what = ("correspondence model/implementation broken (%d cases, first: %s)" % (len(mism), mism[0][0])) if mism else \
               "theorems in %s no longer check" % pr["file"]
        if unknown:
            w_, c = unknown[0]
            ctx.violation("broken+input", what + "; failing input: " + w_,
                          {"failing_input": c, "reason": w_, "first_mismatch": mism[0] if mism else None, "coq_log": pr["log"][-1500:]})
        else:
            ctx.violation("broken", what, {"theorem_or_correspondence": ("impl != Util model on " + mism[0][0]) if mism else pr["file"],
                                           "first_mismatch": mism[0] if mism else None, "coq_log": pr["log"][-1500:]}, no_input=True)
    # extension F: one partition pass under arbitrary interleavings of its threads (micro-step machine, Properties_C13_part.v)
    _c13_part.run_part(ctx, quick)
    # extension W: the library's own sequential sort below the cutoff (drf_qsort_dbl/_algt; Properties_C13_seq.v)
    _c13_seq.run_seq(ctx, quick)


def replay(ctx, path):
    j = json.load(open(path))
    print(json.dumps(j, indent=1)[:4000])
    r = j.get("replay", {})
    case = r.get("failing_input", r)
    cmd = case.get("harness_command") if isinstance(case, dict) else None
    if cmd and cmd.split()[0] in ("pass", "solo"):          # extension F (partition pass under a schedule)
        _c13_part.replay(ctx, j, case)
    elif cmd and cmd.split()[0] == "seq":                    # extension W (sequential sort below the cutoff)
        _c13_seq.replay(ctx, j, case)
    elif cmd:
        exe = ctx.link("c13_util", ["c13_util.c"], exclude=["patterns/allpairs.c"])
        ns, nw = case.get("config", [2, 2])
        _, out = run_batch(exe, core.qenv(ns, nw, stack=65536, QT_AFFINITY=0), [cmd])
        print("# re-run on the working tree (%dx%d): %s -> %s" % (ns, nw, cmd, out[0][:300]))
        bad = out[0].startswith(("TIMEOUT", "CRASH")) or (out[0].startswith("r ") and not out[0].endswith("ok 1")) or \
            (out[0].startswith("s ") and out[0].split()[3:5] != ["1", "1"]) or (out[0].startswith("a ") and (" bad=0 " not in out[0] or " active=0 " not in out[0]))
        if bad:
            ctx.violation(j.get("signature", "replay"), "replayed input still fails: " + out[0][:200], case)
    else:
        run(ctx)
