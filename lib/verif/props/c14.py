"""C14 memory pools: disjoint, aligned, reusable blocks.  Model: coq/theories/Mpool.

Correspondence (M1/M3, op-atomic baton): the real qt_mpool_* / qpool_* (white-box include of the working tree's
mpool.c) are driven from up to 8 real pthreads - each one owns its own pthread-specific cache, exactly like a
worker - in a scripted total order; after every operation the returned address, canonicalised to
(slab ordinal, byte offset), and (for small pools after every operation) a white-box dump of the shared reuse list
and of every thread's cache list with each item's block_tail field, count, block and i must equal the extracted
model's prediction EXACTLY.  Oracle (the property itself, evaluated on the implementation's behaviour): no two live
blocks overlap, blocks lie inside a slab, are aligned as requested, and the canary written over the full requested
size of every live block is intact when it is freed.  M4: free-running pthreads stress with canaries and an
end-of-run audit of the free structures (search tool only).
"""
import glob
import json
import math
import os
from .. import core
from . import _gen

SIZE_MAX = (1 << 64) - 1
ENVS = [None, "0", "1", "50000", "65536", "90000", "100000", "150000", "300000", "1000000"]
SIZES = [1, 8, 15, 16, 17, 24, 40, 100, 1000, 2047, 2048, 2049, 4095, 4096, 4097, 6000, 8192, 9000, 12288, 16384,
         20000, 28672, 30000, 32768, 33000, 40000, 65536, 70000]
ALIGNS = [0, 0, 1, 8, 16, 32, 64, 128, 256, 1024, 4096, 8192]


def env_value(e):
    """what qt_internal_get_env_num("MAX_POOL_ALLOC_SIZE", SIZE_MAX, 0) returns for this setting"""
    return SIZE_MAX if e is None else int(e)


def py_sizes(pagesize, envmax, max0, size, align):
    """generator aiming only (never used for checking): expected item_size, ipa and the new static"""
    mx = envmax if max0 == 0 else max0
    i = max(size, 16)
    if i % 8:
        i += 8 - i % 8
    al = 16 if align <= 16 else align
    if i % al:
        i += al - i % al
    if i * 2 >= mx:
        mx = i * 2
    l = i * pagesize // math.gcd(i, pagesize)
    i4 = i
    if l > mx:
        i4 = i + pagesize - i % pagesize
        a = i4 * max(2, mx // i4)
    else:
        a = l
    while a // i4 < 128 and a <= mx // 2:
        a *= 2
    while a < pagesize * 16:
        a *= 2
    return i, a // i4, mx


class Gen:
    """one case = a few pools + a total order of (pool, thread, alloc | free serial) operations"""

    def __init__(self, rng, nthreads):
        self.rng = rng
        self.T = nthreads
        self.lines = []
        self.serial = 0
        self.live = {}           # pid -> list of (serial, allocating thread)
        self.pools = {}          # pid -> (size, align, api, ipa)
        self.nops = 0

    def create(self, pid, size, align, api, ipa):
        self.lines.append("C %d %d %d %d" % (pid, size, align, api))
        self.pools[pid] = (size, align, api, ipa)
        self.live[pid] = []

    def dump(self, pid, force=False):
        ipa = self.pools[pid][3]
        if force or ipa <= 16:
            self.lines.append("S %d %d" % (pid, self.T))

    def A(self, pid, t):
        self.lines.append("A %d %d" % (pid, t))
        self.live[pid].append((self.serial, t))
        self.serial += 1
        self.nops += 1
        self.dump(pid)

    def F(self, pid, t, how="rand"):
        lv = self.live[pid]
        if not lv:
            return False
        if how == "new":
            k = len(lv) - 1
        elif how == "old":
            k = 0
        elif how == "foreign":
            c = [i for i, (_, a) in enumerate(lv) if a != t]
            k = self.rng.choice(c) if c else self.rng.below(len(lv))
        else:
            k = self.rng.below(len(lv))
        s, _ = lv.pop(k)
        self.lines.append("F %d %d %d" % (pid, t, s))
        self.nops += 1
        self.dump(pid)
        return True

    def boundary(self, ipa):
        r = self.rng
        return max(1, r.choice([1, 2, ipa - 1, ipa, ipa + 1, 2 * ipa - 1, 2 * ipa, 2 * ipa + 1, 3 * ipa, r.range(1, 3 * ipa + 2)]))

    def phases(self, pid, nphases, budget):
        r = self.rng
        ipa = self.pools[pid][3]
        start = self.nops
        for _ in range(nphases):
            if self.nops - start > budget:
                break
            t = r.below(self.T)
            kind = r.weighted([("fill", 4), ("drain", 5), ("dance", 2), ("mix", 3), ("pump", 3)])
            if kind == "fill":
                for _ in range(min(self.boundary(ipa), budget)):
                    self.A(pid, t)
            elif kind == "drain":
                how = r.choice(["new", "old", "rand", "foreign", "foreign"])
                for _ in range(min(self.boundary(ipa), budget)):
                    if not self.F(pid, t, how):
                        break
            elif kind == "pump":
                # u frees >= 2*ipa blocks (hand-over to the shared list), then v allocates until it has to refill from it
                u, v = r.below(self.T), r.below(self.T)
                n = 2 * ipa + r.choice([-1, 0, 1, ipa])
                while len(self.live[pid]) < n:
                    self.A(pid, t)
                how = r.choice(["new", "old", "rand"])
                for _ in range(n):
                    self.F(pid, u, how)
                for _ in range(r.choice([ipa, 2 * ipa, 3 * ipa + 1])):
                    self.A(pid, v)
            elif kind == "dance":
                first = r.below(2)
                for j in range(r.range(2, 8)):
                    if (j + first) % 2 == 0:
                        self.A(pid, t)
                    else:
                        self.F(pid, t, r.choice(["new", "rand", "foreign"]))
            else:
                for _ in range(r.range(1, 2 * ipa + 4)):
                    tt = r.below(self.T)
                    if r.chance(1, 2):
                        self.A(pid, tt)
                    else:
                        self.F(pid, tt, r.choice(["new", "old", "rand", "foreign"]))

    def ramp(self, pid, extra):
        """large pools: one thread allocates 2*ipa+extra, another frees everything, a third allocates again"""
        r = self.rng
        ipa = self.pools[pid][3]
        a, b, c = r.below(self.T), r.below(self.T), r.below(self.T)
        n = 2 * ipa + extra
        for _ in range(n):
            self.A(pid, a)
        self.dump(pid, True)
        how = r.choice(["new", "old", "rand"])
        for _ in range(n):
            self.F(pid, b, how)
        self.dump(pid, True)
        for _ in range(ipa + 2):
            self.A(pid, c)
        self.dump(pid, True)

    def finish(self):
        for pid in list(self.pools):
            self.dump(pid, True)
        # destroy one pool first and touch the others afterwards (independence), then end of case
        pids = list(self.pools)
        if len(pids) >= 2:
            d = pids[0]
            self.lines.append("D %d" % d)
            del self.pools[d]
            for pid in pids[1:]:
                self.A(pid, self.rng.below(self.T))
                self.F(pid, self.rng.below(self.T), "old")
                self.dump(pid, True)
        self.lines.append("X")
        return self.lines


def fixed_cases():
    """always-run boundary scripts (the built-in corpus); env "1" makes max_alloc_size = 2*item_size"""
    cases = []
    for (size, align, ipa) in [(32768, 0, 2), (16384, 64, 4), (6000, 0, 8), (16, 0, 16)]:
        for T, pat in [(1, "same"), (2, "cross"), (3, "three")]:
            L = ["C 0 %d %d 0" % (size, align)]
            ser = 0
            a, b, c = (0, 0, 0) if pat == "same" else ((0, 1, 0) if pat == "cross" else (0, 1, 2))
            n = 3 * ipa + 1
            for _ in range(n):
                L += ["A 0 %d" % a, "S 0 %d" % T]
            for k in range(n):          # count on b crosses ipa, ipa+1, 2*ipa (hand-over), again ipa+1 ...
                L += ["F 0 %d %d" % (b, k), "S 0 %d" % T]
            for _ in range(2 * ipa + 2):  # c drains its cache / the reuse list / a new slab
                L += ["A 0 %d" % c, "S 0 %d" % T]
            L.append("X")
            cases.append({"env": "1", "name": "fixed-%d-%s" % (ipa, pat), "lines": L})
    # items larger than 16 pages: the "at least two items per slab" clamp is what makes ipa = 2
    cases.append({"env": "1", "name": "fixed-huge-items", "lines":
                  ["C 0 70000 0 0", "A 0 0", "A 0 0", "A 0 1", "F 0 1 0", "F 0 1 1", "F 0 1 2", "S 0 2", "A 0 0", "S 0 2",
                   "C 1 65536 4096 1", "A 1 0", "A 1 0", "A 1 0", "S 1 1", "C 2 61441 0 0", "C 3 61440 32 0", "X"]})
    # sticky static max_alloc_size: a big pool changes the geometry of later small pools
    cases.append({"env": "1", "name": "fixed-sticky-max", "lines":
                  ["C 0 16 0 0", "C 1 40000 0 1", "C 2 16 0 0", "A 0 0", "A 2 0", "A 1 1", "A 1 1", "A 1 1", "F 1 0 2", "F 1 0 3",
                   "F 1 0 4", "S 1 2", "D 1", "A 0 0", "A 2 1", "S 0 2", "S 2 2", "X"]})
    return cases


def gen_sweep(rng, pagesize, n):
    """creation only: size arithmetic around page / alignment / limit boundaries"""
    L = []
    for _ in range(n):
        k = rng.below(6)
        if k == 0:
            size = rng.choice(SIZES)
        elif k == 1:
            size = max(1, rng.range(1, 40) * pagesize // rng.choice([1, 2, 4, 8]) + rng.range(-2, 2))
        elif k == 2:
            size = rng.range(1, 300)
        elif k == 3:
            size = max(1, (1 << rng.range(3, 17)) + rng.range(-1, 1))
        else:
            size = rng.range(1, 200000)
        align = rng.choice(ALIGNS + [2, 4, 512, 2048, 16384, 65536])
        L += ["C 0 %d %d %d" % (size, align, rng.below(2)), "A 0 0", "A 0 1", "D 0"]
    return {"name": "sweep", "lines": L + ["X"]}


def gen_group(rng, pagesize, env, ncases, quick):
    """cases for one harness process (the function-static max_alloc_size persists across them)"""
    envmax = env_value(env)
    mx = 0
    cases = [dict(gen_sweep(rng.fork(), pagesize, 25 if quick else 60), env=env)]
    for l in cases[0]["lines"]:
        if l.startswith("C "):
            _, _, sz, al, _ = l.split()
            mx = py_sizes(pagesize, envmax, mx, int(sz), int(al))[2]
    for ci in range(ncases):
        T = rng.choice([1, 2, 2, 3, 4, 4, 8])
        g = Gen(rng.fork(), T)
        npools = rng.choice([1, 1, 2, 3])
        small = []
        for pid in range(npools):
            for attempt in range(30):
                size = rng.choice(SIZES) if rng.chance(4, 5) else rng.range(1, 70000)
                align = rng.choice(ALIGNS)
                item, ipa, mx2 = py_sizes(pagesize, envmax, mx, size, align)
                # mostly pools whose thresholds are reachable by short scripts
                if ipa <= 32 or attempt > 20 or rng.chance(1, 12):
                    break
            mx = mx2
            g.create(pid, size, align, rng.below(2), ipa)
            (small if ipa <= 32 else []).append(pid)
        for pid in g.pools:
            ipa = g.pools[pid][3]
            if ipa > 32:
                if ipa <= 512 or (not quick and rng.chance(1, 3)):
                    g.ramp(pid, rng.choice([-1, 0, 1, 2]))
                else:
                    for _ in range(5):
                        g.A(pid, rng.below(T))
                    g.F(pid, rng.below(T))
        rounds = rng.range(2, 5)
        for _ in range(rounds):
            for pid in rng.shuffle(small):
                g.phases(pid, rng.range(2, 6), 40 * g.pools[pid][3] if quick else 80 * g.pools[pid][3])
        cases.append({"env": env, "name": "gen", "threads": T, "lines": g.finish()})
    if env is None:
        cases.append(dict(gen_churn(rng.fork()), env=env))
    return cases


def run_window(ctx, exe, drv, pagesize, quick):
    """Directed window schedules on the shared reuse list (deterministic counterpart of the free-running stress): thread t1
    starts an alloc with an empty cache and is held right before it takes reuse_lock - after its unlocked look at the list -,
    thread t2 performs a whole alloc (pulls the head batch), t1 continues.  The real outcome (two A lines in lock order) must
    equal the op-atomic model's outcome for `A t2; A t1`, and no block may be handed out twice afterwards (independent
    changes C14-1 / C14-4: the head batch read before the lock is used after it)."""
    res = {"cases": 0, "mismatches": 0, "not_held": 0}
    fails = []
    mism = []
    for (size, align, api, extra) in ([(2048, 0, 0, 2), (4096, 64, 1, 0)] if quick else [(2048, 0, 0, 2), (4096, 64, 1, 0), (1024, 0, 0, 1), (8192, 0, 1, 3), (3000, 8, 0, 2)]):
        item, ipa, _mx = py_sizes(pagesize, env_value(None), 0, size, align)
        n = 3 * ipa + 2 + extra
        pre = ["C 0 %d %d %d" % (size, align, api)] + ["A 0 0"] * n + ["F 0 0 %d" % k for k in range(n)]
        post = ["A 0 1", "A 0 2", "A 0 1", "A 0 2", "A 0 3", "S 0 2", "X"]
        il = pre + ["W 0 1 2"] + post
        ml = pre + ["A 0 2", "A 0 1"] + post
        rc, out, err = core.run_lines(exe, il + ["Q"], timeout=120, env=core.qenv())
        rc2, mout, merr = core.run_lines(drv, ["E %d %d" % (pagesize, env_value(None))] + ml, timeout=120)
        iout, mo = out[1:], mout[1:]
        res["cases"] += 1
        case = {"name": "window", "pool": dict(size=size, align=align, qpool=api, items_per_alloc=ipa), "impl_script": il, "model_script": ml}
        for k in range(len(ml)):
            a = iout[k] if k < len(iout) else "<no output: crash or hang>"
            b = mo[k] if k < len(mo) else "<no model output>"
            if "NOTHELD" in a:
                res["not_held"] += 1
                a = a.replace(" NOTHELD", "")
            i_s, why = strip_impl(a)
            m_s, _tag = strip_model(b)
            if ml[k].startswith("A ") and why not in ("ok", None):
                fails.append(("block handed out while another holder has it (%s) at step %d `%s` of the window schedule: thread 1 held "
                              "before reuse_lock, thread 2 refills, thread 1 continues" % (why, k, ml[k]), dict(case, step=k, impl=a)))
                break
            if i_s != m_s:
                res["mismatches"] += 1
                mism.append(dict(case, step=k, command=ml[k], impl=a[:300], model=b[:300]))
                break
            if k >= len(iout):
                fails.append(("the real code crashed or hung in the window schedule at step %d" % k, dict(case, step=k)))
                break
    return res, mism, fails


def gen_churn(rng, n=1100):
    """pool churn in ONE process: more short-lived pools than the process has pthread keys (PTHREAD_KEYS_MAX = 1024), next
    to a long-lived pool with live blocks.  Every pool owns per-thread state (a pthread key); a destroy that does not give
    everything back makes a later create hand out blocks it does not own ("creating or destroying one pool does not
    disturb blocks of another")."""
    L = ["C 7 48 0 0"] + ["A 7 %d" % (k % 3) for k in range(12)]
    for k in range(n):
        size = rng.choice([8, 16, 24, 40, 64, 100, 128, 200, 256])
        align = rng.choice([0, 0, 8, 16, 64])
        t = rng.below(4)
        L += ["C 0 %d %d %d" % (size, align, rng.below(2)), "A 0 %d" % t, "A 0 %d" % ((t + 1) % 4), "D 0"]
        if k % 100 == 99:
            L += ["A 7 %d" % rng.below(3), "S 7 2"]
    L += ["A 7 0", "S 7 2", "X"]
    return {"name": "churn", "lines": L}


def split_cases(lines_out, cases):
    """cut the flat output back into per-case lists (one output line per command)"""
    res, pos = [], 0
    for c in cases:
        n = len(c["lines"])
        res.append(lines_out[pos:pos + n])
        pos += n
    return res


def run_group(exe, drv, env, cases, pagesize, timeout):
    script = [l for c in cases for l in c["lines"]]
    kw = {} if env is None else {"QT_MAX_POOL_ALLOC_SIZE": env}
    rc, out, err = core.run_lines(exe, script + ["Q"], timeout=timeout, env=core.qenv(**kw))
    if not out or not out[0].startswith("H "):
        raise core.BuildError("c14 harness did not start: rc=%s %s" % (rc, err[-500:]))
    rc2, mout, merr = core.run_lines(drv, ["E %d %d" % (pagesize, env_value(env))] + script, timeout=timeout)
    return rc, out[1:], mout[1:]


def strip_impl(l):
    """-> (comparable core incl. the lock events of the operation, oracle verdict of the harness)"""
    p = l.split()
    if p and p[0] == "A" and len(p) >= 5:
        return " ".join(p[:3]) + " " + p[4], p[3]
    if p and p[0] == "F" and len(p) >= 3:
        return "F ok " + p[2], (None if p[1] == "ok" else p[1])
    return l, None


def strip_model(l):
    """-> (comparable core incl. the lock events predicted by the micro-step machine, path tag)"""
    p = l.split()
    if p and p[0] in ("A", "F") and len(p) >= 3 and p[-2].startswith("@"):
        return " ".join(p[:-2]) + " " + p[-1], p[-2][1:]
    return l, None


def compare_case(case, iout, mout, stats):
    """returns (first mismatch or None, list of oracle failures)"""
    mism = None
    orc = []
    live = {}      # pid -> {serial: (slab, off)}
    sizes = {}
    serial = 0
    for k, cmd in enumerate(case["lines"]):
        il = iout[k] if k < len(iout) else "<no output: crash or hang>"
        ml = mout[k] if k < len(mout) else "<no model output>"
        c = cmd.split()
        i_s, why = strip_impl(il)
        m_s, tag = strip_model(ml)
        if tag:
            stats[tag] = stats.get(tag, 0) + 1
        if i_s != m_s and mism is None:
            mism = {"step": k, "command": cmd, "impl": il[:600], "model": ml[:600]}
        if k >= len(iout):
            orc.append(("the real code crashed or hung (output ends) at step %d: %s" % (k, cmd), k))
            break
        # ----- the property oracle on the implementation's own behaviour
        if c[0] == "C":
            pid = int(c[1]); sizes[pid] = (int(c[2]), int(c[3])); live[pid] = {}
            p = il.split()
            if len(p) == 5:
                item, al, alloc, ipa = map(int, p[1:])
                if item < int(c[2]):
                    orc.append(("pool item_size %d < requested %d" % (item, int(c[2])), k))
                if ipa < 1 or ipa * item > alloc:
                    orc.append(("items_per_alloc %d x item_size %d does not fit alloc_size %d" % (ipa, item, alloc), k))
            else:
                orc.append(("create failed: " + il, k))
        elif c[0] == "A":
            pid = int(c[1])
            p = il.split()
            if why != "ok":
                orc.append(("alloc #%d: %s" % (serial, why), k))
            elif len(p) >= 3:
                s, off = int(p[1]), int(p[2])
                for s2, (sl2, off2) in live[pid].items():
                    if sl2 == s and abs(off2 - off) < sizes[pid][0]:
                        orc.append(("alloc #%d overlaps live block #%d" % (serial, s2), k))
                        break
                live[pid][serial] = (s, off)
            serial += 1
        elif c[0] == "F":
            pid = int(c[1])
            live[pid].pop(int(c[3]), None)
            if why:
                orc.append(("free of #%s: %s" % (c[3], why), k))
        elif c[0] == "D":
            live.pop(int(c[1]), None)
    return mism, orc


def parse_ops(lines):
    """script -> (fixed head of C lines incl. prelude, abstract ops) ; S lines are dropped and regenerated"""
    ops, ser = [], 0
    for l in lines:
        c = l.split()
        if c[0] == "A":
            ops.append(("A", int(c[1]), int(c[2]), ser)); ser += 1
        elif c[0] == "F":
            ops.append(("F", int(c[1]), int(c[2]), int(c[3])))
        elif c[0] in ("C", "D"):
            ops.append((c[0], l))
    return ops


def render_ops(ops, nthreads=8, dumps=True):
    """abstract ops -> script; frees of removed allocations are dropped, serials renumbered"""
    lines, new, alive = [], {}, set()
    for o in ops:
        if o[0] in ("C", "D"):
            lines.append(o[1])
            if o[0] == "D":
                pid = int(o[1].split()[1])
                alive = {s for s in alive if new[s][1] != pid}
        elif o[0] == "A":
            new[o[3]] = (len(new), o[1]); alive.add(o[3])
            lines.append("A %d %d" % (o[1], o[2]))
            if dumps:
                lines.append("S %d %d" % (o[1], nthreads))
        elif o[3] in alive and new[o[3]][1] == o[1]:
            alive.discard(o[3])
            lines.append("F %d %d %d" % (o[1], o[2], new[o[3]][0]))
            if dumps:
                lines.append("S %d %d" % (o[1], nthreads))
    return lines


def shrink(exe, drv, env, lines, want_oracle, pagesize):
    """delta debugging on the alloc/free operations; keeps a script on which the oracle still rejects (or, when no
    failing input is known, on which model and implementation still disagree)"""
    ops = parse_ops(lines)
    pool_live = set()

    def valid(sub):
        # every op must address a pool that exists at that point
        have = set()
        for o in sub:
            if o[0] == "C":
                have.add(int(o[1].split()[1]))
            elif o[0] == "D":
                if int(o[1].split()[1]) not in have:
                    return False
                have.discard(int(o[1].split()[1]))
            elif o[1] not in have:
                return False
        return True

    def fails(sub):
        if not valid(sub):
            return False
        L = render_ops(sub, dumps=not want_oracle)
        case = {"env": env, "name": "shrink", "lines": L}
        try:
            rc, io, mo = run_group(exe, drv, env, [case], pagesize, 60)
        except core.BuildError:
            return False
        mism, orc = compare_case(case, io, mo, {})
        return bool(orc) if want_oracle else bool(mism)
    if len(ops) > 4000 or not fails(ops):
        return None
    small = core.ddmin(ops, fails, budget=150)
    return render_ops(small, dumps=not want_oracle)


def run(ctx):
    rng = ctx.rng
    quick = ctx.tier == "quick"
    _gen.regen(ctx, ["Mpool", "Gcd"])      # Gen/Mpool.v regenerated from the source + Properties_Gen_C14.v (tools/ctrans.py)
    pr = ctx.coq_properties("Properties/Properties_C14.v")
    exe = ctx.link("c14_mpool", ["c14_mpool.c"], exclude=["mpool.c"])
    drv = ctx.model_driver("c14_driver")
    pagesize = os.sysconf("SC_PAGESIZE")
    groups = {}
    corpus = fixed_cases()
    for f in sorted(glob.glob(os.path.join(core.VERIF, "corpus", "C14", "*.json"))):
        corpus.append(json.load(open(f)))
    for c in corpus:
        groups.setdefault(("corpus", c["env"]), []).append(c)
    ngroups = 6 if quick else 50
    for gi in range(ngroups):
        env = ENVS[gi % len(ENVS)] if gi < len(ENVS) else rng.choice(ENVS)
        if quick:
            env = rng.choice(["0", "1", "1", "65536", "90000", "100000", "150000", None])
        groups[("gen%d" % gi, env)] = gen_group(rng.fork(), pagesize, env, 5 if quick else 8, quick)
    evals = 0
    stats = {}
    mismatches = []
    oracle_fail = []
    nontrivial = set()
    samples = []
    ipa_hist = {}
    ncases = 0
    for (gname, env), cases in groups.items():
        rc, iout, mout = run_group(exe, drv, env, cases, pagesize, 300 if quick else 900)
        ic, mc = split_cases(iout, cases), split_cases(mout, cases)
        prelude = []        # creations of earlier cases of the process (the static max_alloc_size remembers them)
        for case, io, mo in zip(cases, ic, mc):
            case["prelude"] = list(prelude)
            for l in case["lines"]:
                if l.startswith("C "):
                    p_ = l.split()
                    prelude += ["C 7 %s %s %s" % (p_[2], p_[3], p_[4]), "D 7"]
            ncases += 1
            st = {}
            mism, orc = compare_case(case, io, mo, st)
            nops = sum(1 for l in case["lines"] if l[0] in "AF")
            evals += nops
            for k, v in st.items():
                stats[k] = stats.get(k, 0) + v
            for l in mo:
                if l.startswith("C ") and l != "C stuck":
                    ipa = int(l.split()[4])
                    b = "2" if ipa == 2 else "3-8" if ipa <= 8 else "9-32" if ipa <= 32 else "33-512" if ipa <= 512 else ">512"
                    ipa_hist[b] = ipa_hist.get(b, 0) + 1
            if st.get("global", 0) and st.get("reuse", 0):
                nontrivial.add((gname, case["name"], len(case["lines"]), hash(tuple(case["lines"][:50]))))
                if len(samples) < 3:
                    samples.append({"env": env, "threads": case.get("threads"), "ops": nops, "paths": st, "first_lines": case["lines"][:12]})
            if mism:
                mismatches.append(dict(mism, env=env, case=case["name"], group=gname,
                                       lines=case["prelude"] + case["lines"][:mism["step"] + 1]))
            for why, k in orc:
                oracle_fail.append((why, {"env": env, "case": case["name"], "script": case["prelude"] + case["lines"][:k + 1], "reason": why}))
            if len(io) < len(case["lines"]):
                break       # the process died: later cases of this group have no output
    # ---------------- M4: free-running stress (search tool) ----------------
    stress = []
    # (env, size, align, threads|tasks, hold, runtime config or None = plain pthreads)
    # runtime configurations have ONE worker per shepherd: with several workers per shepherd the scheduler itself
    # sometimes never runs the forked tasks while the main task waits (2x2: 14 of 60 runs, 1x4: 3 of 60; all workers idle in
    # qt_scheduler_get_thread, stealing flag / REAL_MCCOY hand-back) - outside C14, reported to the lead
    sconf = [("1", 32768, 0, 2, 4, None), ("1", 6000, 64, 4, 12, None), ("1", 16, 0, 4, 40, None), ("90000", 9000, 0, 3, 20, None),
             ("1", 6000, 0, 8, 10, (2, 1)), ("1", 16, 32, 8, 30, (4, 1))]
    if not quick:
        sconf += [("1", 16384, 4096, 8, 10, None), (None, 64, 0, 4, 300, None), ("150000", 9000, 128, 6, 30, None),
                  ("1", 32768, 0, 12, 3, (3, 1)), ("90000", 9000, 64, 16, 12, (4, 1)), ("1", 16, 0, 16, 40, (6, 1))]
    for (env, size, align, nt, hold, rt) in sconf:
        api = rng.below(2)
        nops = (20000 if quick else 100000) // (4 if rt else 1)
        lines = ["C 0 %d %d %d" % (size, align, 1 if rt else api),
                 "%s 0 %d %d %d %d" % ("R" if rt else "M", nt, nops, hold, rng.below(1 << 30)), "X", "Q"]
        kw = {} if env is None else {"QT_MAX_POOL_ALLOC_SIZE": env}
        rc, out, err = core.run_lines(exe, lines, timeout=300,
                                      env=core.qenv(rt[0], rt[1], stack=65536, **kw) if rt else core.qenv(**kw))
        m = [l for l in out if l.startswith("M ")]
        rec = {"env": env, "size": size, "align": align, "threads": nt, "runtime": "%dx%d qthreads" % rt if rt else "pthreads", "result": m[0] if m else "no result rc=%s %s" % (rc, out[-2:])}
        stress.append(rec)
        bad = None
        if not m:
            bad = "stress run crashed or hung (rc=%s)" % rc
        else:
            kv = dict(x.split("=") for x in m[0].split()[1:-1])
            evals += int(kv["allocs"]) + int(kv["frees"])
            if int(kv["errs"]):
                bad = "stress: " + m[0].split()[-1]
            elif kv["allocs"] != kv["frees"]:
                bad = "stress bookkeeping"
            elif int(kv["dups"]) or int(kv["bad"]) or int(kv["free_items"]) != int(kv["slabs"]) * int(kv["ipa"]):
                bad = "stress audit: after freeing everything the free structures hold %s items (%s twice, %s invalid) of %d" % (
                    kv["free_items"], kv["dups"], kv["bad"], int(kv["slabs"]) * int(kv["ipa"]))
        if bad:
            oracle_fail.append((bad, {"env": env, "script": lines, "reason": bad, "free_running": True}))
    # ---------------- directed window schedules on the shared reuse list
    wres, wmism, wfails = run_window(ctx, exe, drv, pagesize, quick)
    evals += wres["cases"]
    ctx.cov["window_schedules"] = wres
    for mm in wmism:
        mismatches.append(dict(mm, case="window"))
    for (w, c) in wfails:
        oracle_fail.append((w, c))
    # ---------------- verdict ----------------
    ctx.cov.update(evaluations=evals, distinct_nontrivial=len(nontrivial), samples=samples,
                   rule="scripts of alloc/free over 1-8 pthreads and 1-3 pools, phases sized at ipa-1/ipa/ipa+1/2ipa-1/2ipa/2ipa+1/3ipa with "
                        "newest/oldest/random/foreign-thread frees; non-trivial = case in which a batch was handed to the shared list AND "
                        "a cache was refilled from it",
                   traces_validated_against_impl=ncases, cases=ncases, model_paths=stats, ipa_distribution=ipa_hist,
                   correspondence_mismatches=len(mismatches), stress=stress,
                   observables="lock events (acquire/release of reuse_lock / pool_lock, interposed FASTLOCK macros) of every operation vs the "
                               "micro-step machine Mpool/Micro.v run solo, whose final pool must equal the op-atomic model's; "
                               "(slab ordinal, byte offset) of every alloc; item_size/alignment/alloc_size/items_per_alloc of every create; "
                               "white-box dump of reuse list and per-thread cache lists incl. block_tail, count, block, i")
    ctx.assumptions += ["posix_memalign/memalign/malloc return disjoint slabs aligned as asked (trusted)",
                        "pthread_getspecific is a per-thread map (trusted)",
                        "op-atomic: operations of different threads are serialised by the baton in the exact correspondence; "
                        "the two locked regions (reuse_lock, pool_lock) are exercised concurrently only in the free-running stress",
                        "size arithmetic without 64-bit wrap (sizes and alignments < 2^31)"]
    broken = bool(mismatches) or not pr["ok"]
    if not broken:
        for (w, c) in oracle_fail[:3]:
            if not c.get("free_running"):
                sm = shrink(exe, drv, c["env"], c["script"], True, pagesize)
                if sm:
                    c = dict(c, script=sm, shrunk_from=len(c["script"]))
            ctx.violation("unlisted:" + w.split()[0], w, c)
    else:
        what = ("correspondence model/implementation broken (%d cases; first: step %d `%s` impl `%s` model `%s`)" % (
            len(mismatches), mismatches[0]["step"], mismatches[0]["command"], mismatches[0]["impl"][:80], mismatches[0]["model"][:80])) \
            if mismatches else "theorems in %s no longer check" % pr["file"]
        if oracle_fail:
            w, c = oracle_fail[0]
            if not c.get("free_running"):
                sm = shrink(exe, drv, c["env"], c["script"], True, pagesize)
                if sm:
                    c = dict(c, script=sm, shrunk_from=len(c["script"]))
            ctx.violation("broken+input", what + "; failing input: " + w,
                          {"failing_input": c, "reason": w, "first_mismatch": mismatches[0] if mismatches else None, "coq_log": pr["log"][-1500:]})
        else:
            if mismatches:
                m0 = mismatches[0]
                sm = shrink(exe, drv, m0["env"], m0["lines"], False, pagesize)
                if sm:
                    mismatches[0] = dict(m0, lines=sm, shrunk_from=len(m0["lines"]))
            ctx.violation("broken", what, {"theorem_or_correspondence": "impl != Mpool.Model (alloc/free/create)" if mismatches else pr["file"],
                                           "first_mismatch": mismatches[0] if mismatches else None, "coq_log": pr["log"][-1500:]}, no_input=True)


def replay(ctx, path):
    j = json.load(open(path))
    r = j.get("replay", j)
    fi = r.get("failing_input") or r.get("first_mismatch") or r
    lines = fi.get("script") or fi.get("lines")
    env = fi.get("env")
    print("# replay: env QT_MAX_POOL_ALLOC_SIZE=%s, %d commands" % (env, len(lines or [])))
    if not lines:
        print(json.dumps(j, indent=1)[:3000])
        return run(ctx)
    lines = [l for l in lines if l != "Q"]
    exe = ctx.link("c14_mpool", ["c14_mpool.c"], exclude=["mpool.c"])
    drv = ctx.model_driver("c14_driver")
    case = {"env": env, "name": "replay", "lines": lines}
    rc, iout, mout = run_group(exe, drv, env, [case], os.sysconf("SC_PAGESIZE"), 300)
    mism, orc = compare_case(case, iout, mout, {})
    for k in range(max(0, len(lines) - 15), len(lines)):
        print("%-14s impl: %-50s model: %s" % (lines[k], (iout[k] if k < len(iout) else "-")[:50], (mout[k] if k < len(mout) else "-")[:50]))
    for w, k in orc:
        print("# oracle: " + w)
    if mism:
        print("# first mismatch: %s" % json.dumps(mism))
    if orc:
        ctx.violation("replay", orc[0][0], {"script": lines, "env": env, "reason": orc[0][0]})
    elif mism:
        ctx.violation("replay-broken", "correspondence broken at step %d" % mism["step"], {"first_mismatch": mism, "env": env, "script": lines}, no_input=True)
