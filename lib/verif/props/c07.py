"""C07 placement: pinned tasks stay home, the main task stays on (0,0), disabled shepherds run nothing, re-routed tasks land
on an active shepherd.  Shares the kernel model, harness and acceptor with C04 (see c04.py).

Extra here: scenarios aimed at pinning / qthread_migrate_to / disable-enable windows (overlapping, several shepherds) with
steal pressure; the placement oracle on body-level samples of qthread_shep()/qthread_worker(); M1 of
qthread_find_active_shepherd (white-box harness/c/c07_fas.c, no runtime) against Kernel.Placement.fas / fas_nolist.
"""
import json
import os
from .. import core
from . import c04
from . import _c07_sheps

NOSHEP = 65535


def oracle_c07(sc, res, evs=None):
    """The property on the body-level samples only (what a user of the API can see).
    Soundness: a sample is only judged when the flag of the shepherd in question was not being changed between the task's
    previous event and the sample (the worker's read of `active` is unlocked)."""
    evs = evs or c04.parse_events(res)
    ns, nw = sc.ns, sc.nw
    fails = []
    # windows in which shepherd s is possibly-inactive: from the disable call to the enable return
    win = {}          # s -> list of [start, end]
    dis_ret = {}      # s -> list of (seq of D returned ok, seq of next e (enable call) or inf)
    for (seq, k, thr, a, b, c, d, e, f) in evs:
        if k == "d":
            win.setdefault(a, []).append([seq, float("inf")])
        elif k == "f":
            if win.get(a):
                win[a][-1][1] = seq
        elif k == "D" and b == 0:
            dis_ret.setdefault(a, []).append([seq, float("inf")])
        elif k == "e":
            if dis_ret.get(a):
                dis_ret[a][-1][1] = seq

    def possibly_inactive(s, lo, hi):
        return any(not (w[1] < lo or w[0] > hi) for w in win.get(s, []))

    pin = {}          # tag -> shepherd or None
    last = {}         # tag -> seq of the task's previous event
    addr_tag = {}     # live descriptor address -> tag (from the body-start event)
    last_deq = {}     # tag -> seq of the last scheduler dequeue (G event) of the task's descriptor
    spawn_seq = {}
    pend = {}
    for (seq, k, thr, a, b, c, d, e, f) in evs:
        if k == "S":
            pend[thr] = b
            t = sc.tasks.get(b)
            if t is not None:
                pin[b] = (t["target"] % ns) if (t["variant"] in c04.TO and t["target"] >= 0) else None
        elif k == "s":
            spawn_seq[a] = seq
            last[a] = seq
        if k == "G":
            # a dequeue of a descriptor: for a known task this is a dispatch (the pin is only enforced THERE: a task that
            # goes on running without passing through the scheduler - an operation that did not block, a refused or
            # same-shepherd migrate - legitimately stays where an earlier, legitimate dispatch put it)
            if a in addr_tag:
                last_deq[addr_tag[a]] = seq
        elif k == "F":
            addr_tag.pop(a, None)
        samples = None
        if k == "B":
            addr_tag[b] = a
            last_deq[a] = seq          # the start itself follows a dequeue (logged before the tag is known)
            samples = (a, c, d, "start")
        elif k == "r":
            samples = (a, b, c, "resumption")
        elif k == "M":
            tag, rc, shep, pw, h = a, b, c, d, e
            if rc == 0 and tag != 0:
                pin[tag] = None if h == NOSHEP else h
            samples = (tag, shep, pw, "return of qthread_migrate_to(%s)" % ("NO_SHEPHERD" if h == NOSHEP else h))
        if samples:
            tag, shep, pw, what = samples
            lo = last.get(tag, 0)
            if tag == 0:
                if shep != 0 or pw != 0:
                    fails.append("the main task ran on shepherd %d worker %d (%s at event %d)" % (shep, pw, what, seq))
            else:
                h = pin.get(tag)
                dispatched = last_deq.get(tag, -1) >= lo       # the task went through the scheduler since its previous event
                if h is not None and h < ns and shep != h and dispatched and not possibly_inactive(h, lo, seq):
                    fails.append("tag %d is pinned to shepherd %d (enabled) but its %s at event %d is on shepherd %d" % (tag, h, what, seq, shep))
                # disabled shepherds run nothing that was spawned after the disable returned
                for (dseq, eseq) in dis_ret.get(shep, []):
                    if tag in spawn_seq and dseq < spawn_seq[tag] - 1 and seq < eseq and spawn_seq[tag] < eseq:
                        # spawn call started after the disable returned: the S event precedes s; use the S seq conservatively
                        fails.append("tag %d was spawned after qthread_disable_shepherd(%d) returned (event %d) and its %s at event %d is on that shepherd (enable not before event %s)" % (
                            tag, shep, dseq, what, seq, eseq))
            if shep >= ns or pw // nw != shep:
                fails.append("qthread_shep()=%d / qthread_worker()=%d inconsistent on %dx%d" % (shep, pw, ns, nw))
        if k in "BrMpE" and k != "S":
            tagk = a
            last[tagk] = seq
    return fails


def gen_fas_cases(rng, n):
    cases = []
    while len(cases) < n:
        ns = rng.range(2, 9)
        usel = 0 if rng.chance(1, 8) else 1
        me = rng.below(ns)
        others = rng.shuffle([i for i in range(ns) if i != me])
        # distances: few distinct values so that ties are the rule; the list is sorted by distance like sort_sheps leaves it
        d = [rng.choice([10, 10, 10, 20, 30]) for _ in range(ns)]
        others.sort(key=lambda i: d[i])
        act = [1] + [1 if rng.chance(1, 2) else 0 for _ in range(ns - 1)]
        if rng.chance(1, 12):
            act = [1] + [0] * (ns - 1)
        q = [rng.choice([0, 0, 1, 1, 2, 5]) for _ in range(ns)]
        coins = [rng.below(2) for _ in range(ns)]
        cases.append(dict(n=ns, l=others, d=d, act=act, qlen=q, coins=coins, usel=usel))
    return cases


def fas_lines(c):
    j = lambda xs: ",".join(map(str, xs))
    impl = "%d | %s | %s | %s | %s | %s | %d" % (c["n"], j(c["l"]), j(c["d"]), j(c["act"]), j(c["qlen"]), j(c["coins"]), c["usel"])
    if c["usel"]:
        model = "X fas %s | %s | %s | %s | %s" % (j(c["l"]), j(c["d"]), j(c["act"]), j(c["qlen"]), j(c["coins"]))
    else:
        model = "X fasnl %d | %s | %s | %s" % (c["n"], j(c["act"]), j(c["qlen"]), j(c["coins"]))
    return impl, model


def run_fas(ctx, exe, drv, cases):
    il, ml = zip(*[fas_lines(c) for c in cases])
    rc, out, err = core.run_lines(exe, list(il), timeout=60)
    rc2, mout, _ = core.run_lines(drv, list(ml), timeout=60)
    mism, orc = [], []
    if len(out) != len(cases):
        orc.append(("qthread_find_active_shepherd crashed on case %d" % len(out), dict(cases[len(out)], kind="fas") if len(out) < len(cases) else {}))
    for c, o, m in zip(cases, out, mout):
        r = o.split()[1]
        if r != m.split()[1]:
            mism.append(("find_active_shepherd", dict(c, impl=o, model=m, kind="fas")))
        cand = c["l"] if c["usel"] else list(range(c["n"]))
        anyact = any(c["act"][i] for i in cand)
        if r == "NULL":
            if anyact:
                orc.append(("qthread_find_active_shepherd returned NULL although shepherd(s) %s are active" % [i for i in cand if c["act"][i]], dict(c, impl=o, kind="fas")))
        elif not c["act"][int(r)]:
            orc.append(("qthread_find_active_shepherd returned the disabled shepherd %s (active flags %s, list %s)" % (r, c["act"], c["l"]), dict(c, impl=o, kind="fas")))
    return mism, orc


def corpus_fas():
    d = os.path.join(core.VERIF, "corpus", "C07")
    out = []
    if os.path.isdir(d):
        for fn in sorted(os.listdir(d)):
            if fn.startswith("fas_") and fn.endswith(".json"):
                out.append(json.load(open(os.path.join(d, fn))))
    return out


def run(ctx):
    rng = ctx.rng
    quick = ctx.tier == "quick"
    exe, drv, regenerated = c04.prepare(ctx)
    fasexe = ctx.link("c07_fas", ["c07_fas.c"], exclude=["shepherds.c"])
    pr = ctx.coq_properties("Properties/Properties_C07.v")
    scenarios = [s for s in c04.corpus_scenarios("C07")]
    configs = [(2, 2), (4, 1), (3, 2), (1, 4), (1, 1)] if quick else c04.CONFIGS_THOROUGH
    per = 7 if quick else 30
    for (ns, nw) in configs:
        r = rng.fork()
        for i in range(per):
            sc = c04.gen_scenario(r, ns, nw, "c07")
            if ns > 1 and r.chance(1, 3):
                sc.env["QT_STEAL_CHUNK"] = r.choice([1, 2, 8])
            scenarios.append(sc)
    stats, corr, orc = c04.run_batch(ctx, exe, drv, scenarios, [c04.oracle_c04, oracle_c07], repeat=1 if quick else 2)
    cases = corpus_fas() + gen_fas_cases(rng.fork(), 400 if quick else 4000)
    m2, o2 = run_fas(ctx, fasexe, drv, cases)
    corr += [("qthread_find_active_shepherd differs from Kernel.Placement.fas: %s" % json.dumps(c), c) for (_, c) in m2]
    orc += o2
    ctx.cov.update(
        evaluations=stats["runs"] + len(cases), distinct_nontrivial=len(stats["nontrivial"]),
        rule="task trees with pinned (fork_to family) and unpinned tasks that yield / block / migrate (to another, the same, no shepherd, out of range) / make system calls, "
             "under overlapping disable/enable windows of several shepherds and steal chunk sizes; non-trivial = at least one wake-up, steal, send-home, re-route or migration observed; "
             "find_active_shepherd: random sorted lists, tie-heavy distance tables, activity vectors, queue lengths, coin sequences, both branches",
        samples=stats["samples"], traces_validated_against_impl=stats["runs"], model_labels_accepted=stats["labels"],
        events_logged=stats["events"], event_kinds=stats["kinds"], spawn_variants=stats["variants"], racy_flag_reads=stats["racy"],
        find_active_shepherd_cases=len(cases), configs=configs, correspondence_mismatches=len(corr), spawn_table_regenerated=regenerated)
    ctx.assumptions += ["the worker's reads of shepherd `active` flags are unlocked: placement is only judged (oracle and acceptor) when the flag was not being changed between the dequeue and the sample; the theorems carry this as the hypothesis reads_current",
                        "affinity/hwloc distances are inputs (read back from the runtime); random() tie-breaks are oracle bits",
                        "sequential consistency of the runtime's own accesses"]
    pr_s, corr_s, orc_s = _c07_sheps.run_sheps(ctx, quick)     # extension N: shepherds.c / workers.c / sort_sheps vs Kernel/Sheps.v
    c04.verdict(ctx, "C07", [pr, pr_s], corr + corr_s, orc + orc_s)


def replay(ctx, path):
    j = json.load(open(path))
    print(json.dumps(j, indent=1)[:3000])
    rep = j.get("replay", {})
    cand = rep.get("failing_input") or (rep.get("first_mismatch") or [None, None])[1] or rep
    if isinstance(cand, dict) and cand.get("kind") == "sheps":
        corr, orc = _c07_sheps.replay_case(ctx, cand)
        c04.verdict(ctx, "C07", [], corr, orc)
        return
    exe, drv, _ = c04.prepare(ctx)
    if isinstance(cand, dict) and cand.get("kind") == "fas":
        fasexe = ctx.link("c07_fas", ["c07_fas.c"], exclude=["shepherds.c"])
        m, o = run_fas(ctx, fasexe, drv, [cand])
        corr = [("find_active_shepherd differs from the model: %s" % json.dumps(c), c) for (_, c) in m]
        c04.verdict(ctx, "C07", [], corr, o)
        return
    if not isinstance(cand, dict) or "script" not in cand:
        return run(ctx)
    sc = c04.scenario_from_json(cand)
    stats, corr, orc = c04.run_batch(ctx, exe, drv, [sc], [c04.oracle_c04, oracle_c07], repeat=5)
    for c in corr[:3]:
        print("# correspondence:", c[0])
    for o in orc[:5]:
        print("# oracle:", o[0])
    c04.verdict(ctx, "C07", [], corr, orc)
