"""C04 (every spawned task runs exactly once with its argument) and the machinery shared with C07 (placement).

Model: coq/theories/Kernel/{GenSpawnTable,Placement,Model}.v ; theorems Properties/Properties_C04.v (C07: Properties_C07.v).
Tie (M4): harness/c/c04_kernel.c + white-box TUs c04_wb_{qthread,feb,syncvar,io}.c run a generated task tree on the real
runtime and log every kernel event (enqueue / dequeue / descriptor alloc+free / find_active_shepherd / syscall hand-over,
interposed at the calls that leave each TU) and every body event; the extracted model (ocaml/c04_driver.ml) must accept the
log as a sequence of its transitions and reach a finished state.  M1: qthread_thread_new descriptor construction.
Oracle (independent of the model, on body events only): each spawned tag starts once, finishes, sees the right argument.
"""
import json
import os
from .. import core
from . import c04_gen

KERNEL_SRCS = ["c04_kernel.c", "c04_wb_qthread.c", "c04_wb_feb.c", "c04_wb_syncvar.c", "c04_wb_io.c"]
KERNEL_EXCL = ["qthread.c", "feb.c", "syncvar.c", "io.c"]

V = dict(FORK=0, FORK_TO=1, COPYARGS=2, COPYARGS_TO=3, SYNCVAR=4, SYNCVAR_TO=5, SYNCVAR_COPYARGS=6, SYNCVAR_COPYARGS_SIMPLE=7,
         PRECOND=8, PRECOND_TO=9, PRECOND_SIMPLE=10, COPYARGS_PRECOND=11, NEW_TEAM=12, NEW_SUBTEAM=13, NEW_TEAM_TO=14,
         SYNCVAR_NEW_TEAM=15, SYNCVAR_NEW_SUBTEAM=16, COPYARGS_NEW_TEAM=17, COPYARGS_NEW_SUBTEAM=18, SYNCVAR_COPYARGS_TO=19,
         NET=20, SPAWN_SINC=21, SPAWN_SINC_VOID=22)
VNAME = {v: k for k, v in V.items()}
COPY = {2, 3, 6, 7, 11, 17, 18, 19, 21, 22}
TO = {1, 3, 5, 9, 14, 19, 21, 22}
PRE = {8, 9, 10, 11}
SIMPLE = {7, 10}
SUBTEAM = {13, 16, 18}
RETKIND = {0: 1, 1: 1, 2: 1, 3: 1, 4: 2, 5: 2, 6: 2, 7: 2, 8: 1, 9: 1, 10: 1, 11: 2, 12: 1, 13: 1, 14: 1, 15: 2, 16: 2, 17: 1, 18: 1,
           19: 2, 20: 1, 21: 3, 22: 4}


def prepare(ctx):
    """regenerate the spawn table from the working tree, build theorems' dependencies, harness and driver"""
    try:
        changed = c04_gen.write_if_changed(core.REPO, os.path.join(core.COQ, "theories", "Kernel", "GenSpawnTable.v"))
    except ValueError as e:
        raise core.BuildError("spawn-variant table cannot be read off the working tree: %s" % e)
    exe = ctx.link("c04_kernel", KERNEL_SRCS, exclude=KERNEL_EXCL)
    ok, log = ctx.coq_make(["theories/Kernel/ExtractC04.vo"])
    if not ok:
        raise core.BuildError("Kernel model does not compile / extract:\n" + log[-2000:])
    drv = ctx.model_driver("c04_driver")
    return exe, drv, changed


# ------------------------------------------------------------------ scenario generator
class Scenario:
    def __init__(self):
        self.tasks = {}     # tag -> dict(variant,target,asize,retkind,pre,ops[list of str],parent)
        self.ns = self.nw = 1
        self.env = {}
        self.profile = ""
        self.watchdog = 25

    def lines(self, watchdog=None):
        out = ["K %d" % (watchdog or self.watchdog)]
        for tag in sorted(self.tasks):
            t = self.tasks[tag]
            out.append("T %d %d %d %d %d %d %s" % (tag, t["variant"], t["target"], t["asize"], t["retkind"], t["pre"],
                                                   ",".join(t["ops"]) if t["ops"] else "-"))
        return out

    def to_json(self):
        return {"config": [self.ns, self.nw], "env": self.env, "profile": self.profile, "watchdog": self.watchdog, "script": self.lines()}


def gen_scenario(rng, ns, nw, profile, argcopy=1024, ntasks=None, allow_subteam=False):
    """profile: 'c04' (all variants, argument sizes at the copy thresholds) or 'c07' (pinning, migrate, disable/enable)"""
    sc = Scenario()
    sc.ns, sc.nw, sc.profile = ns, nw, profile
    n = ntasks or rng.range(4, 18)
    main = dict(variant=0, target=-1, asize=0, retkind=0, pre=-1, ops=[], parent=None)
    sc.tasks[0] = main
    gates = 0
    main_fills = []
    variants = [v for v in range(23) if allow_subteam or v not in SUBTEAM]
    if profile == "c07":
        wv = [(v, 6 if v in TO else 1) for v in variants]
    else:
        wv = [(v, 2 if v in COPY else 1) for v in variants]
    sizes = sorted(set([8, 9, 16, 64, max(8, argcopy - 1), max(8, argcopy), argcopy + 1, 2 * argcopy + 3, 5000]))
    nonblocking_top = []          # children of main that never block: may be given fill duties
    for tag in range(1, n + 1):
        v = rng.weighted(wv)
        # parent: main mostly; otherwise an earlier task
        parent = 0 if (tag == 1 or rng.chance(3, 5)) else rng.range(1, tag - 1)
        # spawns from a non-worker pthread: only variants whose spawn path makes no FEB / sinc call of its own (those would be
        # proxied through runtime-internal helper tasks, which are outside the scripted tree), and without a return location
        external = (parent == 0 and v in (0, 1, 2, 3, 4, 5, 6, 19, 20) and rng.chance(1, 8))
        t = dict(variant=v, target=-1, asize=0, retkind=0, pre=-1, ops=[], parent=parent, external=external)
        if v in TO:
            c = rng.below(10)
            t["target"] = rng.below(ns) if c < 7 else (ns + rng.below(3) if c < 9 else -1)
        if v in COPY:
            t["asize"] = rng.choice(sizes) if rng.chance(9, 10) else 0
        if not external and rng.chance(2, 3):
            t["retkind"] = RETKIND[v]
        if v in (21, 22):
            t["retkind"] = RETKIND[v]        # the sinc is the return location: always present
        if v in PRE and rng.chance(3, 4):
            t["pre"] = gates; gates += 1
            main_fills.append("f%d" % t["pre"])
        # program
        ops = []
        simple = v in SIMPLE
        k = rng.range(0, 7)
        blocking = False
        for _ in range(k):
            if simple:
                ops.append("u%d" % rng.range(1, 20))
                continue
            c = rng.below(100)
            if c < 38:
                ops.append("y")
            elif c < 50:
                ops.append("u%d" % rng.range(1, 60))
            elif c < 62:
                g = gates; gates += 1
                kind = "b" if rng.chance(1, 2) else "v"
                ops.append("%s%d" % (kind, g))
                main_fills.append(("f%d" if kind == "b" else "g%d") % g)
                blocking = True
            elif c < 72:
                ops.append("s")
                blocking = True
            elif c < (96 if profile == "c07" else 82):
                d = rng.below(10)
                h = rng.below(ns) if d < 7 else (-1 if d < 9 else ns + rng.below(2))
                ops.append("m%d" % h)
            else:
                ops.append("y")
        t["ops"] = ops
        t["blocking"] = blocking or t["pre"] >= 0
        sc.tasks[tag] = t
        if parent == 0 and not t["blocking"] and not simple:
            nonblocking_top.append(tag)
    # spawn ops (and optional waits) go into the parents' programs
    for tag in range(1, n + 1):
        t = sc.tasks[tag]
        p = sc.tasks[t["parent"]]
        pos = rng.below(len(p["ops"]) + 1)
        p["ops"].insert(pos, ("x%d" if t.get("external") else "c%d") % tag)
        psimple = p["variant"] in SIMPLE and t["parent"] != 0
        if t["retkind"] and t["parent"] != 0 and not psimple and rng.chance(1, 2):
            wpos = rng.range(pos + 1, len(p["ops"]))
            p["ops"].insert(wpos, "w%d" % tag)
    # hand some fills to non-blocking children of main, the rest to main itself (at random places: before or after the
    # blocked task exists, both are fine)
    fillers = [t for t in nonblocking_top if not any(o[0] == "w" for o in sc.tasks[t]["ops"])]
    for f in main_fills:
        if fillers and rng.chance(1, 3):
            who = sc.tasks[rng.choice(fillers)]
        else:
            who = main
        # a fill must come after nothing in particular; put it anywhere
        who["ops"].insert(rng.below(len(who["ops"]) + 1), f)
    # disable / enable windows issued by main: one window per shepherd, windows of different shepherds may overlap or nest
    if ns > 1 and (profile == "c07" or rng.chance(1, 4)):
        ops = main["ops"]
        sheps = rng.shuffle(list(range(1, ns)))[:rng.range(1, min(3, ns - 1))]
        ins = []
        for s in sheps:
            a_ = rng.below(len(ops) + 1)
            b_ = rng.range(a_, len(ops))
            ins.append((a_, 0, "D%d" % s))
            if rng.chance(1, 2):
                ins.append((a_, 1, "u%d" % rng.range(5, 80)))
            if rng.chance(5, 6):
                ins.append((b_, 2, "E%d" % s))
        for (pos, order, op) in sorted(ins, key=lambda x: (-x[0], -x[1])):
            ops.insert(pos, op)
    # cap program length (harness MAXOPS 48)
    for t in sc.tasks.values():
        assert len(t["ops"]) <= 46, "program too long"
    return sc


def gen_steal_scenario(rng, ns, layout=None, chunk=None):
    """Two-run steal: every other shepherd is held busy by a pinned task that spins (no yield) until released; meanwhile the
    main task (on shepherd 0, never yielding) lays out stealable tasks S and tasks U pinned to shepherd 0 on shepherd 0's
    queue, then releases the others, which steal across the unstealable nodes (second run of stolen nodes is spliced to
    the first).  Every tag must start and finish exactly once."""
    sc = Scenario()
    sc.ns, sc.nw, sc.profile, sc.watchdog = ns, 1, "steal", 10
    main = dict(variant=0, target=-1, asize=0, retkind=0, pre=-1, ops=[], parent=None)
    sc.tasks[0] = main
    tag = 0
    for s_ in range(1, ns):
        tag += 1
        sc.tasks[tag] = dict(variant=V["FORK_TO"], target=s_, asize=0, retkind=0, pre=-1, ops=["h0"], parent=0)
        main["ops"].append("c%d" % tag)
    for t in range(1, ns):
        main["ops"].append("a%d" % t)
    if layout is None:
        n_s = rng.range(6, 14)
        n_u = rng.choice([1, 1, 2, 2, 3])
        cells = ["S"] * n_s
        for _ in range(n_u):
            cells.insert(rng.range(2, len(cells) - 2) if rng.chance(4, 5) else rng.range(0, len(cells)), "U")
        layout = "".join(cells)
    for c in layout:
        tag += 1
        if c == "U":
            t = dict(variant=V["FORK_TO"], target=0, asize=0, retkind=0, pre=-1, ops=[], parent=0)
        else:
            v = rng.choice([V["FORK"], V["FORK"], V["COPYARGS"], V["SYNCVAR"], V["NET"]])
            t = dict(variant=v, target=-1, asize=(rng.choice([8, 64, 1025]) if v == V["COPYARGS"] else 0), retkind=0, pre=-1, ops=[], parent=0)
        t["ops"] = rng.choice([[], [], ["y"], ["u2"], ["y", "y"]])
        sc.tasks[tag] = t
        main["ops"].append("c%d" % tag)
    main["ops"].append("r0")
    ch = rng.choice([0, 1, 3, 5]) if chunk is None else chunk
    if ch:
        sc.env["QT_STEAL_CHUNK"] = ch
    sc.layout = layout
    return sc


# ------------------------------------------------------------------ running
def run_scenario(exe, sc, timeout=None):
    env = core.qenv(sc.ns, sc.nw, stack=65536, **sc.env)
    rc, out, err = core.run_lines(exe, sc.lines(), timeout=timeout or (sc.watchdog + 35), env=env)
    if not out or not out[0].startswith("H "):
        # killed by a signal before the header was out: the real code crashed (runtime start-up); anything else is a
        # harness that cannot run at all
        return dict(status="crash" if rc < 0 else "nostart", rc=rc, err=err[-400:], header=None, events=[], tail="")
    hdr = out[0]
    lists = [l for l in out[1:] if l.startswith("L ")]
    ev = [l for l in out[1:] if l and l[0].isdigit()]
    tail = out[-1] if out else ""
    status = "end" if tail.startswith("END") else "timeout" if tail.startswith("TIMEOUT") else "crash"
    if status == "end" and int(tail.split()[1]) >= (1 << 20):
        status = "overflow"
    return dict(status=status, rc=rc, err=err[-400:], header=hdr, lists=lists, events=ev, tail=tail)


def accept(drv, sc, res):
    """feed the log to the extracted model; returns (ok, reason, fin_ok, nlabels, racy)"""
    lines = [res["header"]] + [l for l in sc.lines() if l.startswith("T ")] + res["events"] + [res["tail"] or "END 0"]
    rc, out, err = core.run_lines(drv, lines, timeout=120)
    ok, reason, fin, nl, racy = False, "driver produced nothing: " + err[-200:], False, 0, 0
    for l in out:
        if l.startswith("ACCEPT"):
            ok, reason = True, ""
            p = l.split()
            nl = int(p[1]); racy = int(p[2].split("=")[1])
        elif l.startswith("REJECT"):
            ok, reason = False, l
        elif l.startswith("FIN"):
            fin = l.startswith("FIN ok")
            if not fin and ok:
                reason = l
    return ok, reason, fin, nl, racy


def parse_events(res):
    evs = []
    for l in res["events"]:
        p = l.split()
        if len(p) != 9 or p[1] == "?":
            continue
        evs.append((int(p[0]), p[1], int(p[2])) + tuple(int(x) for x in p[3:]))
    return evs


def oracle_c04(sc, res, evs=None):
    """the property itself on body-level events: every successful spawn -> exactly one start, one finish, right argument"""
    evs = evs or parse_events(res)
    spawned, begins, ends = {}, {}, {}
    pend = {}
    for (seq, k, thr, a, b, c, d, e, f) in evs:
        if k == "S":
            pend[thr] = (b, f)
        elif k == "s":
            if b == 0:
                spawned[a] = pend.get(thr, (a, 0))[1]
        elif k == "B":
            begins.setdefault(a, []).append((seq, e, f, thr))
        elif k == "E":
            ends[a] = ends.get(a, 0) + 1
    fails = []
    for tag, lst in begins.items():
        if tag not in sc.tasks or tag == 99999:
            fails.append("a body ran with an argument that names no spawned task (tag field %d)" % (lst[0][1] if tag == 99999 else tag))
            continue
        if len(lst) > 1:
            fails.append("tag %d started %d times" % (tag, len(lst)))
        t = sc.tasks[tag]
        for (seq, cks, ptrok, thr) in lst:
            if t["asize"] > 0:
                if tag in spawned and cks != spawned[tag]:
                    fails.append("tag %d (arg_size %d, variant %s) received bytes with checksum %d, source had %d at the spawn" % (
                        tag, t["asize"], VNAME[t["variant"]], cks, spawned[tag]))
                if not ptrok:
                    fails.append("tag %d (arg_size %d) received the caller's buffer, not a private copy" % (tag, t["asize"]))
            elif not ptrok:
                fails.append("tag %d (arg_size 0, variant %s) did not receive the caller's pointer" % (tag, VNAME[t["variant"]]))
    if res["status"] == "end":
        for tag in spawned:
            if tag not in begins:
                fails.append("tag %d was spawned successfully and never started" % tag)
            elif ends.get(tag, 0) != 1:
                fails.append("tag %d finished %d times" % (tag, ends.get(tag, 0)))
        for tag in sc.tasks:
            if tag and tag not in spawned:
                fails.append("tag %d: spawn did not return success" % tag)
    elif res["status"] == "timeout":
        missing = [t for t in sc.tasks if t and ends.get(t, 0) == 0]
        fails.append("run did not complete within the watchdog; tasks not finished: %s" % missing[:12])
    elif res["status"] in ("crash", "nostart"):
        copies = sorted(set((VNAME[t["variant"]], t["asize"]) for t in sc.tasks.values() if t.get("asize")))
        fails.append("the real runtime crashed (%s) while running this scenario on %dx%d%s; argument copies in it (variant, arg_size): %s" % (
            ("signal %d" % -res["rc"]) if res["rc"] < 0 else ("rc=%s" % res["rc"]), sc.ns, sc.nw,
            (" with " + " ".join("%s=%s" % kv for kv in sc.env.items())) if sc.env else "", copies[:12]))
    return fails


def probe_thread_new(ctx, exe, drv, argcopies):
    """M1: qthread_thread_new / qthread_thread_free on a live runtime vs thread_new_flags / thread_new_where.
    A crash of the real code inside the probe is a failing input (argcopy size, arg_size), not a build problem."""
    mism, orc, n = [], [], 0
    for ac in argcopies:
        sizes = sorted(set([0, 1, 2, 7, 8, 9, 63, 64, 65, max(0, ac - 1), ac, ac + 1, 2 * ac, 2 * ac + 1, 4096, 70000] +
                           [ctx.rng.range(0, 3 * ac + 10) for _ in range(12)]))
        env = core.qenv(1, 1, stack=65536) if ac == 1024 else core.qenv(1, 1, stack=65536, QT_ARGCOPY_SIZE=ac)
        rc, out, err = core.run_lines(exe, [str(s) for s in sizes], timeout=60, env=env, args=["probe"])
        if not out or not out[0].startswith("H "):
            if rc < 0:
                orc.append(("the real runtime crashed (signal %d) while starting for the qthread_thread_new probe (QT_ARGCOPY_SIZE=%d)" % (-rc, ac),
                            dict(kind="thread_new_probe", argcopy=ac, sizes=sizes)))
                continue
            raise core.BuildError("c04 probe did not start: rc=%s %s" % (rc, err[-300:]))
        real_ac = int(out[0].split()[3])
        rc2, mout, _ = core.run_lines(drv, ["X new %d %d" % (real_ac, s) for s in sizes], timeout=60)
        plines = [l for l in out[1:] if l.startswith("P ")]
        if len(plines) != len(sizes):
            died = sizes[len(plines)]
            orc.append(("qthread_thread_new/qthread_thread_free crashed (%s) in the probe at arg_size=%d with argcopy size %d (sizes done before: %s)" % (
                ("signal %d" % -rc) if rc < 0 else "rc=%s" % rc, died, real_ac, sizes[:len(plines)][-4:]),
                dict(kind="thread_new_probe", argcopy=real_ac, arg_size=died, sizes=sizes)))
        for s, pl, ml in zip(sizes, plines, mout):
            n += 1
            p = pl.split(); m = ml.split()
            flags = int(p[2]) & ((1 << 6) | (1 << 9)); where = int(p[3]); eq = int(p[4]); stable = int(p[5]); state = int(p[6]); notgt = int(p[7])
            pool = int(p[9]) if len(p) > 9 else -1
            case = dict(kind="thread_new_probe", argcopy=real_ac, arg_size=s, impl=pl, model=ml)
            if (flags, where) != (int(m[1]), int(m[2])) or state != 1 or notgt != 1 or pool != (1 if int(m[2]) == 1 else 0):
                mism.append(("thread_new", case))
            if where == 1 and pool != 1:
                orc.append(("qthread_thread_new(arg_size=%d, argcopy size %d): %d bytes are copied into data[] of a descriptor taken from the SMALL pool (no room: the copy overruns the neighbouring descriptors)" % (s, real_ac, s), case))
            if not eq or not stable:
                orc.append(("qthread_thread_new(arg_size=%d): the descriptor's argument %s" % (s, "differs from the source bytes" if not eq else "changed when the source was overwritten"), case))
            if s == 0 and where != 0:
                orc.append(("qthread_thread_new(arg_size=0) does not pass the caller's pointer", case))
            if s > 0 and where == 0:
                orc.append(("qthread_thread_new(arg_size=%d) passes the caller's pointer instead of a copy" % s, case))
    return n, mism, orc


def run_batch(ctx, exe, drv, scenarios, oracles, repeat=1):
    """runs every scenario `repeat` times; returns stats + lists of (kind, text, replay) for correspondence and oracle failures"""
    stats = dict(runs=0, labels=0, racy=0, events=0, kinds={}, variants={}, nontrivial=set(), samples=[])
    corr, orc = [], []
    for sc in scenarios:
        for rep in range(repeat):
            res = run_scenario(exe, sc)
            stats["runs"] += 1
            if res["status"] == "nostart":
                raise core.BuildError("c04 harness did not start on %dx%d: rc=%s %s" % (sc.ns, sc.nw, res["rc"], res["err"]))
            if res["status"] == "crash" and res["header"] is None:
                res["tail"] = ""
            if res["status"] == "overflow":
                ctx.notes.append("event log overflow on a scenario (skipped)")
                continue
            evs = parse_events(res)
            stats["events"] += len(evs)
            for e in evs:
                stats["kinds"][e[1]] = stats["kinds"].get(e[1], 0) + 1
            for t in sc.tasks.values():
                if t["parent"] is not None:
                    stats["variants"][VNAME[t["variant"]]] = stats["variants"].get(VNAME[t["variant"]], 0) + 1
            replay = dict(sc.to_json(), status=res["status"])
            ofails = []
            for o in oracles:
                ofails += o(sc, res, evs)
            for w in ofails:
                orc.append((w, replay))
            skip_acceptor = any(t["variant"] in SUBTEAM for t in sc.tasks.values())
            if skip_acceptor:
                continue
            if res["status"] != "end":
                corr.append(("the real runtime did not finish a script the model says terminates (%s%s)" % (
                    res["status"], (", signal %d" % -res["rc"]) if res["status"] == "crash" and res["rc"] < 0 else ""), replay))
                continue
            ok, reason, fin, nl, racy = accept(drv, sc, res)
            stats["labels"] += nl; stats["racy"] += racy
            if not ok or not fin:
                corr.append((reason or "model did not reach a finished state", replay))
            # non-trivial: at least one steal, wake-up, send-home, re-route or migration happened
            sig = (sc.ns, sc.nw, tuple(sc.lines()))
            thr_of = {}
            nontriv = False
            for (seq, k, thr, a, b, c, d, e, f) in evs:
                if k == "Q" and (f >> 4) in (1, 2, 3):
                    nontriv = True
                if k == "R":
                    nontriv = True
                if k == "G":
                    if thr_of.get(a) is not None and thr_of[a] // 256 != b:
                        nontriv = True
                if k == "Q":
                    thr_of[a] = b * 256
            if nontriv:
                stats["nontrivial"].add(hash(sig))
                if len(stats["samples"]) < 3:
                    stats["samples"].append(dict(config=[sc.ns, sc.nw], script=sc.lines()[1:6], events=len(evs), labels=nl))
    return stats, corr, orc


def verdict(ctx, prop, prs, corr, orc, known_sig=None):
    """DESIGN 5.1: decide and record"""
    broken_proofs = [p["file"] for p in prs if not p["ok"]]
    broken = bool(corr) or bool(broken_proofs)
    unknown = [(w, r) for (w, r) in orc if not (known_sig and known_sig(w, r))]
    known = [(w, r) for (w, r) in orc if known_sig and known_sig(w, r)]
    seen = {}
    for (w, r) in known:
        seen.setdefault(known_sig(w, r), (w, r))
    if not broken:
        for sig, (w, r) in seen.items():
            ctx.violation(sig, w, r)
        for (w, r) in unknown[:3]:
            ctx.violation("oracle:" + w.split()[0], w, r)
    else:
        what = ("correspondence model/implementation broken (%d cases): %s" % (len(corr), corr[0][0][:300])) if corr else \
               "theorems in %s no longer check" % ", ".join(broken_proofs)
        log = "\n".join(p["log"][-1200:] for p in prs if not p["ok"])
        if unknown:
            w, r = unknown[0]
            ctx.violation("broken+input", what + "; failing input: " + w,
                          {"failing_input": r, "reason": w, "first_mismatch": corr[0] if corr else None, "coq_log": log})
        else:
            ctx.violation("broken", what, {"theorem_or_correspondence": ("impl trace not accepted by Kernel.Model.step: " + corr[0][0]) if corr else ", ".join(broken_proofs),
                                           "first_mismatch": corr[0] if corr else None, "coq_log": log,
                                           "known_class_failures": {s: w for s, (w, r) in seen.items()}}, no_input=True)


CONFIGS_QUICK = [(1, 1), (2, 2), (4, 1), (3, 2), (1, 4)]
CONFIGS_THOROUGH = [(1, 1), (2, 1), (2, 2), (4, 1), (3, 2), (1, 4), (4, 4), (5, 1), (2, 4), (8, 1)]


def corpus_scenarios(prop):
    d = os.path.join(core.VERIF, "corpus", prop)
    out = []
    if os.path.isdir(d):
        for fn in sorted(os.listdir(d)):
            if fn.endswith(".json"):
                j = json.load(open(os.path.join(d, fn)))
                if "script" in j:
                    out.append(scenario_from_json(j))
    return out


def scenario_from_json(j):
    sc = Scenario()
    sc.ns, sc.nw = j["config"]
    sc.env = j.get("env", {})
    sc.profile = j.get("profile", "corpus")
    sc.watchdog = j.get("watchdog", 25)
    for l in j["script"]:
        p = l.split()
        if p[0] != "T":
            continue
        ops = [] if p[7] == "-" else p[7].split(",")
        sc.tasks[int(p[1])] = dict(variant=int(p[2]), target=int(p[3]), asize=int(p[4]), retkind=int(p[5]), pre=int(p[6]), ops=ops,
                                   parent=None if int(p[1]) == 0 else -1)
    # recover parents from the spawn ops
    for tag, t in sc.tasks.items():
        for o in t["ops"]:
            if o[0] in "cx":
                sc.tasks[int(o[1:])]["parent"] = tag
    return sc


def run(ctx):
    rng = ctx.rng
    quick = ctx.tier == "quick"
    exe, drv, regenerated = prepare(ctx)
    pr = ctx.coq_properties("Properties/Properties_C04.v")
    scenarios = corpus_scenarios("C04")
    configs = CONFIGS_QUICK if quick else CONFIGS_THOROUGH
    per = 7 if quick else 30
    for (ns, nw) in configs:
        r = rng.fork()
        for i in range(per):
            ac = 1024
            sc = gen_scenario(r, ns, nw, "c04", argcopy=ac)
            c = r.below(10)
            if c == 0:
                sc.env["QT_ARGCOPY_SIZE"] = 64
            elif c == 1 and ns > 1:
                sc.env["QT_STEAL_CHUNK"] = r.choice([1, 2, 8])
            scenarios.append(sc)
    # steal across unstealable nodes (two or more runs of stolen nodes), 2x1 and 3x1, all chunk settings
    r = rng.fork()
    # always run: one steal that gathers THREE or more separate runs of stealable nodes (two or more pinned nodes in
    # between, a middle run of length 1 and of length 2): the stolen list is spliced run by run, and a slip in that
    # splicing loses a whole run of spawned tasks (independent changes C08-3, C04-4, C08-4)
    for lay, chk in (("SUSUSSSS", 0), ("SUSSUSSSSS", 0), ("SSUSUSUSSSSS", 5), ("USUSSUSSSS", 0)):
        scenarios.append(gen_steal_scenario(r, 2, layout=lay, chunk=chk))
    for i in range(8 if quick else 40):
        scenarios.append(gen_steal_scenario(r, r.choice([2, 2, 3])))
    # a few scenarios with sub-team leaders: oracle only (their runtime-internal watcher tasks are outside the model)
    r = rng.fork()
    for i in range(3 if quick else 12):
        ns, nw = r.choice(configs)
        scenarios.append(gen_scenario(r, ns, nw, "c04", allow_subteam=True, ntasks=r.range(3, 8)))
    stats, corr, orc = run_batch(ctx, exe, drv, scenarios, [oracle_c04], repeat=1 if quick else 2)
    n1, mism1, orc1 = probe_thread_new(ctx, exe, drv, [1024, 64] if quick else [1024, 64, 8, 4096])
    corr += [("qthread_thread_new: flags/placement of the argument differ from the model: %s" % json.dumps(c), c) for (_, c) in mism1]
    orc += orc1
    ctx.cov.update(
        evaluations=stats["runs"] + n1, distinct_nontrivial=len(stats["nontrivial"]),
        rule="generated task trees over all 23 spawn variants (fork/_to/_copyargs/_syncvar/_precond/simple/new team/sinc return/external pthread), "
             "argument sizes at the in-descriptor/heap thresholds, bodies that yield / block on FEB and syncvar gates / migrate / make a blocking system call / spawn / wait; "
             "non-trivial = a run in which at least one wake-up, steal, re-route or system-call re-queue was observed",
        samples=stats["samples"], traces_validated_against_impl=stats["runs"], model_labels_accepted=stats["labels"],
        events_logged=stats["events"], event_kinds=stats["kinds"], spawn_variants=stats["variants"], racy_flag_reads=stats["racy"],
        thread_new_probes=n1, configs=configs, correspondence_mismatches=len(corr), spawn_table_regenerated=regenerated)
    ctx.assumptions += ["sequential consistency of the runtime's own accesses (fences are not modelled)",
                        "context switching, stacks and descriptor-pool reuse are outside the model (pool disjointness is C14)",
                        "sub-team leaders spawn runtime-internal watcher tasks: scenarios with them are checked by the oracle only",
                        "ready-queue order is abstracted (bag of nodes with stealable bits); order is C08's subject"]
    # ---- extension M (progress): composed kernel + queue model, end-of-run obligation quiescent_ok, failed spawns
    import sys
    from . import _c04_progress
    pr_p, corr_p, orc_p = _c04_progress.run(ctx, sys.modules[__name__])
    verdict(ctx, "C04", [pr, pr_p], corr + corr_p, orc + orc_p)


def replay(ctx, path):
    j = json.load(open(path))
    print(json.dumps(j, indent=1)[:3000])
    rep = j.get("replay", {})
    cand = rep.get("failing_input") or (rep.get("first_mismatch") or [None, None])[1] or rep
    if isinstance(cand, dict) and cand.get("kind") == "thread_new_probe":
        exe, drv, _ = prepare(ctx)
        n1, mism1, orc1 = probe_thread_new(ctx, exe, drv, [cand["argcopy"]])
        corr = [("qthread_thread_new differs from the model: %s" % json.dumps(c), c) for (_, c) in mism1]
        return verdict(ctx, "C04", [], corr, orc1)
    if isinstance(cand, dict) and cand.get("harness") == "c04_progress":      # extension M: scenarios of _c04_progress
        import sys
        from . import _c04_progress
        corr, orc = _c04_progress.replay(ctx, sys.modules[__name__], cand)
        return verdict(ctx, "C04", [], corr, orc)
    if not isinstance(cand, dict) or "script" not in cand:
        return run(ctx)
    exe, drv, _ = prepare(ctx)
    sc = scenario_from_json(cand)
    stats, corr, orc = run_batch(ctx, exe, drv, [sc], [oracle_c04], repeat=5)
    for c in corr[:3]:
        print("# correspondence:", c[0])
    for o in orc[:5]:
        print("# oracle:", o[0])
    verdict(ctx, "C04", [], corr, orc)
