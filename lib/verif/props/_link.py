"""Extension R: the link between the op-atomic models (M2) and the history acceptors (M4), executed on concrete instances.

Theorems (Properties/Properties_C01_link.v, Properties_C03_link.v): for every script, the history built from the MODEL's own
run (tickets assigned as the model's `Ret` events are emitted; Feb/ModelHistoryDefs.v hist_from, Syncvar/ModelHistoryDefs.v
sv_hist_of_run) is `explained` in the sense of Feb/History.v / Syncvar/History.v, hence never rejected by the extracted
acceptor `decide`.  This tier runs exactly that on generated M2 scripts (the generators of _feb_common.py / c03.py and the
corpus): ocaml/c01link_driver.ml executes the extracted model, builds the history of every word / variable and asks the
extracted acceptor.  A rejection of an unperturbed history cannot come from /repo (no real code is involved): it would mean
that the extraction or the driver glue is wrong, and is reported as such.  Negative controls: perturbed histories (a return
dropped, two return tickets exchanged, an observed value changed) are fed to the same acceptor; the fixed controls must be
rejected, the random ones are counted.
"""
import os

from .. import core

FUEL = 200000
FUEL_CONTROL = 1000         # as in the Examples of Feb|Syncvar/ModelHistoryExamples.v
FUEL_PERTURBED = 1500       # a perturbed history sends the complete search through its whole space: keep that small
FEB_CONTROL = ["S 6 0 0 1 3", "o 0 0 empty 0 11", "o 1 0 readFE 0 12", "o 2 0 readFE 0 13", "o 3 0 readFF 0 14",
               "o 4 0 writeFF_const 0 9", "o 5 0 writeEF_const 0 5"]          # Feb/ModelHistoryExamples.v ex_link
SV_CONTROL = ["N 7 2", "I 0 3 fffffffffffffff", "I 1 0 0", "O 1 0 0 0 1", "O 2 0 2 0 1", "O 3 0 2 0 0", "O 1 1 10 0 1",
              "O 4 0 9 1 1", "O 4 0 6 5 1", "O 5 0 5 6 1", "O 5 0 10 0 1", "O 4 0 4 1000000000000000 1", "O 6 0 9 3 1",
              "O 6 1 5 9 1"]                                                    # Syncvar/ModelHistoryExamples.v ex_sc


def _parse(line):
    """'L w:V:n:p:o ...' -> list of (w, verdict, calls, pending, overlap)"""
    out = []
    for tok in line.split()[1:]:
        w, v, n, p, o = tok.split(":")
        out.append((int(w), v, int(n), int(p), int(o)))
    return out


def _feb_scripts(ctx, rng, n):
    from . import _feb_common as fc
    passes, runs, table = fc.srcfacts(core.REPO)
    scripts = []
    for cp in ("C01", "C02", "C06"):
        for fn, ls in fc.load_corpus(cp):
            if ls and ls[0].startswith("S "):
                scripts.append(("corpus/%s/%s" % (cp, fn), ls))
    model = fc.Model(ctx.model_driver("c01_driver"), table)
    try:
        profs = ["mix", "waiters", "precond", "waiters"]
        for k in range(n):
            sc = fc.gen_script(rng, model, fc.PROFILES[profs[k % len(profs)]], allow_ret1=True)
            scripts.append(("gen:%s:%d" % (profs[k % len(profs)], k), sc["lines"]))
    finally:
        model.close()
    return table, scripts


def _sv_scripts(ctx, rng, n, quick):
    from . import c03
    scripts = [("corpus/C03/" + nm, s) for nm, s in c03.load_corpus()]
    for k in range(n):
        scripts.append(("gen:%d" % k, c03.gen_script(rng, quick)))
    return [], scripts


def run_link(ctx, quick, which):
    """which = "feb" (C01) or "syncvar" (C03)"""
    feb = which == "feb"
    tag = "feb" if feb else "sv"
    pr = ctx.coq_properties("Properties/Properties_C01_link.v" if feb else "Properties/Properties_C03_link.v")
    ok, log = ctx.coq_make(["theories/Feb/ExtractLink.vo"])
    if not ok:
        raise core.BuildError("Feb/ExtractLink.v does not compile:\n" + log[-2000:])
    drv = ctx.model_driver("c01link_driver")
    rng = core.Splitmix(ctx.seed * 7919 + (0x51F if feb else 0x53F))       # own stream derived from VERIF_SEED: other tiers' streams untouched
    n = (120 if quick else 2500) if feb else (250 if quick else 4000)
    head, scripts = _feb_scripts(ctx, rng, n) if feb else _sv_scripts(ctx, rng, n, quick)
    ctl = FEB_CONTROL if feb else SV_CONTROL
    # ---- one driver session: per script the plain evaluation, then (every third script) three perturbed ones
    lines = list(head)
    plan = []                       # (script index | -1 for a control, mutation or None)
    for i, (nm, ls) in enumerate(scripts):
        lines += ls + ["EVAL %s %d none" % (tag, FUEL)]
        plan.append((i, None))
        if i % 3 == 0:
            k = rng.below(5)
            for mut in ("drop %d" % k, "bump %d" % k, "swap %d %d" % (k, k + 1 + rng.below(4))):
                lines.append("EVAL %s %d %s" % (tag, FUEL_PERTURBED, mut))
                plan.append((i, mut))
    controls = [("none", "A"), ("drop 2", "R"), ("bump 2", "R")] if feb else [("none", "A"), ("drop 0", "R"), ("bump 3", "R")]
    lines += ctl
    for mut, _ in controls:
        lines.append("EVAL %s %d %s" % (tag, FUEL_CONTROL, mut))
        plan.append((-1, mut))
    rc, out, err = core.run_lines(drv, lines, timeout=600 if quick else 3000)
    res = [l for l in out if l.startswith("L")]
    if rc != 0 or len(res) != len(plan):
        raise core.BuildError("c01link_driver failed (rc=%s, %d answers for %d questions): %s" % (rc, len(res), len(plan), err[-500:]))
    st = {"scripts": len(scripts), "histories": 0, "calls": 0, "pending_calls": 0, "histories_with_overlap": 0,
          "histories_with_pending": 0, "accepted": 0, "fuel_exhausted": 0, "rejected": 0, "ill_formed": 0,
          "perturbed": 0, "perturbed_rejected": 0, "perturbed_ill_formed": 0, "controls_ok": 0}
    bad = []
    ctl_bad = []
    nontrivial = 0
    for (i, mut), l in zip(plan, res):
        ws = _parse(l)
        if i < 0:
            want = dict(controls)[mut]
            got = ws[0][1] if ws else "?"
            if got == want:
                st["controls_ok"] += 1
            else:
                ctl_bad.append((mut, want, got))
            continue
        if mut is None:
            nt = False
            for (w, v, nc, npend, ov) in ws:
                if nc == 0:
                    continue
                st["histories"] += 1
                st["calls"] += nc
                st["pending_calls"] += npend
                st["histories_with_overlap"] += ov
                st["histories_with_pending"] += 1 if npend else 0
                nt = nt or bool(ov)
                if v == "A":
                    st["accepted"] += 1
                elif v == "U":
                    st["fuel_exhausted"] += 1
                else:
                    st["rejected" if v == "R" else "ill_formed"] += 1
                    bad.append({"name": scripts[i][0], "script": scripts[i][1], "word": w, "verdict": v, "answer": l})
            nontrivial += 1 if nt else 0
        else:
            for (w, v, nc, npend, ov) in ws:
                if nc == 0:
                    continue
                st["perturbed"] += 1
                st["perturbed_rejected"] += 1 if v == "R" else 0
                st["perturbed_ill_formed"] += 1 if v == "B" else 0
    st["scripts_with_overlapping_history"] = nontrivial
    ctx.cov["link_" + which] = dict(st, rule="per generated / corpus M2 script and per word: history built from the extracted model's own run "
                                    "(tickets at the model's Ret events), judged by the extracted acceptor with fuel %d; overlap = some call was "
                                    "invoked while another was in flight (a waiter released by a later call); perturbed = the same history with a "
                                    "return dropped / two return tickets exchanged / an observed value changed (negative controls: rejections counted; "
                                    "the fixed controls of Feb|Syncvar/ModelHistoryExamples.v must be rejected)" % FUEL)
    ctx.notes.append("link tier (%s): %d model histories (%d calls, %d pending, %d with overlapping tickets) from %d scripts: %d accepted, "
                     "%d fuel exhausted, %d rejected; %d/%d perturbed histories rejected; fixed controls %d/%d"
                     % (which, st["histories"], st["calls"], st["pending_calls"], st["histories_with_overlap"], st["scripts"], st["accepted"],
                        st["fuel_exhausted"], st["rejected"] + st["ill_formed"], st["perturbed_rejected"], st["perturbed"],
                        st["controls_ok"], len(controls)))
    if bad:
        b = bad[0]
        ctx.violation("link:model-history-rejected",
                      "the history of word/variable %d built from the extracted model's run of %s is not accepted (%s) although "
                      "%s proves it explained: extraction or driver glue of the link tier is wrong (%d such histories)"
                      % (b["word"], b["name"], b["verdict"], "model_runs_are_accepted" if feb else "sv_model_runs_are_accepted", len(bad)),
                      {"theorem_or_correspondence": "Properties_C0%s_link / c01link_driver" % ("1" if feb else "3"), "case": b,
                       "rerun": "(script lines; echo 'EVAL %s %d none') | ocaml/bin/c01link_driver" % (tag, FUEL)}, no_input=True)
    if ctl_bad:
        ctx.violation("link:control",
                      "negative control of the link tier: perturbation `%s` of the example history must be judged %s, got %s"
                      % ctl_bad[0], {"theorem_or_correspondence": "c01link_driver / extracted acceptor", "controls": ctl_bad,
                                     "script": ctl}, no_input=True)
    return pr
