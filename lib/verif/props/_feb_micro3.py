"""C01 / C02, extension K: micro-step tier with a pre-blocked third task.  The micro-step model coq/theories/Feb/Micro3.v (extracted
into ocaml/bin/c01micro3_driver) is replayed on the real src/feb.c with a two-hold baton (harness/c/c01_micro3.c, mode M3): a
third task G is first blocked on the word (EFQ / FEQ / FFQ / FFWQ), then task A is held before its k-th interposed shared access,
task B before its j-th (or runs its whole call), A is released, B is released; 4 shepherds x 1 worker (controller, A, B, G).
Every real outcome is compared with the model's outcome for that schedule (results of the three tasks, word, full bit, record
present, task ids on the four waiter lists in list order, the kinds of the accesses the tasks were held at and the whole sequence
of interposed accesses of both tasks) wherever the schedule determines the outcome (nobody has to wait for a lock a held task
owns), and judged on ALL schedules by an independent atomic-cell oracle written from the property text (is the outcome that of the
two calls as atomic steps in one of the two orders, the blocked task having been there first; is anybody left blocked whose
condition holds; is the record there iff somebody waits or the word is empty)."""
import os
import re
import subprocess
from .. import core

OPS = ["readFE", "readFE_nb", "readFF", "readFF_nb", "readXX", "writeEF", "writeEF_nb", "writeF", "writeFF", "fill", "empty", "purge_to", "status"]
INITS = ["full", "empty", "fullEF", "emptyFE", "emptyFF", "emptyFFW"]
VA, VB, VG, V0 = 11, 22, 33, 5
PROPS = "Properties/Properties_C01_micro3.v"
NORECHECK_BAD = 115          # triples of the regression variant (removal without re-check) with a bad interleaving


# --------------------------------------------------------------------------------------------------------------------------- oracle
class ACell:
    """the atomic full/empty cell of the property text with its blocked operations (most recent first on each list)"""

    def __init__(self, init):
        self.full = init in ("full", "fullEF")
        self.val = V0
        self.hist = [V0]
        self.ef, self.fe, self.ff, self.ffw = [], [], [], []
        self.res = {}
        if init == "fullEF":
            self.ef = [(2, VG)]
        elif init == "emptyFE":
            self.fe = [2]
        elif init == "emptyFF":
            self.ff = [2]
        elif init == "emptyFFW":
            self.ffw = [(2, VG)]

    def store(self, v):
        self.val = v
        self.hist.append(v)

    def wake(self):
        """a word that became full serves every blocked writeFF and readFF and ONE blocked readFE (which empties it); a word that
        became empty serves ONE blocked writeEF (which fills it); and so on"""
        while True:
            if self.full:
                for t, v in self.ffw:
                    self.store(v)
                    self.res[t] = ("OK", None)
                self.ffw = []
                for t in self.ff:
                    self.res[t] = ("OK", self.val)
                self.ff = []
                if not self.fe:
                    return
                self.res[self.fe.pop(0)] = ("OK", self.val)
                self.full = False
            else:
                if not self.ef:
                    return
                t, v = self.ef.pop(0)
                self.store(v)
                self.res[t] = ("OK", None)
                self.full = True

    def call(self, t, op, v):
        nb = op.endswith("_nb")
        base = op[:-3] if nb else op
        if base == "readXX":
            self.res[t] = ("OK", self.val)
            return
        if base == "status":
            self.res[t] = ("OK", 1 if self.full else 0)
            return
        if base == "readFF":
            if self.full:
                self.res[t] = ("OK", self.val)
            elif nb:
                self.res[t] = ("OPFAIL", None)
            else:
                self.ff.insert(0, t)
            return
        if base == "readFE":
            if self.full:
                self.res[t] = ("OK", self.val)
                self.full = False
            elif nb:
                self.res[t] = ("OPFAIL", None)
                return
            else:
                self.fe.insert(0, t)
                return
        elif base == "writeEF":
            if not self.full:
                self.store(v)
                self.full = True
                self.res[t] = ("OK", None)
            elif nb:
                self.res[t] = ("OPFAIL", None)
                return
            else:
                self.ef.insert(0, (t, v))
                return
        elif base == "writeFF":
            if self.full:
                self.store(v)
                self.res[t] = ("OK", None)
            else:
                self.ffw.insert(0, (t, v))
            return
        elif base == "writeF":
            self.store(v)
            self.full = True
            self.res[t] = ("OK", None)
        elif base == "fill":
            self.full = True
            self.res[t] = ("OK", None)
        elif base == "empty":
            self.full = False
            self.res[t] = ("OK", None)
        elif base == "purge_to":
            self.store(v)
            self.full = False
            self.res[t] = ("OK", None)
        self.wake()

    def outcome(self):
        return (self.res.get(0), self.res.get(1), self.res.get(2), self.full, self.val,
                [t for t, _ in self.ef], list(self.fe), list(self.ff), [t for t, _ in self.ffw])


def orders(init, a, b):
    out = []
    for first in (0, 1):
        c = ACell(init)
        seq = [(0, a, VA), (1, b, VB)]
        if first:
            seq.reverse()
        for t, op, v in seq:
            c.call(t, op, v)
        out.append(c.outcome())
    return out


def needs(op):
    """the state a blocked call waits for"""
    return {"readFE": True, "readFF": True, "writeFF": True, "writeEF": False}.get(op)


def judge(init, a, b, r):
    """r = parsed real outcome.  -> (verdict, reason): 'ok' | 'stuck' | 'structure' | 'lost-wakeup' | 'bad'"""
    if r["stuck"]:
        return "stuck", "a task neither returned nor blocked (it waits for a lock for ever)"
    lists = r["EF"] + r["FE"] + r["FF"] + r["FFW"]
    if r["orphan"]:
        return "structure", "a blocked task is on no waiter list of the record the table holds"
    if bool(r["rec"]) != bool(lists or not r["full"]):
        return "structure", "record present=%d but full=%d and the waiter lists are EF=%s FE=%s FF=%s FFW=%s" % (r["rec"], r["full"], r["EF"], r["FE"], r["FF"], r["FFW"])
    if r["rec"] and r["mfull"] != r["full"]:
        return "structure", "qthread_feb_status says %d, the record's full bit is %d" % (r["full"], r["mfull"])
    gop = {"fullEF": "writeEF", "emptyFE": "readFE", "emptyFF": "readFF", "emptyFFW": "writeFF"}.get(init)
    for name, op in (("A", a), ("B", b), ("G", gop)):
        if op and r[name] is None and needs(op) is not None and needs(op) == bool(r["full"]):
            return "lost-wakeup", "%s is still blocked in %s although the word is %s" % (name, op, "full" if r["full"] else "empty")
    obs = (r["A"], r["B"], r["G"], bool(r["full"]), r["word"], r["EF"], r["FE"], r["FF"], r["FFW"])
    cands = orders(init, a, b)
    if obs in cands:
        return "ok", ""
    # readXX takes no lock: it may see the value between the other call and the operation that call wakes
    for xx_t, xx, o_t, o, val in ((0, a, 1, b, VB), (1, b, 0, a, VA)):
        if xx == "readXX" and o != "readXX":
            c = ACell(init)
            c.call(o_t, o, val)
            want = list(c.outcome())
            got = list(obs)
            seen = got[xx_t]
            got[xx_t] = want[xx_t] = None
            if got == want and seen is not None and seen[0] == "OK" and seen[1] in c.hist:
                return "ok", ""
    return "bad", "outcome %s is not that of the two calls in either order %s" % (obs, cands)


# --------------------------------------------------------------------------------------------------------------------------- parsing
_LINE = re.compile(r"A=(\S+):(\S+) B=(\S+):(\S+) G=(\S+):(\S+) full=(-?\d+) word=(-?\d+) rec=(-?\d+) EF=\[([0-9,]*)\] FE=\[([0-9,]*)\] FF=\[([0-9,]*)\] FFW=\[([0-9,]*)\] (.*)")


def parse(line):
    m = _LINE.match(line)
    if not m:
        return None

    def rr(c, v):
        return None if c == "BLK" else (c, None if v == "-" else int(v))

    def ls(x):
        return [int(t) for t in x.split(",") if t]
    kv = dict(t.split("=", 1) for t in m.group(14).split() if "=" in t)
    d = {"A": rr(m.group(1), m.group(2)), "B": rr(m.group(3), m.group(4)), "G": rr(m.group(5), m.group(6)),
         "full": int(m.group(7)), "word": int(m.group(8)), "rec": int(m.group(9)),
         "EF": ls(m.group(10)), "FE": ls(m.group(11)), "FF": ls(m.group(12)), "FFW": ls(m.group(13))}
    for k in ("uaf", "orphan", "stuck", "c1", "c2", "good", "nlw", "early", "adone", "overlap", "gearly", "gret"):
        d[k] = int(kv.get(k, 0))
    d["mfull"] = int(kv.get("mfull", -1))
    for k in ("atA", "atB", "seqA", "seqB", "zoneA", "zoneB"):
        d[k] = kv.get(k, "")
    return d


def hold_points(rle):
    """positions (1-based) of the interposed accesses of a call"""
    return list(range(1, sum(int(x.split("*")[1]) for x in rle.split(",") if x) + 1))


# --------------------------------------------------------------------------------------------------------------------------- runs
def model_lines(drv, queries, flags=()):
    rc, out, err = core.run_lines(drv, ["h %s %s %d %s %d" % q for q in queries], timeout=900, args=["--held"] + list(flags))
    res = [parse(l) for l in out]
    if rc != 0 or len(res) != len(queries) or None in res:
        raise core.BuildError("c01 micro3 model driver failed: rc=%s %s %s" % (rc, out[-2:], err[-300:]))
    return res


def run_real(exe, probes, models, slow):
    """-> list of parsed lines (None = the harness died before answering).  After a stuck probe the harness exits (a worker
    waits for ever) and is restarted for the rest."""
    res = [None] * len(probes)
    i, deaths = 0, 0
    env = core.qenv(4, 1, stack=65536)
    CHUNK = 1500             # one harness process per chunk (arena: 8000 words)
    while i < len(probes) and deaths < 12:       # (a hang costs `slow` seconds: after two of them the watchdog is shortened)
        lines = []
        for p, m in zip(probes[i:i + CHUNK], models[i:i + CHUNK]):
            # c1 (B has to wait for a lock the held A owns): once A is released both run at the same time and B may reach its
            # own hold point owning a lock A needs, so A is then given a short time only as well
            lines.append("m %s %s %d %s %d %d %d %d %g" % (p + (m["c1"], 1 if (m["c2"] or m["c1"]) else 0, m["gearly"], slow if deaths < 2 else 3.0)))
        rc, out, err = core.run_lines(exe, lines, timeout=900, env=env)
        if not out or not out[0].startswith("H "):
            raise core.BuildError("c01 micro3 harness did not start: rc=%s %s %s" % (rc, out[:1], err[-300:]))
        got = [g for g in (parse(l) for l in out[1:]) if g is not None]
        for k, g in enumerate(got[:len(lines)]):
            res[i + k] = g
        if len(got) >= len(lines) and not got[-1]["stuck"]:
            i += len(lines)
            continue
        deaths += 1
        i += len(got) if (got and got[-1]["stuck"]) else len(got) + 1
    return res


def gen_probes(ctx, drv, quick):
    rng = ctx.rng.fork()
    triples = [(i, a, b) for i in INITS for a in OPS for b in OPS]
    solo = model_lines(drv, [(i, a, 0, b, 0) for (i, a, b) in triples])
    probes, tags = [], {}

    def add(p, tag):
        if p not in tags:
            tags[p] = tag
            probes.append(p)
    # (0) corpus: witnesses and hand-picked schedules
    cpath = os.path.join(core.VERIF, "corpus", "C01", "micro3_witnesses.probes")
    if os.path.exists(cpath):
        for l in open(cpath):
            t = l.split("#")[0].split()
            if len(t) == 5 and t[0] in INITS and t[1] in OPS and t[3] in OPS:
                add((t[0], t[1], int(t[2]), t[3], int(t[4])), "corpus")
    # (0') no hold: A runs its whole call, then B (every triple; the order B first is the triple with the calls swapped)
    for (i, a, b) in triples:
        add((i, a, 0, b, 0), "no-hold")
    # (a) one hold: A at each of its hold points, B runs its whole call (or as far as it gets)
    one = []
    for (i, a, b), s in zip(triples, solo):
        for k in hold_points(s["seqA"]):
            one.append((i, a, k, b, 0))
    om = model_lines(drv, one)
    # the aimed class: A is held inside a wake-up body or inside qthread_FEB_remove and B makes progress meanwhile
    aimed = {}
    for q, m in zip(one, om):
        if m["zoneA"] in ("body", "remove") and (m["overlap"] or m["c1"]):
            aimed.setdefault((q[0], q[1], q[3]), []).append((q, m))
    for key in sorted(aimed):
        cand = aimed[key]
        if quick:
            free = [q for q, m in cand if not m["c1"]]
            cont = [q for q, m in cand if m["c1"]]
            for q in rng.shuffle(free)[:2]:
                add(q, "aimed:" + ("body" if dict(cand)[q]["zoneA"] == "body" else "remove"))
            if cont and rng.below(4) == 0:
                add(rng.choice(cont), "aimed-contended")
        else:
            for q, m in cand:
                add(q, "aimed:" + m["zoneA"] if not m["c1"] else "aimed-contended")
    if quick:
        for q in rng.shuffle(one)[:150]:
            add(q, "one-hold")
    else:
        for q in one:
            add(q, "one-hold")
    # (b) two holds: B is held too (inside ITS body / removal when it has one), A finishes first
    base = [q for q, m in zip(one, om) if not m["c1"]]
    base = rng.shuffle(base)[:(120 if quick else 6000)]
    bm = model_lines(drv, base)
    for q, m in zip(base, bm):
        hp = hold_points(m["seqB"])
        if hp:
            add((q[0], q[1], q[2], q[3], rng.choice(hp)), "two-holds")
    return probes, tags


def coq_props(ctx):
    """ctx.coq_properties for the micro-step theorems.  In the thorough tier core re-checks every property file with coqchk, whose
    default (-bytecode-compiler no) re-checks the vm_compute sweeps with the lazy conversion; the same independent re-check is run
    here with `-bytecode-compiler yes` (1.5 min), in the background while the probes run"""
    mine = ctx.tier == "thorough" and not os.environ.get("VERIF_NO_COQCHK")
    if mine:
        os.environ["VERIF_NO_COQCHK"] = "1"
    try:
        pr = ctx.coq_properties(PROPS)
    finally:
        if mine:
            del os.environ["VERIF_NO_COQCHK"]
    proc = None
    if mine and pr["ok"]:
        proc = subprocess.Popen(["timeout", "2400", "coqchk", "-o", "-silent", "-bytecode-compiler", "yes", "-Q", "theories", "QV",
                                 "QV." + PROPS[:-2].replace("/", ".")], cwd=core.COQ, stdout=subprocess.PIPE, stderr=subprocess.STDOUT,
                                universal_newlines=True)
    return pr, proc


def coqchk_collect(ctx, proc):
    if proc is None:
        return
    out = proc.communicate()[0]
    i = out.find("CONTEXT SUMMARY")
    summ = " ".join(out[i:].split())[:1500] if i >= 0 else out[-800:]
    ctx.trusted.append("coqchk -o -bytecode-compiler yes QV.%s: rc=%d %s" % (PROPS[:-2].replace("/", "."), proc.returncode, summ[:600]))
    if proc.returncode != 0:
        ctx.discharged -= len(re.findall(r'^Theorem ', open(os.path.join(core.COQ, 'theories', PROPS)).read(), re.M))
        ctx.coq_failed.append(PROPS + " (coqchk)")


def run_micro3(ctx, quick, verbose=False):
    pr, chk = coq_props(ctx)
    try:
        return _run_micro3(ctx, quick, verbose)
    finally:
        coqchk_collect(ctx, chk)


def _exhaustive(drv, flags):
    rc, out, err = core.sh([drv] + flags, timeout=600)
    summ = [l for l in out.splitlines() if l.startswith("# pairs=")]
    if rc != 0 or not summ:
        raise core.BuildError("c01 micro3 model driver (exhaustive) failed: rc=%s %s" % (rc, err[-300:]))
    return dict((k, int(v)) for k, v in re.findall(r"(\w+)=(\d+)", summ[0])), [l for l in out.splitlines() if l.startswith("BAD")]


def _run_micro3(ctx, quick, verbose=False):
    drv = ctx.model_driver("c01micro3_driver")
    exe = ctx.link("c01_micro3", ["c01_micro3.c"], exclude=["feb.c"])
    # exhaustive search of the extracted model (supports the theorems): the code as it is has no bad interleaving, the regression
    # variant (removal without re-check) has them in exactly NORECHECK_BAD triples
    sm, badl = _exhaustive(drv, [])
    smo, _ = _exhaustive(drv, ["--norecheck"])
    model_ok = sm["bad_pairs"] == 0 and sm["pairs"] == len(INITS) * len(OPS) ** 2 and smo["bad_pairs"] == NORECHECK_BAD

    probes, tags = gen_probes(ctx, drv, quick)
    models = model_lines(drv, probes)
    # a contended probe costs two short waits (B waits for a lock the held A owns): bounded number per run
    cap, kept = ({"aimed-contended": 70, "other": 40} if quick else {"aimed-contended": 1200, "other": 800}), []
    for p, m in zip(probes, models):
        if (m["c1"] or m["c2"]) and tags[p] != "corpus":
            cls = "aimed-contended" if tags[p] == "aimed-contended" else "other"
            if cap[cls] <= 0:
                continue
            cap[cls] -= 1
        kept.append((p, m))
    probes, models = [p for p, _ in kept], [m for _, m in kept]
    reals = run_real(exe, probes, models, 40.0)
    findings, mismatches = {}, []
    nrun = ncont = nexact = naimed = ngret = 0
    for p, m, r in zip(probes, models, reals):
        init, a, k, b, j = p
        case = {"config": [4, 1], "probe": list(p), "class": tags[p],
                "schedule": "%s: %s is held before its %d. interposed access (%s), %s before its %d. (%s); the first is released, then the second"
                            % (init, a, k, m["atA"], b, j, m["atB"]), "model": m, "real": r}
        if r is None:
            mismatches.append(dict(case, what="the harness gave no answer for this probe"))
            continue
        nrun += 1
        contended = m["c1"] or m["c2"]
        ncont += 1 if contended else 0
        naimed += 1 if tags[p].startswith("aimed") else 0
        ngret += r["gret"]
        verdict, why = judge(init, a, b, r)
        if verbose:
            print("%-8s %-10s k=%-3d %-10s j=%-3d %-16s real %s %s %s full=%d word=%d | model good=%d %s %s" % (
                init, a, k, b, j, tags[p], r["A"], r["B"], r["G"], r["full"], r["word"], m["good"], verdict, "(contended)" if contended else ""))
        if verdict != "ok":
            findings.setdefault("micro3:" + verdict, []).append((why, dict(case, oracle=why)))
        if not contended:
            nexact += 1
            same = all(r[f] == m[f] for f in ("A", "B", "G", "full", "word", "rec", "EF", "FE", "FF", "FFW", "atA", "atB", "seqA", "seqB"))
            if not same:
                mismatches.append(dict(case, what="outcome / access sequence differs from the model: " +
                                       ", ".join("%s real %s model %s" % (f, r[f], m[f]) for f in ("A", "B", "G", "full", "word", "rec", "EF", "FE", "FF", "FFW", "atA", "atB", "seqA", "seqB") if r[f] != m[f])))
        # contended schedules do not determine the outcome (only the oracle speaks), but progress the model excludes is a fact
        if m["c1"] and r["early"] and not r["stuck"]:
            mismatches.append(dict(case, what="the second call got past a lock which, in the model, the held first call owns"))
        elif not m["c1"] and m["c2"] and r["adone"] and not r["stuck"]:
            mismatches.append(dict(case, what="the first call finished while, in the model, it waits for a lock the held second call owns"))
    # the correspondence broke but the oracle accepted every outcome so far: search for a failing input around the disagreeing
    # triples (every hold point of either call, as the REAL access sequences give them, the other call running meanwhile)
    nsearch = 0
    if mismatches and not findings:
        extra, seen = [], set(probes)
        for mm in mismatches[:60]:
            r = mm.get("real")
            if not r:
                continue
            init, a, k, b, j = mm["probe"]
            for x, y, seq in ((a, b, r["seqA"]), (b, a, r["seqB"])):
                for kk in hold_points(seq):
                    q = (init, x, kk, y, 0)
                    if q not in seen:
                        seen.add(q)
                        extra.append(q)
        extra = extra[:500]
        if extra:
            em = model_lines(drv, extra)
            er = run_real(exe, extra, em, 3.0)
            for p, m, r in zip(extra, em, er):
                if r is None:
                    continue
                nsearch += 1
                verdict, why = judge(p[0], p[1], p[3], r)
                if verdict in ("bad", "structure", "lost-wakeup"):    # (the model's contention flags are not to be trusted here: no 'stuck')
                    case = {"config": [4, 1], "probe": list(p), "class": "search",
                            "schedule": "%s: %s is held before its %d. interposed access (%s), %s runs; the first is released"
                                        % (p[0], p[1], p[2], r["atA"], p[3]), "model": m, "real": r, "oracle": why}
                    findings.setdefault("micro3:" + verdict, []).append((why, case))
    ctx.cov["micro3"] = {
        "probes": len(probes), "answered": nrun, "by_class": {t: sum(1 for p in probes if tags[p] == t) for t in sorted(set(tags.values()))},
        "aimed_wakeup_body_or_removal_overlapped": naimed, "compared_exactly_with_model": nexact, "contended": ncont,
        "third_task_returned_while_first_call_held": ngret,
        "failing_input_search_probes": nsearch, "mismatches": len(mismatches), "oracle_rejections": {s: len(v) for s, v in findings.items()},
        "exhaustive_model_search": sm, "exhaustive_model_search_without_recheck": smo,
        "observables": "per probe: results of the three tasks (buffer as found at the moment the call returns), word, qthread_feb_status, record "
                       "present and its full bit, task ids on EFQ/FEQ/FFQ/FFWQ in list order, orphaned blocked task, hang; kinds of the "
                       "accesses held at and run-length encoded sequence of interposed accesses of both tasks"}
    ctx.cov["evaluations"] = ctx.cov.get("evaluations", 0) + nrun
    ctx.cov["traces_validated_against_impl"] = ctx.cov.get("traces_validated_against_impl", 0) + nexact
    ctx.assumptions.append("micro-step tier with a pre-blocked third task (Feb/Micro3.v): two running tasks + at most one task already blocked, one word; "
                           "plain loads / stores (word, m->full, lists) are not interposed: a hold point is an interposed access (table / record lock "
                           "operations, the fence after a copy, the hand-over of a waiter, the release of the record), the model's finer "
                           "interleavings are covered by the theorems only; sequential consistency")
    for sig, lst in findings.items():
        why, case = lst[0]
        ctx.violation(sig, "C01/C02 micro-step (third task blocked): %s: %s (%d probes)" % (case["schedule"], why, len(lst)), case)
    if not model_ok:
        ctx.violation("broken", "the exhaustive search of the micro-step model Feb.Micro3 no longer gives what the theorems say: current %s, without re-check %s"
                      % (sm, smo), {"theorem_or_correspondence": "Feb.Micro3 exhaustive search vs micro3_atomic_triples / micro3_norecheck_refuted",
                                    "bad": badl[:5]}, no_input=True)
    if mismatches and not findings:
        ctx.violation("broken", "micro-step correspondence Feb.Micro3 / implementation broken in %d probe(s); the atomic-cell oracle accepts "
                      "the observed outcomes: %s" % (len(mismatches), mismatches[0]["what"][:300]),
                      {"theorem_or_correspondence": "impl != Feb.Micro3 (held schedule)", "first_mismatch": mismatches[0]}, no_input=True)
    return {"probes": len(probes), "mismatches": mismatches, "findings": findings}


def is_micro3_replay(path):
    import json
    try:
        j = json.load(open(path))
    except Exception:
        return False
    return str(j.get("signature", "")).startswith("micro3:") and isinstance(j.get("replay", {}).get("probe"), list)


def replay_file(ctx, path):
    import json
    return replay_probe(ctx, json.load(open(path))["replay"]["probe"])


def replay_probe(ctx, probe):
    """./check C01 --replay <file> for a micro-step probe [init, A, k, B, j]"""
    drv = ctx.model_driver("c01micro3_driver")
    exe = ctx.link("c01_micro3", ["c01_micro3.c"], exclude=["feb.c"])
    p = (probe[0], probe[1], int(probe[2]), probe[3], int(probe[4]))
    m = model_lines(drv, [p])[0]
    r = run_real(exe, [p], [m], 40.0)[0]
    print("probe %s\n model: %s\n real : %s" % (list(p), m, r))
    if r is None:
        ctx.violation("micro3:no-answer", "the harness gave no answer for the probe", {"probe": list(p)})
        return
    verdict, why = judge(p[0], p[1], p[3], r)
    print(" oracle:", verdict, why)
    if verdict != "ok":
        ctx.violation("micro3:" + verdict, why, {"probe": list(p), "model": m, "real": r})
