"""C16, extension J: the FULL operation set of dictionary_shavit.c at micro-step granularity.

Model: coq/theories/Dict/MicroFull.v (put_if_absent / get / put = qt_lf_force_list_insert / delete = get-then-remove with mark CAS,
unlink CAS and qpool_free / the helping branch of qt_lf_list_find / the pool's LIFO free list whose free() overwrites the node's
value and key words), histories + linearizability in Dict/MicroFullHist.v, theorems in Properties/Properties_C16_micro.v,
extracted into ocaml/bin/c16micro_driver.
Tie (M3, harness/c/c16_dict.c command J, 1 shepherd x 1 worker): the op lists run under a DIRECTED schedule of grants (a grant = the
task runs from the schedule point it is held at to its next one; schedule points: hash callback, equals callback, every
interposed CAS, end of task).  At every arrival the harness records the task, the kind of access it is held at (which CAS of which
function), the whole list (node identity as ordinal, so_key, key, value, mark) and the pool's free list read from the freed nodes'
own memory.  The extracted machine is given the same initial state and the same grants: every arrival line must be identical,
and so must the history (returned values, order of invocations and responses) and the final state.
The three witnesses of the open findings (corpus/C16/microfull_*.json) are the schedules of the Coq refutation theorems
(Dict/MicroFullWitness.v is checked to contain the same programs and grants)."""
import json
import os
import re
from .. import core

PROPS = "Properties/Properties_C16_micro.v"
M64 = (1 << 64) - 1
M63 = (1 << 63) - 1
PBASE = 1152921504606846976
CORPUS_DIR = os.path.join(core.VERIF, "corpus", "C16")
WITNESS_V = os.path.join(core.COQ, "theories", "Dict", "MicroFullWitness.v")


def rev64(x):
    return int(format(x & M64, "064b")[::-1], 2)


# ------------------------------------------------------------------------------------------------------------ oracle
def lin_check_key(ops):
    """ops: (inv, res, op, arg, ret) on ONE key, initial state absent.  Wing-Gong search; True when a linearization exists."""
    n = len(ops)
    if n == 0:
        return True
    ops = sorted(ops)
    full = (1 << n) - 1
    seen = set()
    stack = [(0, 0)]
    while stack:
        done, st = stack.pop()
        if done == full:
            return True
        if (done, st) in seen:
            continue
        seen.add((done, st))
        minres = min(ops[i][1] for i in range(n) if not (done >> i) & 1)
        for i in range(n):
            if (done >> i) & 1:
                continue
            inv, res, op, arg, ret = ops[i]
            if inv > minres:
                break
            if op == "p":
                ok, ns = (ret == arg), arg
            elif op == "a":
                ok, ns = ((ret == arg), arg) if st == 0 else ((ret == st), st)
            elif op == "g":
                ok, ns = (ret == st), st
            else:
                ok, ns = (ret == st), 0
            if ok:
                stack.append((done | (1 << i), ns))
    return False


# ------------------------------------------------------------------------------------------------------------ generation
MIXES = {
    "insert-only": [("a", 5), ("g", 3)],
    "put": [("p", 5), ("a", 3), ("g", 2)],
    "delete": [("a", 5), ("g", 2), ("x", 5)],
    "mixed": [("p", 3), ("a", 3), ("g", 2), ("x", 4)],
}


def case_class(c):
    ops = set(op for l in c["tasks"] for (op, k, v) in l)
    if "x" in ops and "p" in ops:
        return "concurrent-delete-vs-put"
    if "x" in ops:
        return "concurrent-delete-reclaim"
    if "p" in ops:
        return "concurrent-replacing-put"
    return "concurrent-insert-only"


def gen_grants(rng, nt, nops):
    g = []
    style = rng.below(6)
    n = rng.range(4 * nops, 14 * nops)
    if style == 0:                                  # everybody parked at the hash callback first, then bursts
        g += list(range(nt))
    if style >= 4:                                  # park one task deep inside its operation (7 grants: a delete at its mark CAS, 8: at its
        order = rng.shuffle(list(range(nt)))        # unlink CAS), the others behind it (3..4: at a helping / insert CAS), then release one by one
        g += [order[0]] * rng.choice([5, 6, 7, 7, 8, 8])
        for t in order[1:]:
            g += [t] * rng.choice([2, 3, 3, 4, 4, 7])
        for t in rng.shuffle(order):
            g += [t] * rng.choice([1, 1, 2, 4])
    while len(g) < n:
        t = rng.below(nt)
        g += [t] * (rng.choice([1, 1, 1, 2, 2, 3, 4]) if style != 3 else rng.choice([1, 1, 2, 6, 9]))
    return g[:400]


def gen_case(rng, mix):
    if rng.chance(1, 2):
        kind, keys = 1, list(range(1, rng.choice([2, 2, 3, 4]) + 1))          # constant hash: one collision chain behind the dummy of bucket 1
    elif rng.chance(1, 2):
        kind, keys = 2, [1] + [4 * i for i in range(1, rng.range(1, 3) + 1)]  # bucket 0 chain + a key of bucket 1
    else:
        kind, keys = rng.choice([0, 9, 3]), list(range(1, rng.choice([1, 2, 3, 4]) + 1))
    setup = [("g", k, 0) for k in keys]
    val = [50]
    for k in keys:
        if rng.chance(1, 2):
            val[0] += 1
            setup.append(("a", k, val[0]))
            if rng.chance(1, 4):
                val[0] += 1
                setup.append(("a", k, val[0]))      # finds the key: the private node goes to the pool's free list
            if rng.chance(1, 4) and mix in ("delete", "mixed"):
                setup.append(("x", k, 0))           # an unlinked node on the free list before the run starts
    setup = setup[:len(keys)] + rng.shuffle(setup[len(keys):])
    nt = rng.choice([2, 2, 3, 3, 4])
    tasks = []
    v = 100
    for t in range(nt):
        l = []
        for i in range(rng.range(1, 4)):
            v += 1
            l.append((rng.weighted(MIXES[mix]), rng.choice(keys), v))
        tasks.append(l)
    nops = sum(len(l) for l in tasks)
    return dict(name="gen-" + mix, kind=kind, keys=keys, setup=setup, tasks=tasks, grants=gen_grants(rng, nt, nops))


def load_corpus():
    cs = []
    if os.path.isdir(CORPUS_DIR):
        for f in sorted(os.listdir(CORPUS_DIR)):
            if f.startswith("microfull_") and f.endswith(".json"):
                c = json.load(open(os.path.join(CORPUS_DIR, f)))
                c["setup"] = [tuple(x) for x in c["setup"]]
                c["tasks"] = [[tuple(x) for x in l] for l in c["tasks"]]
                c["file"] = f
                cs.append(c)
    return cs


# ------------------------------------------------------------------------------------------------------------ running
def impl_script(c):
    s = ["N 2 %d" % c["kind"], "h " + " ".join(str(k) for k in c["keys"])]
    for (op, k, v) in c["setup"]:
        s.append("%s %d %d" % (op, k, v) if op in "ap" else "%s %d" % (op, k))
    s.append("c")
    for t, l in enumerate(c["tasks"]):
        for (op, k, v) in l:
            s.append("t %d %s %d %d" % (t, op, k, v))
    s.append("J %d %s" % (len(c["tasks"]), " ".join(map(str, c["grants"]))))
    return s


def run_impl(exe, c, env, timeout=120):
    rc, out, err = core.run_lines(exe, impl_script(c) + ["Q"], timeout=timeout, env=env)
    if not out or not out[0].startswith("H "):
        raise core.BuildError("c16 harness did not start: rc=%s %s" % (rc, err[-500:]))
    r = dict(rc=rc, out=out, dead=False)
    if any(l == "TIMEOUT" for l in out) or not any(l.startswith("J9") for l in out):
        r["dead"] = True
        return r
    r["hv"] = dict(zip(c["keys"], [int(x) for x in out[2].split()[1:]]))
    r["setup_out"] = out[3:3 + len(c["setup"])]
    r["j0"] = [l for l in out if l.startswith("J0")][0]
    r["arr"] = [l for l in out if l.startswith("A ")]
    r["ev"] = [l.split() for l in out if l.startswith("E ")]
    r["j9"] = [l for l in out if l.startswith("J9")][0]
    return r


def model_init_lines(c, r, pol=(0, 1)):
    """-> (lines, error).  Initial state of the machine from the J0 snapshot of the real run."""
    parts = r["j0"].split("|")
    lst = [x.split(":") for x in parts[1].split()]
    fre = [x.split(":") for x in parts[2].split()]
    if [int(x[0]) for x in lst] != list(range(len(lst))) or any(x[4] != "0" for x in lst):
        return None, "initial list not in canonical form: " + r["j0"][:300]
    if any(len(x) != 6 for x in fre) or [int(x[0]) for x in fre] != list(range(len(lst), len(lst) + len(fre))):
        return None, "initial free list not in canonical form: " + r["j0"][:300]
    sos = [int(x[1]) for x in lst]
    iks = [int(x[2]) for x in lst]
    hv = r["hv"]

    def start_of(k):
        b = (hv[k] & M63) % 2
        for i, (so, key) in enumerate(zip(sos, iks)):
            if so == rev64(b) and key == 0:
                return i
        return None
    ms = ["S " + " ".join("%d %d" % (k, rev64((hv[k] & M63) | (1 << 63))) for k in c["keys"]),
          "P %d %d" % pol,
          "L " + " ".join(":".join(x[1:4]) for x in lst),
          "F " + " ".join(":".join(x[1:6]) for x in fre)]
    for t, l in enumerate(c["tasks"]):
        for (op, k, v) in l:
            st = start_of(k)
            if st is None:
                return None, "bucket of key %d not initialised by the set-up" % k
            ms.append("O %d %s %d %d %d" % (t, op, k, v, st))
    ms.append("B %d" % len(c["tasks"]))
    return ms, None


STATS = {}


def compare(mdrv, c, r, timeout=120):
    """-> (mismatch or None, model_linearizable or None, info)"""
    ms, e = model_init_lines(c, r)
    if e:
        return e, None, {}
    nbase = len(ms)
    grants = [int(a.split()[1]) for a in r["arr"]]
    ms += ["D"] + ["X %d" % t for t in grants] + ["D", "E", "Z", "C"]
    rc, mo, err = core.run_lines(mdrv, ms, timeout=timeout)
    if len(mo) < nbase + len(grants) + 5:
        return "model driver output truncated: %s" % err[-300:], None, {}
    if mo[nbase][1:] != r["j0"][2:]:
        return "initial state differs: impl '%s' model '%s'" % (r["j0"][:300], mo[nbase][:300]), None, {}
    xs = mo[nbase + 1:nbase + 1 + len(grants)]
    for i, (a, x) in enumerate(zip(r["arr"], xs)):
        if a != x:
            return "arrival %d (task %d): impl '%s' model '%s'" % (i, grants[i], a[:400], x[:400]), None, dict(step=i)
    fin = mo[nbase + 1 + len(grants)]
    if fin[1:] != r["j9"][2:]:
        return "final state differs: impl '%s' model '%s'" % (r["j9"][:300], fin[:300]), None, {}
    rest = mo[nbase + 2 + len(grants):]
    mev = []
    i = 0
    while i < len(rest) and rest[i] != "E.":
        mev.append(rest[i].split())
        i += 1
    z = rest[i + 1] if i + 1 < len(rest) else ""
    cl = rest[i + 2] if i + 2 < len(rest) else "C"
    # history: per-task results and the global order of invocations / responses
    iev = sorted([(int(e[7]), "i", int(e[1])) for e in r["ev"]] + [(int(e[8]), "r", int(e[1])) for e in r["ev"]])
    mevs = sorted([(int(e[6]), "i", int(e[1])) for e in mev] + [(int(e[7]), "r", int(e[1])) for e in mev])
    if [(a, b) for (_, a, b) in iev] != [(a, b) for (_, a, b) in mevs]:
        return "order of invocations/responses differs: impl %s model %s" % (iev[:20], mevs[:20]), None, {}
    for t in range(len(c["tasks"])):
        ir = [(e[3], e[4], e[5] if e[3] in "ap" else "0", e[6]) for e in r["ev"] if int(e[1]) == t]
        mr = [(e[2], e[3], e[4], e[5]) for e in mev if int(e[1]) == t]
        if ir != mr:
            return "results of task %d differ: impl %s model %s" % (t, ir, mr), None, {}
    for kv in cl.split()[1:]:
        k, v = kv.split("=")
        STATS[k] = STATS.get(k, 0) + int(v)
    return None, (z == "Z 1"), dict(arrivals=len(grants))


def oracle(c, r, final=True):
    """per-key linearizability of the REAL history (set-up operations as a sequential prefix, the final list as quiescent gets)"""
    byk = {}
    ns = len(c["setup"])
    stamp = -2 * ns - 2
    for (op, k, v), o in zip(c["setup"], r["setup_out"]):
        byk.setdefault(k, []).append((stamp, stamp + 1, op, v, int(o.split()[1])))
        stamp += 2
    last = 0
    for e in r["ev"]:
        op, k, v, ret, inv, res = e[3], int(e[4]), int(e[5]), int(e[6]), int(e[7]), int(e[8])
        byk.setdefault(k, []).append((inv, res, op, v, ret))
        last = max(last, res)
    fin = {}
    for x in r["j9"].split("|")[1].split():
        o, so, k, v, m = (int(y) for y in x.split(":"))
        if k and not m:
            if k in fin and final:
                return "key %d is in the list twice" % k
            fin[k] = v
    for k in sorted(byk):
        h = byk[k] + ([(last + 1, last + 2, "g", 0, fin.get(k, 0))] if final else [])
        if not lin_check_key(h):
            return "non-linearizable history on key %d: %s" % (k, sorted(h)[:12])
    return None


def model_search(mdrv, c, r, seed, n, pol=(0, 1)):
    """ask the machine for a schedule of grants (from the real initial state) whose history is not linearizable"""
    ms, e = model_init_lines(c, r, pol)
    if e:
        return None
    rc, mo, err = core.run_lines(mdrv, ms + ["M %d %d" % (seed, n)], timeout=120)
    if mo and mo[-1].startswith("M bad"):
        return [int(x) for x in mo[-1].split()[2:]]
    return None


def witness_defs():
    """programs / grants of the witnesses as they appear in Dict/MicroFullWitness.v: name -> (grants, tasks or None)"""
    if not os.path.exists(WITNESS_V):
        return {}
    src = open(WITNESS_V).read()
    d = {}
    for m in re.finditer(r"Definition\s+(wit_[a-z_0-9]+)_grants\s*:\s*list nat\s*:=\s*\[([0-9; \n]*)\]", src):
        d[m.group(1)] = [[int(x) for x in m.group(2).replace("\n", " ").split(";") if x.strip()], None]
    for m in re.finditer(r"Definition\s+(wit_[a-z_0-9]+)_progs\s*:\s*list \(list fop\)\s*:=\s*\[(.*?)\]\.", src, re.S):
        tasks = []
        for inner in re.findall(r"\[([^\[\]]*)\]", m.group(2)):
            l = []
            for o in inner.split(";"):
                w = o.split()
                if not w:
                    continue
                if w[0] in ("FPia", "FPut"):
                    l.append(("a" if w[0] == "FPia" else "p", int(w[1]), int(w[2])))
                else:
                    l.append(("g" if w[0] == "FGet" else "x", int(w[1]), 0))
            tasks.append(l)
        for k in d:
            if k == m.group(1) or k.startswith(m.group(1) + "_"):
                d[k][1] = tasks
    return d


def witness_matches(wdefs, c, real_grants):
    w = c.get("witness")
    if w is None:
        return True
    if w not in wdefs:
        return False
    g, tasks = wdefs[w]
    mine = [[(op, k, v if op in "ap" else 0) for (op, k, v) in l] for l in c["tasks"]]
    return g == real_grants and tasks == mine


# ------------------------------------------------------------------------------------------------------------ entry point
def run_microfull(ctx, quick):
    pr = ctx.coq_properties(PROPS)
    exe = ctx.link("c16_dict_j", ["c16_dict.c"], exclude=["ds/dictionary/dictionary_shavit.c"])
    mdrv = ctx.model_driver("c16micro_driver")
    env = core.qenv(1, 1, stack=65536)
    rng = ctx.rng.fork()
    corpus = load_corpus()
    wdefs = witness_defs()
    cases = list(corpus)
    mixes = ["insert-only", "put", "delete", "mixed", "delete"]
    for i in range(110 if quick else 1500):
        cases.append(gen_case(rng, mixes[i % len(mixes)]))
    mism = []            # (what, case)
    unexplained = []     # the real history is not linearizable although the machine's is
    known = {}           # signature -> [(case, why)]
    dead = []
    runs = arrivals = guided = guided_hit = 0
    cls_hist = {}
    wit_ok = []
    budget_guided = 12 if quick else 150
    qi = 0
    while qi < len(cases):
        c = cases[qi]
        qi += 1
        cls = case_class(c)
        cls_hist[cls] = cls_hist.get(cls, 0) + 1
        r = run_impl(exe, c, env)
        runs += 1
        if r["dead"]:
            dead.append(c)
            continue
        m, zlin, info = compare(mdrv, c, r)
        arrivals += info.get("arrivals", 0)
        why = oracle(c, r)
        if m:
            mism.append((m, c))
            if why and cls == "concurrent-insert-only":
                unexplained.append((why, c))
            continue
        why_h = oracle(c, r, final=False)       # the history alone: what the extracted Coq checker (linb) looks at
        if (why_h is None) != bool(zlin):
            mism.append(("the machine's history is %slinearizable (Coq linb) but the oracle on the real history says: %s" % ("" if zlin else "NOT ", why_h), c))
            continue
        if why:
            if cls == "concurrent-insert-only":
                unexplained.append((why, c))
            else:
                known.setdefault(cls, []).append((c, why))
        if "file" in c:
            exp = c.get("expect", {})
            w = c.get("witness")
            okw = (exp.get("linearizable", True) == (why is None)) and exp.get("signature", cls) == cls and \
                  witness_matches(wdefs, c, [int(a.split()[1]) for a in r["arr"]])
            if okw:
                wit_ok.append(c["file"])
            else:
                mism.append(("corpus witness %s: expected %s (Coq witness %s), the run gave linearizable=%s class %s grants %s" % (
                    c["file"], exp, wdefs.get(w), why is None, cls, [int(a.split()[1]) for a in r["arr"]]), c))
        # model-guided: a schedule the machine says is not linearizable, from this very initial state, replayed on the real code
        if "file" not in c and not c.get("guided") and cls != "concurrent-insert-only" and why is None and guided < budget_guided:
            guided += 1
            g = model_search(mdrv, c, r, rng.next() & 0x7fffffff, 150)
            if g:
                guided_hit += 1
                cases.append(dict(c, name=c["name"] + "-guided", grants=g, guided=True))
    ctx.cov.setdefault("micro_full", {}).update(
        runs=runs, arrivals_compared=arrivals, classes=cls_hist, mismatches=len(mism), real_runs_died=len(dead),
        corpus_witnesses_agreeing=wit_ok, known_finding_histories={k: len(v) for k, v in known.items()},
        model_guided_searches=guided, model_guided_schedules_replayed=guided_hit, branches=dict(STATS),
        theorems=pr["theorems"], theorems_ok=pr["ok"])
    ctx.notes.append("micro_full: the delete / replacing-put classes are replayed against Dict/MicroFull.v (M3); their non-linearizable "
                     "histories are reproduced by the machine step by step (known findings), the three Coq refutation witnesses are corpus cases")
    for sig, lst in known.items():
        c, why = min(lst, key=lambda x: sum(len(l) for l in x[0]["tasks"]))
        ctx.violation(sig, "micro_full (real code == Dict/MicroFull.v on this schedule): " + why, dict(case=c, microfull_script=impl_script(c)))
    seen_dead = set()
    for c in dead:
        sig = case_class(c)
        if sig in seen_dead:
            continue
        seen_dead.add(sig)
        if sig == "concurrent-insert-only":
            ctx.violation("unlisted:micro_full crash", "the real code crashed or hung in an insert-only directed run", dict(case=c, microfull_script=impl_script(c)))
        else:
            ctx.violation(sig, "micro_full: the real code crashed or hung in a directed %s run" % sig, dict(case=c, microfull_script=impl_script(c)))
    if mism or not pr["ok"]:
        what = ("micro_full: correspondence real code / Dict/MicroFull.v broken (%d cases; first: %s)" % (len(mism), mism[0][0])) if mism else \
               "theorems in %s no longer check" % PROPS
        if unexplained:
            w, c = unexplained[0]
            ctx.violation("broken+input", what + "; failing input: " + w, dict(failing_input=c, microfull_script=impl_script(c), reason=w,
                                                                            first_mismatch=mism[0] if mism else None, coq_log=pr["log"][-1500:]))
        else:
            # a failing input among the disagreeing cases: the real history is rejected although the machine's is accepted
            fi = None
            for (m, c) in mism[:40]:
                r = run_impl(exe, c, env)
                if r["dead"]:
                    fi = ("the real code crashed or hung; the machine terminates", c)
                    break
                why = oracle(c, r)
                ms, e = model_init_lines(c, r)
                if why and ms:
                    g = [int(a.split()[1]) for a in r["arr"]]      # the schedule the real run took
                    rc, mo, err = core.run_lines(mdrv, ms + ["X %d" % t for t in g] + ["X %d" % t for t in range(len(c["tasks"])) for _ in range(60)] + ["Z"], timeout=120)
                    if mo and mo[-1] == "Z 1":
                        fi = (why, c)
                        break
            if fi:
                ctx.violation("broken+input", what + "; failing input (the machine's history for these grants is linearizable, the real one is not): " + fi[0],
                              dict(failing_input=fi[1], microfull_script=impl_script(fi[1]), reason=fi[0], first_mismatch=mism[0] if mism else None))
            else:
                ctx.violation("broken", what, dict(theorem_or_correspondence=("impl != Dict.MicroFull: " + mism[0][0]) if mism else PROPS,
                                                   first_mismatch=mism[0] if mism else None, microfull_script=impl_script(mism[0][1]) if mism else None,
                                                   coq_log=pr["log"][-1500:]), no_input=True)
    else:
        for (w, c) in unexplained[:2]:
            ctx.violation("unlisted:micro_full " + w.split(":")[0], w, dict(case=c, microfull_script=impl_script(c)))
