"""C03, extension B: micro-step tier.  The micro-step model of ALL syncvar operations (coq/theories/Syncvar/MicroAll.v, extracted
into ocaml/bin/c03micro_driver) is replayed on the real src/syncvar.c with a targeted baton (harness/c/c03_micro.c, mode M3):
task A is held before its k-th interposed shared access, task B before its j-th (or runs its whole call), A is released, B is
released; 3 shepherds x 1 worker.  Every real outcome is compared with the model's outcome for that schedule (results, word,
record, waiter lists, the kinds of the accesses the tasks were held at and the whole sequence of interposed accesses of both
tasks) and judged by an independent atomic-cell oracle written from the property text (is the outcome that of the two calls in
one of the two orders?).

Two classes of schedules were NOT atomic in the code as found (MicroAllTheorems: sv_micro_atomic_old_refuted,
sv_micro_old_nb_spurious_refuted); this tier reproduced them on the real code; both are fixed in /repo:
    micro:readFF-wait-uses-released-record    8cdc001  (docs/proposed_fixes/C03-readFF-wait-record-use-after-free.diff)
    micro:nb-spurious-OPFAIL                  e1e6722  (docs/proposed_fixes/C03-nb-spurious-opfail.diff)
Which variant of the model applies (the code as it is / the access order before one or both commits) is read from the source
text of the working tree (source_facts), so that reverting a commit makes the model predict the class again and the tier
report the schedule as a failing input under the signature above; a wrong reading shows up as a correspondence failure, never
as a pass."""
import os
import re
from .. import core

OPS = ["readFF", "readFF_nb", "readFE", "readFE_nb", "writeF", "writeEF", "writeEF_nb", "fill", "empty", "incrF", "status"]
INITS = ["full", "empty", "fullEF", "emptyFE", "emptyFF"]
NB = ("readFF_nb", "readFE_nb", "writeEF_nb")
FILLS = ("writeF", "writeEF", "writeEF_nb", "fill", "incrF")
VA, VB, VG, V0 = 11, 22, 33, 5
SIG_UAF = "micro:readFF-wait-uses-released-record"
SIG_NB = "micro:nb-spurious-OPFAIL"
# None = read from the source; True / False force the model variant
CODE_FIX_FF = None
CODE_FIX_NB = None


# ---------------------------------------------------------------------------------------------------------------------------
def source_facts(repo):
    """(readFF's wait path takes the table lock, the _nb calls no longer use the try limit 1) from src/syncvar.c"""
    src = open(os.path.join(repo, "src", "syncvar.c")).read()

    def body(name):
        for m in re.finditer(r"\b%s\s*\(" % name, src):
            i, semi = src.find("{", m.end()), src.find(";", m.end())
            if i < 0 or (0 <= semi < i):
                continue                      # a call or a prototype
            depth, j = 0, i
            while j < len(src):
                if src[j] == "{":
                    depth += 1
                elif src[j] == "}":
                    depth -= 1
                    if depth == 0:
                        return src[i:j]
                j += 1
        raise core.BuildError("c03 micro: cannot find the definition of %s in src/syncvar.c" % name)
    ff = body("qthread_syncvar_readFF")
    # strip the LOCK_FREE_FEBS alternative (not configured)
    ff_cfg = re.sub(r"#ifdef LOCK_FREE_FEBS.*?#else", "", ff, flags=re.S)
    fix_ff = "qt_hash_lock" in ff_cfg
    tries = [bool(re.search(r"qthread_mwaitc\s*\([^;]*,\s*1\s*,\s*&e\)", body(n)))
             for n in ("qthread_syncvar_readFF_nb", "qthread_syncvar_readFE_nb", "qthread_syncvar_writeEF_nb")]
    if any(tries) and not all(tries):
        raise core.BuildError("c03 micro: the three _nb calls differ in how they call qthread_mwaitc; no model variant for that")
    return fix_ff, not tries[0]


# --------------------------------------------------------------------------------------------------------------------------- oracle
class ACell:
    """the atomic full/empty cell of the property text, with its blocked operations (most recent first)"""

    def __init__(self, init):
        self.full = init in ("full", "fullEF")
        self.val = V0
        self.ef, self.fe, self.ff = [], [], []
        self.res = {}
        if init == "fullEF":
            self.ef = [(2, VG)]
        elif init == "emptyFE":
            self.fe = [2]
        elif init == "emptyFF":
            self.ff = [2]

    def wake(self):
        if self.full:
            for t in self.ff:
                self.res[t] = ("OK", self.val)
            self.ff = []
            if self.fe:
                self.res[self.fe[0]] = ("OK", self.val)
                self.fe = self.fe[1:]
                self.full = False
        elif self.ef:
            t, v = self.ef[0]
            self.ef = self.ef[1:]
            self.res[t] = ("OK", None)
            self.val, self.full = v, True

    def call(self, t, op, v, weak_fail=False):
        if weak_fail:                       # a non-blocking call that gave up: no effect
            self.res[t] = ("OPFAIL", None)
            return
        if op in ("readFF", "readFF_nb"):
            if self.full:
                self.res[t] = ("OK", self.val)
            elif op == "readFF":
                self.ff.insert(0, t)
            else:
                self.res[t] = ("OPFAIL", None)
            return
        if op in ("readFE", "readFE_nb"):
            if self.full:
                self.res[t] = ("OK", self.val)
                self.full = False
                self.wake()
            elif op == "readFE":
                self.fe.insert(0, t)
            else:
                self.res[t] = ("OPFAIL", None)
            return
        if op in ("writeEF", "writeEF_nb"):
            if not self.full:
                self.res[t] = ("OK", None)
                self.val, self.full = v, True
                self.wake()
            elif op == "writeEF":
                self.ef.insert(0, (t, v))
            else:
                self.res[t] = ("OPFAIL", None)
            return
        if op == "writeF":
            self.res[t] = ("OK", None)
            self.val, self.full = v, True
        elif op == "fill":
            self.res[t] = ("OK", None)
            self.full = True
        elif op == "empty":
            self.res[t] = ("OK", None)
            self.full = False
        elif op == "incrF":
            self.val = (self.val + v) & ((1 << 60) - 1)
            self.res[t] = ("OK", self.val)
            if self.fe or self.ff:
                self.full = True
        elif op == "status":
            self.res[t] = ("OK", 1 if self.full else 0)
            return
        self.wake()

    def outcome(self):
        return (self.res.get(0), self.res.get(1), self.res.get(2), self.full, self.val, [t for t, _ in self.ef], list(self.fe), list(self.ff))


def orders(init, a, b, weak=(False, False)):
    out = []
    for first in (0, 1):
        c = ACell(init)
        seq = [(0, a, VA, weak[0]), (1, b, VB, weak[1])]
        if first:
            seq.reverse()
        for t, op, v, wk in seq:
            c.call(t, op, v, wk)
        out.append(c.outcome())
    return out


def judge(init, a, b, r):
    """r = parsed real outcome.  -> (verdict, reason): 'ok' | 'stuck' | 'structure' | 'nb' (only a spurious OPFAIL) | 'bad'"""
    if r["stuck"]:
        return "stuck", "a task neither returned nor blocked (spinning for ever); lock bit %d" % r["lk"]
    obs = (r["A"], r["B"], r["G"], r["st"] < 2, r["dat"], r["E"], r["FE"], r["FF"])
    want_st = (3 if (r["FE"] or r["FF"]) else 2) if r["st"] >= 2 else (1 if r["E"] else 0)
    if r["lk"]:
        return "structure", "the word is left locked"
    if r["orphan"]:
        return "structure", "a blocked task is on no waiter list of the record the table holds"
    if r["st"] != want_st:
        return "structure", "state bits %d but the waiter lists are E=%s FE=%s FF=%s" % (r["st"], r["E"], r["FE"], r["FF"])
    if bool(r["rec"]) != bool(r["E"] or r["FE"] or r["FF"]):
        return "structure", "record present=%d but the waiter lists are E=%s FE=%s FF=%s" % (r["rec"], r["E"], r["FE"], r["FF"])
    cands = orders(init, a, b)
    if obs in cands:
        return "ok", ""
    wk = (a in NB and r["A"] == ("OPFAIL", None), b in NB and r["B"] == ("OPFAIL", None))
    if any(wk) and obs in orders(init, a, b, wk):
        who = a if wk[0] else b
        return "nb", ("%s answered QTHREAD_OPFAIL although the variable is in the state it needs in both orders of the two calls "
                      "(it met the lock bit); outcome %s, atomic orders %s" % (who, obs, cands))
    return "bad", "outcome %s is not that of the two calls in either order %s" % (obs, cands)


def in_uaf_class(init, a, b):
    return init == "emptyFE" and ((a == "readFF" and b in FILLS) or (b == "readFF" and a in FILLS))


# --------------------------------------------------------------------------------------------------------------------------- parsing
_LINE = re.compile(r"A=(\S+):(\S+) B=(\S+):(\S+) G=(\S+):(\S+) st=(\d+) dat=(\d+) lk=(\d) rec=(-?\d+) E=\[([0-9,]*)\] FE=\[([0-9,]*)\] FF=\[([0-9,]*)\] (.*)")


def parse(line):
    m = _LINE.match(line)
    if not m:
        return None

    def rr(c, v):
        return None if c == "BLK" else (c, None if v == "-" else int(v))

    def ls(x):
        return [int(t) for t in x.split(",") if t]
    kv = dict(t.split("=", 1) for t in m.group(14).split() if "=" in t)
    d = {"A": rr(m.group(1), m.group(2)), "B": rr(m.group(3), m.group(4)), "G": rr(m.group(5), m.group(6)),
         "st": int(m.group(7)), "dat": int(m.group(8)), "lk": int(m.group(9)), "rec": int(m.group(10)),
         "E": ls(m.group(11)), "FE": ls(m.group(12)), "FF": ls(m.group(13))}
    for k in ("uaf", "fault", "orphan", "stuck", "c1", "c2", "good", "weak", "early", "adone"):
        d[k] = int(kv.get(k, 0))
    for k in ("atA", "atB", "seqA", "seqB"):
        d[k] = kv.get(k, "")
    return d


def seq_len(rle):
    return sum(int(x.split("*")[1]) for x in rle.split(",") if x)


def hold_points(rle):
    """positions (1-based) of the interposed accesses worth holding at: all, but only the first two and the last of a long run"""
    pos, out = 0, []
    for x in [y for y in rle.split(",") if y]:
        n = int(x.split("*")[1])
        ks = range(1, n + 1) if n <= 3 else [1, 2, n]
        out += [pos + i for i in ks]
        pos += n
    return out


# --------------------------------------------------------------------------------------------------------------------------- runs
def model_lines(drv, flags, queries):
    rc, out, err = core.run_lines(drv, ["h %s %s %d %s %d" % q for q in queries], timeout=900, args=["--held", "--itmo", "100"] + flags)
    res = [parse(l) for l in out]
    if rc != 0 or len(res) != len(queries) or None in res:
        raise core.BuildError("c03 micro model driver failed: rc=%s %s %s" % (rc, out[-2:], err[-300:]))
    return res


def run_real(exe, probes, models, slow):
    """-> list of parsed lines (None = the harness died before answering).  After a stuck probe the harness exits (a worker
    spins for ever) and is restarted for the rest."""
    res = [None] * len(probes)
    i, deaths = 0, 0
    env = core.qenv(3, 1, stack=65536)
    CHUNK = 500              # one harness process per chunk: bounded run time per process (arena: 8000 variables)
    while i < len(probes) and deaths < 40:
        lines = []
        for p, m in zip(probes[i:i + CHUNK], models[i:i + CHUNK]):
            # c1 (B has to wait for a lock the held A owns): once A is released both run at the same time and B may reach its
            # own hold point owning a lock A needs, so A is then given a short time only as well
            lines.append("m %s %s %d %s %d %d %d %g" % (p + (m["c1"], 1 if (m["c2"] or m["c1"]) else 0, 3.0 if m["uaf"] else slow)))
        rc, out, err = core.run_lines(exe, lines, timeout=900, env=env)
        if not out or not out[0].startswith("H "):
            raise core.BuildError("c03 micro harness did not start: rc=%s %s %s" % (rc, out[:1], err[-300:]))
        got = [g for g in (parse(l) for l in out[1:]) if g is not None]
        for k, g in enumerate(got[:len(lines)]):
            res[i + k] = g
        if len(got) >= len(lines) and not got[-1]["stuck"]:
            i += len(lines)
            continue
        deaths += 1
        # the harness exits after answering a stuck probe; if it died without answering, the next probe stays unanswered
        i += len(got) if (got and got[-1]["stuck"]) else len(got) + 1
    return res


def gen_probes(ctx, drv, flags, quick, fix_ff, fix_nb):
    rng = ctx.rng.fork()
    triples = [(i, a, b) for i in INITS for a in OPS for b in OPS]
    solo = model_lines(drv, flags, [(i, a, 0, b, 0) for (i, a, b) in triples])
    probes, tags = [], {}

    def add(p, tag):
        if p not in tags:
            tags[p] = tag
            probes.append(p)
    # (0) corpus: witnesses of past findings and hand-picked slow paths
    cpath = os.path.join(core.VERIF, "corpus", "C03", "micro_witnesses.probes")
    if os.path.exists(cpath):
        for l in open(cpath):
            t = l.split("#")[0].split()
            if len(t) == 5 and t[0] in INITS and t[1] in OPS and t[3] in OPS:
                add((t[0], t[1], int(t[2]), t[3], int(t[4])), "corpus")
    # (a) the use-after-free class: two holds, every pair of hold points the model flags (quick: two per run)
    uaf_q = []
    for (i, a, b), s in zip(triples, solo):
        if in_uaf_class(i, a, b):
            for k in hold_points(s["seqA"]):
                uaf_q.append((i, a, k, b, 0))
    if not fix_ff:
        first = model_lines(drv, flags, uaf_q)
        two = []
        for q, m in zip(uaf_q, first):
            for j in hold_points(m["seqB"]):
                two.append((q[0], q[1], q[2], q[3], j))
        res2 = model_lines(drv, flags, two)
        # only schedules that determine the outcome (nobody waits for a held lock): the fill-like call is held inside
        # qthread_syncvar_remove, readFF between its lookup and its record lock
        hits = [q for q, m in zip(two, res2) if m["uaf"] and not m["c1"] and not m["c2"]]
        hits = rng.shuffle(hits)
        for q in (hits[:2] if quick else hits[:12]):
            add(q, "uaf")
        near = [q for q, m in zip(two, res2) if not m["uaf"]] + [q for q, m in zip(two, res2) if m["uaf"] and (m["c1"] or m["c2"])][:3]
        for q in rng.shuffle(near)[:(10 if quick else 150)]:
            add(q, "uaf-near")
    else:
        for q in rng.shuffle(uaf_q)[:(10 if quick else 150)]:
            add(q, "uaf-class")
    # (b) a non-blocking call against a call that holds the word lock: hold the other call at each of its hold points
    nbq = []
    for (i, a, b), s in zip(triples, solo):
        if b in NB and a != "status":
            for k in hold_points(s["seqA"]):
                nbq.append((i, a, k, b, 0))
    nbm = model_lines(drv, flags, nbq)
    spur = [q for q, m in zip(nbq, nbm) if not m["good"] and m["weak"]]
    rest = [q for q, m in zip(nbq, nbm) if m["good"]]
    for q in (rng.shuffle(spur)[:45] if quick else spur):
        add(q, "nb")
    for q in rng.shuffle(rest)[:(40 if quick else 400)]:
        add(q, "nb-near")
    # (b2) a reader / status whose optimistic load meets the lock bit (slow paths that no op-atomic script reaches)
    slq = []
    for (i, a, b), s in zip(triples, solo):
        if b in ("readFF", "readFF_nb", "status"):
            for k in hold_points(s["seqA"]):
                slq.append((i, a, k, b, 0))
    slm = model_lines(drv, flags, slq)
    slow_readers = [q for q, m in zip(slq, slm) if m["c1"] or (q[3] == "readFF_nb" and m["B"] == ("OPFAIL", None))]
    for i in INITS:
        cand = rng.shuffle([q for q in slow_readers if q[0] == i])
        for q in (cand[:9] if quick else cand):
            add(q, "reader-meets-lock")
    # (c) everything else: one hold (all triples x all hold points in the thorough tier), and a sample with two holds
    one = []
    for (i, a, b), s in zip(triples, solo):
        for k in [0] + hold_points(s["seqA"]):
            one.append((i, a, k, b, 0))
    pick = rng.shuffle(one)[:130] if quick else one
    for q in pick:
        add(q, "one-hold")
    base = rng.shuffle(one)[:(60 if quick else 1500)]
    bm = model_lines(drv, flags, base)
    for q, m in zip(base, bm):
        hp = hold_points(m["seqB"])
        if hp:
            add((q[0], q[1], q[2], q[3], rng.choice(hp)), "two-holds")
    return probes, tags


PROPS = "Properties/Properties_C03_micro.v"


def coq_props(ctx):
    """ctx.coq_properties for the micro-step theorems.  In the thorough tier core re-checks every property file with
    `coqchk -o -silent`, whose default (-bytecode-compiler no) re-checks the vm_compute sweeps with the lazy conversion: more than
    an hour for the ten sweep libraries.  The same independent re-check is run here with `-bytecode-compiler yes` (4 min), in
    the background while the probes run; -> (result of coq_properties, coqchk process or None)"""
    import subprocess
    mine = ctx.tier == "thorough" and not os.environ.get("VERIF_NO_COQCHK")
    if mine:
        os.environ["VERIF_NO_COQCHK"] = "1"
    try:
        pr = ctx.coq_properties(PROPS)
    finally:
        if mine:
            del os.environ["VERIF_NO_COQCHK"]
    proc = None
    if mine and pr["ok"]:
        proc = subprocess.Popen(["timeout", "2400", "coqchk", "-o", "-silent", "-bytecode-compiler", "yes", "-Q", "theories", "QV",
                                 "QV." + PROPS[:-2].replace("/", ".")], cwd=core.COQ, stdout=subprocess.PIPE, stderr=subprocess.STDOUT,
                                universal_newlines=True)
    return pr, proc


def coqchk_collect(ctx, proc):
    if proc is None:
        return
    out = proc.communicate()[0]
    i = out.find("CONTEXT SUMMARY")
    summ = " ".join(out[i:].split())[:1500] if i >= 0 else out[-800:]
    ctx.trusted.append("coqchk -o -bytecode-compiler yes QV.%s: rc=%d %s" % (PROPS[:-2].replace("/", "."), proc.returncode, summ[:600]))
    if proc.returncode != 0:
        ctx.discharged -= len(re.findall(r'^Theorem ', open(os.path.join(core.COQ, 'theories', PROPS)).read(), re.M))
        ctx.coq_failed.append(PROPS + " (coqchk)")


def run_micro(ctx, quick, verbose=False):
    pr, chk = coq_props(ctx)
    try:
        return _run_micro(ctx, quick, verbose)
    finally:
        coqchk_collect(ctx, chk)


def _run_micro(ctx, quick, verbose=False):
    drv = ctx.model_driver("c03micro_driver")
    exe = ctx.link("c03_micro", ["c03_micro.c"], exclude=["syncvar.c"])
    fix_ff, fix_nb = source_facts(core.REPO)
    if CODE_FIX_FF is not None:
        fix_ff = CODE_FIX_FF
    if CODE_FIX_NB is not None:
        fix_nb = CODE_FIX_NB
    flags = ([] if fix_ff else ["--oldff"]) + ([] if fix_nb else ["--oldnb"])
    # exhaustive search of the model variant that applies (supports the theorems: the verdicts do not depend on INITIAL_TIMEOUT),
    # and of the old access order (the guards of the regression theorems name exactly the triples with a bad interleaving)
    def exhaustive(fl, itmo):
        rc, out, err = core.sh([drv, "--itmo", str(itmo)] + fl, timeout=900)
        summ = [l for l in out.splitlines() if l.startswith("# pairs=")]
        if rc != 0 or not summ:
            raise core.BuildError("c03 micro model driver (exhaustive) failed: rc=%s %s" % (rc, err[-300:]))
        return (dict((k, int(v)) for k, v in re.findall(r"(\w+)=(\d+)", summ[0])), [l for l in out.splitlines() if l.startswith("CLASSMISMATCH")],
                [l for l in out.splitlines() if l.startswith("BAD") or l.startswith("NBFAIL")])
    itmo = 3 if quick else 12
    sm, _, badl = exhaustive(flags, itmo)
    smo, class_mismatch, _ = exhaustive(["--old"], 2 if quick else 7)
    summ = ["current: %s" % sm, "old order: %s" % smo]
    model_ok = (sm["bad_pairs"] == (0 if fix_ff else 10) and (sm["nbfail_pairs"] == 0 if fix_nb else sm["nbfail_pairs"] >= 90)
                and smo["bad_pairs"] == 10 and smo["nbfail_pairs"] == 90 and not class_mismatch)

    probes, tags = gen_probes(ctx, drv, flags, quick, fix_ff, fix_nb)
    models = model_lines(drv, flags, probes)
    reals = run_real(exe, probes, models, 40.0)
    findings, rejects, mismatches = {}, [], []
    nrun = ncont = nexact = nuaf_pred = 0
    for p, m, r in zip(probes, models, reals):
        init, a, k, b, j = p
        case = {"config": [3, 1], "probe": list(p), "class": tags[p],
                "schedule": "%s: %s is held before its %d. interposed access (%s), %s before its %d. (%s); the first is released, then the second"
                            % (init, a, k, m["atA"], b, j, m["atB"]), "model": m, "real": r}
        if r is None:
            mismatches.append(dict(case, what="the harness gave no answer for this probe"))
            continue
        nrun += 1
        contended = m["c1"] or m["c2"]
        ncont += 1 if contended else 0
        verdict, why = judge(init, a, b, r)
        if verbose:
            print("%-8s %-10s k=%-3d %-10s j=%-3d %-9s real %s %s %s st=%d dat=%d | model good=%d uaf=%d %s %s" % (
                init, a, k, b, j, tags[p], r["A"], r["B"], r["G"], r["st"], r["dat"], m["good"], m["uaf"], verdict, "(contended)" if contended else ""))
        if m["uaf"]:
            nuaf_pred += 1
        if verdict != "ok":
            if verdict == "nb":
                sig = SIG_NB
            elif verdict in ("stuck", "structure") and in_uaf_class(init, a, b) and m["uaf"]:
                sig = SIG_UAF
            else:
                sig = "micro:" + verdict
            findings.setdefault(sig, []).append((why, dict(case, oracle=why)))
        # model == implementation?  (only where the schedule determines the outcome: nobody had to wait for a held lock)
        if m["uaf"]:
            if verdict == "ok" and not contended:
                mismatches.append(dict(case, what="the model uses a released record on this schedule, the real code ends in an atomic outcome"))
        elif not contended:
            nexact += 1
            same = all(r[f] == m[f] for f in ("A", "B", "G", "st", "dat", "lk", "rec", "E", "FE", "FF", "atA", "atB", "seqA", "seqB"))
            if not same:
                mismatches.append(dict(case, what="outcome / access sequence differs from the model"))
        # contended schedules do not determine the outcome (only the oracle speaks), but progress the model excludes is a fact:
        # the model says B waits for a lock the held A owns (c1), yet B reached its hold point / its end while A was held
        if m["c1"] and r["early"] and not r["stuck"]:
            mismatches.append(dict(case, what="the second call got past a lock which, in the model, the held first call owns"))
        elif not m["c1"] and m["c2"] and r["adone"] and not r["stuck"]:
            mismatches.append(dict(case, what="the first call finished while, in the model, it waits for a lock the held second call owns"))
    ctx.cov["micro_all"] = {
        "probes": len(probes), "answered": nrun, "by_class": {t: sum(1 for p in probes if tags[p] == t) for t in sorted(set(tags.values()))},
        "compared_exactly_with_model": nexact, "contended": ncont, "model_predicts_released_record": nuaf_pred,
        "mismatches": len(mismatches), "oracle_rejections": {s: len(v) for s, v in findings.items()},
        "model_variant": {"readFF_wait_path_under_table_lock": fix_ff, "nb_calls_without_try_limit": fix_nb},
        "exhaustive_model_search": dict(sm, itmo=itmo), "exhaustive_model_search_old_order": dict(smo, class_mismatches=len(class_mismatch)),
        "observables": "per probe: results of the three tasks, state bits, payload, lock bit, record present, task ids on EFQ/FEQ/FFQ, "
                       "orphaned blocked task, hang; kinds of the accesses held at and run-length encoded sequence of interposed accesses of both tasks"}
    ctx.cov["evaluations"] = ctx.cov.get("evaluations", 0) + nrun
    ctx.cov["traces_validated_against_impl"] = ctx.cov.get("traces_validated_against_impl", 0) + nexact
    ctx.assumptions.append("micro-step tier (Syncvar/MicroAll.v): two running tasks + at most one task already blocked, one syncvar; finite sweep with "
                           "INITIAL_TIMEOUT = 2 in the theorems (the search is repeated for other values at run time); plain loads / stores of the "
                           "word are not interposed: a hold point is an interposed access (CAS, fence before a publishing store, table / record "
                           "lock operations), the model's finer interleavings are covered by the theorems only; sequential consistency")
    for sig, lst in findings.items():
        why, case = lst[0]
        what = {SIG_UAF: "qthread_syncvar_readFF's wait path looks the waiter record up and locks it without the table lock; a concurrent "
                         "qthread_syncvar_remove frees it in between: the reader spins on / enqueues itself on a released record",
                SIG_NB: "a non-blocking syncvar call returns QTHREAD_OPFAIL because the lock bit was set (qthread_mwaitc timeout 1), not because "
                        "of the variable's state"}.get(sig, "C03 micro-step: not atomic")
        ctx.violation(sig, "%s; %s: %s (%d probes)" % (what, case["schedule"], why, len(lst)), case)
    if not model_ok:
        ctx.violation("broken", "the exhaustive search of the micro-step model no longer gives the classes the theorems name: %s %s"
                      % (summ, class_mismatch[:2]), {"theorem_or_correspondence": "Syncvar.MicroAll exhaustive search vs sv_micro_atomic_pairs / racy / uaf_class / nb_class",
                                                       "summary": summ, "bad": badl[:5], "class_mismatch": class_mismatch[:5]}, no_input=True)
    if mismatches and not [s for s in findings if s not in (SIG_UAF, SIG_NB)]:
        ctx.violation("broken", "micro-step correspondence Syncvar.MicroAll / implementation broken in %d probe(s); the atomic-cell oracle accepts "
                      "the observed outcomes" % len(mismatches),
                      {"theorem_or_correspondence": "impl != Syncvar.MicroAll (held schedule)", "first_mismatch": mismatches[0]}, no_input=True)
    return {"probes": len(probes), "mismatches": mismatches, "findings": findings}


def replay_probe(ctx, probe):
    """./check C03 --replay <file> for a micro-step probe [init, A, k, B, j]"""
    drv = ctx.model_driver("c03micro_driver")
    exe = ctx.link("c03_micro", ["c03_micro.c"], exclude=["syncvar.c"])
    fix_ff, fix_nb = source_facts(core.REPO)
    flags = ([] if fix_ff else ["--oldff"]) + ([] if fix_nb else ["--oldnb"])
    p = (probe[0], probe[1], int(probe[2]), probe[3], int(probe[4]))
    m = model_lines(drv, flags, [p])[0]
    r = run_real(exe, [p], [m], 40.0)[0]
    print("probe %s\n model (%s): %s\n real : %s" % (list(p), " ".join(flags) or "code as it is", m, r))
    if r is None:
        ctx.violation("micro:no-answer", "the harness gave no answer for the probe", {"probe": list(p)})
        return
    verdict, why = judge(p[0], p[1], p[3], r)
    print(" oracle:", verdict, why)
    if verdict != "ok":
        sig = SIG_NB if verdict == "nb" else SIG_UAF if (verdict in ("stuck", "structure") and in_uaf_class(p[0], p[1], p[3])) else "micro:" + verdict
        ctx.violation(sig, why, {"probe": list(p), "model": m, "real": r})
