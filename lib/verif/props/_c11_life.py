"""C11 extension S: the barrier's life cycle -- qt_barrier_create / resize / destroy and the global-barrier wrappers
(src/barrier/feb.c) interleaved with qt_barrier_enter.  Model: coq/theories/Barrier/Lifecycle.v (the participants are the
threads of Barrier/Model.v, stepped by its unchanged `step`; one more thread, the controller, runs the life-cycle script),
theorems in Properties_C11_life.v, extracted machine ocaml/c11life_driver.ml, real code harness/c/c11_life.c.

Tie: M3 -- the controller of the harness grants one shared access at a time (participants: readFF / incr / empty / fill of
qt_barrier_enter; destroyer: the call, every qthread_yield of the wait loop, the two fills, qt_mpool_free) following the same
adaptive schedule as the model; after every step who / which access / both gates / blockers / max_blockers / alive /
#accesses to a freed barrier / every participant's position / the destroyer's position / the arrival counter sampled at each
return must equal the model's line."""
import time
from .. import core

PREF = 1024
DESTROY_SIG = "destroy-frees-before-last-leaver-reset-gates"
HANGS = [0]


def ops_str(ops):
    return " ".join(ops)


def case_line(gm, ops, sched):
    return "L %d | %s | %s" % (gm, ops_str(ops), " ".join(map(str, sched)))


def gen_sched(rng, n, length):
    """ids 0..n-1 participants, n controller; (id+1)*1024+q prefers id while enabled"""
    kind = rng.weighted([("uniform", 5), ("low", 1), ("high", 1), ("streak", 5), ("ctl-eager", 3), ("ctl-lazy", 2)])
    L = rng.range(12, max(13, length))
    if kind == "uniform":
        return kind, [rng.below(840) for _ in range(L)]
    if kind == "low":
        return kind, [0]
    if kind == "high":
        return kind, [839]
    if kind == "ctl-eager":        # the controller moves whenever it can (destroy / resize as early as possible)
        return kind, [(n + 1) * PREF + rng.below(840) if rng.chance(3, 4) else rng.below(840) for _ in range(L)]
    if kind == "ctl-lazy":         # one participant is preferred, the controller comes last
        return kind, [(rng.below(n) + 1) * PREF for _ in range(L)]
    out = []
    while len(out) < L:
        t = rng.below(n + 1)
        for _ in range(rng.range(1, 12)):
            out.append((t + 1) * PREF + rng.below(840))
    return kind, out


def gen_case(rng, small):
    """-> (gm, ops, sched, flavour)"""
    flavour = rng.weighted([("contract", 8), ("destroy-early", 6), ("resize-early", 2), ("fewer", 2), ("more", 3),
                            ("global", 6), ("global-null", 1), ("recreate", 2)])
    nmax = 4 if small else 6
    n = rng.weighted([(1, 1), (2, 4), (3, 4), (4, 2), (5, 1), (6, 1)])
    n = min(n, nmax)
    e = rng.range(1, 3)
    gm = 0
    ops = []
    if flavour in ("contract", "recreate"):
        ops = ["c:%d" % n, "e:%d:%d" % (n, e)]
        for _ in range(rng.range(0, 2)):
            n2 = min(nmax, rng.range(1, 5))
            ops += ["w"] + (["r:%d" % n2] if n2 != n or rng.chance(1, 3) else []) + ["e:%d:%d" % (n2, rng.range(1, 2))]
            n = n2
        if rng.chance(4, 5) or flavour == "recreate":
            ops += ["w", "d"]
        if flavour == "recreate":
            n3 = min(nmax, rng.range(1, 4))
            ops += ["c:%d" % n3, "e:%d:%d" % (n3, rng.range(1, 2)), "w", "d"]
    elif flavour == "destroy-early":          # destroy is called while participants are still inside their last enter
        ops = ["c:%d" % n, "e:%d:%d" % (n, e), "d"]
    elif flavour == "resize-early":           # resize without a join
        ops = ["c:%d" % n, "e:%d:%d" % (n, e), "r:%d" % rng.range(1, n + 1), "w"]
    elif flavour == "fewer":
        m = n + rng.range(1, 2)
        ops = ["c:%d" % m, "e:%d:%d" % (n, e)] + (["d"] if rng.chance(1, 2) else [])
    elif flavour == "more":
        m = max(1, n - rng.range(1, 2))
        ops = ["c:%d" % m, "e:%d:%d" % (n, e), "w", "d"]
    elif flavour == "global":
        gm = 1
        ops = ["gi:%d" % n]
        if rng.chance(1, 2):
            ops.append("gi:%d" % rng.range(1, 6))         # second init: ignored, also its size
        ops.append("e:%d:%d" % (n, e))
        if rng.chance(1, 2):
            n2 = min(nmax, rng.range(1, 4))
            ops += ["w", "gr:%d" % n2, "e:%d:%d" % (n2, rng.range(1, 2))]
        ops += rng.choice([["w", "gd"], ["gd"], ["w", "gd", "gd"], ["w", "gd", "gi:2", "e:2:1", "w", "gd"], ["w"]])
    else:                                    # qt_global_barrier() before any init: enter(NULL) returns at once
        gm = 1
        ops = ["e:%d:%d" % (n, e), "w", "gd"]
    work = sum(int(o.split(":")[1]) * int(o.split(":")[2]) for o in ops if o.startswith("e:"))
    kind, sched = gen_sched(rng, n, 14 * work + 24)
    return gm, ops, sched, flavour + "/" + kind


def _load_corpus():
    """corpus/C11/life_cases.json: fixed cases that always run first (witnesses of the refuted statements, boundary scripts).
    The controller is thread id = number of participants (0 before the first group): (id+1)*1024 prefers that thread."""
    import json
    import os
    p = os.path.join(os.path.dirname(os.path.abspath(__file__)), "..", "..", "..", "corpus", "C11", "life_cases.json")
    return [(c["global_mode"], c["script"], c["schedule"], "corpus/" + c["name"]) for c in json.load(open(p))]


CORPUS = _load_corpus()


def _run_chunk(exe, lines, env):
    """one harness process; returns list of per-case line lists (the process ends after a case that did not end `done`)"""
    rc, out, err = core.run_lines(exe, lines + ["Q"], timeout=int(env.get("VERIF_WATCHDOG", "20")) * 2 + 120, env=env)
    if not out or not out[0].startswith("H "):
        raise core.BuildError("c11_life harness did not start: rc=%s %s" % (rc, err[-500:]))
    results, cur = [], []
    for l in out[1:]:
        cur.append(l)
        if l.startswith(("END", "TIMEOUT", "FR ")):
            results.append(cur); cur = []
    if cur or (len(results) < len(lines) and rc != 0 and not (results and not results[-1][-1].startswith("END done"))):
        results.append(cur + ["TIMEOUT rc=%s %s" % (rc, err.strip()[-200:])])
    return results


def run_impl(exe, lines, env, budget_s, notes, watchdog=20, chunk=10):
    t0 = time.time()
    results = [None] * len(lines)
    i = 0
    env = dict(env, VERIF_WATCHDOG=str(watchdog))
    while i < len(lines) and HANGS[0] < 1 and time.time() - t0 < budget_s:
        part = _run_chunk(exe, lines[i:i + chunk], env)
        if not part:
            part = [["TIMEOUT no output"]]
        for r in part:
            if r[-1].startswith("TIMEOUT"):
                again = _run_chunk(exe, [lines[i]], dict(env, VERIF_WATCHDOG=str(2 * watchdog)))
                if again and not again[0][-1].startswith("TIMEOUT"):
                    notes.append("life-cycle case '%s' hit the %d s watchdog once and completed when re-run alone (loaded machine)" % (lines[i][:60], watchdog))
                    r = again[0]
                else:
                    HANGS[0] += 1
            results[i] = r
            i += 1
            if HANGS[0]:
                break
    return results


def oracle(lines, in_contract, gm, ops):
    """the property on the implementation's own trace.  -> (reason, signature|None) or None"""
    if not lines:
        return ("no output", None)
    destroy_unjoined = any(o in ("d", "gd") and (k == 0 or ops[k - 1] != "w") for k, o in enumerate(ops))
    sizes_match = True
    m = None
    for o in ops:
        f = o.split(":")
        if f[0] in ("c", "r", "gr") or (f[0] == "gi" and m is None):
            m = int(f[1])
        if f[0] == "e" and int(f[1]) != m:
            sizes_match = False
    for l in lines:
        f = l.split()
        if l.startswith(("END", "TIMEOUT")):
            break
        uaf = int(f[7])
        if f[1] in ("Destroy", "GDestroy", "Yield") and l.split(" | ")[2].split()[0] == "DFillOut" and int(f[4]) != 0:
            return ("the wait loop of qt_barrier_destroy ended while blockers = %s: participants were still between their arrival and "
                    "their decrement (barrier_destroy_waits_for_leavers_partial)" % f[4], None)
        if uaf > 0:
            if in_contract:
                return ("participant %s accessed the barrier after qt_barrier_destroy freed it (script inside the contract)" % f[0], None)
            if destroy_unjoined and sizes_match and all(o.split(":")[0] in ("c", "e", "d", "gi", "gd") for o in ops):
                return ("qt_barrier_destroy returned from its wait loop when blockers reached 0 and freed the barrier while the last leaver still had "
                        "to empty the out gate / fill the in gate: participant %s accessed the freed object" % f[0], DESTROY_SIG)
        if " R " in l and in_contract:
            k, mc = map(int, l.split(" R ")[1].split()[:2])
            if mc < k:
                return ("participant %s returned from its enter no. %d while some participant had made only %d calls" % (f[0], k, mc), None)
    last = lines[-1]
    if last.startswith("TIMEOUT"):
        return ("participants / destroyer never became quiescent (watchdog, reproduced with 2x the time)", None)
    if in_contract and not last.startswith("END done"):
        return ("script inside the contract did not complete: %s" % last, None)
    return None


def run_life(ctx, quick):
    t_start = time.time()
    rng = ctx.rng.fork()
    pr = ctx.coq_properties("Properties/Properties_C11_life.v")
    ok, log = ctx.coq_make(["theories/Barrier/LifecycleExtract.vo"])
    if not ok:
        raise core.BuildError("Barrier/LifecycleExtract.v does not compile:\n" + log[-2000:])
    exe = ctx.link("c11_life", ["c11_life.c"], exclude=["barrier/feb.c"])
    drv = ctx.model_driver("c11life_driver")
    if quick:
        configs = [((1, 1), 26, 5, 6), ((2, 2), 5, 4, 8)]
    else:
        configs = [((1, 1), 400, 60, 40), ((1, 4), 200, 60, 60), ((2, 2), 60, 90, 60), ((4, 1), 40, 90, 40), ((3, 2), 30, 60, 40)]
    evals = steps = skipped = 0
    nontrivial = set()
    hist = {}
    samples = []
    mismatches = []
    fails = []          # (signature|None, reason, case)
    uaf_seen = 0
    free_race = 0
    free_runs = 0
    for ((ns, nw), ncases, budget, nfree) in configs:
        r2 = rng.fork()
        small = ns > 1
        cases = [c for c in CORPUS]
        while len(cases) < len(CORPUS) + ncases:
            cases.append(gen_case(r2, small or quick))
        lines = [case_line(g, o, s) for (g, o, s, _) in cases]
        env = core.qenv(ns, nw, stack=65536)
        res = run_impl(exe, lines, env, budget, ctx.notes, watchdog=20 if ns == 1 else 60)
        rc2, mout, merr = core.run_lines(drv, lines + ["O %d | %s" % (g, ops_str(o)) for (g, o, s, _) in cases], timeout=600)
        mres, cur, oks = [], [], []
        for l in mout:
            if l.startswith("OK "):
                oks.append(l.split()[1] == "1")
                continue
            cur.append(l)
            if l.startswith("END"):
                mres.append(cur); cur = []
        if len(mres) != len(lines) or len(oks) != len(lines):
            raise core.BuildError("c11life model driver produced %d/%d results for %d inputs: %s" % (len(mres), len(oks), len(lines), merr[-300:]))
        for ci, (gm, ops, sched, flav) in enumerate(cases):
            impl = res[ci]
            if impl is None:
                skipped += 1
                continue
            evals += 1
            steps += len(impl)
            fl = flav.split("/")[0] if not flav.startswith("corpus") else "corpus"
            hist[fl] = hist.get(fl, 0) + 1
            case = {"config": [ns, nw], "global_mode": gm, "script": ops_str(ops), "flavour": flav, "inside_contract": oks[ci],
                    "schedule": sched if len(sched) <= 64 else sched[:64] + ["...(%d)" % len(sched)], "input_line": lines[ci][:4000]}
            if len(ops) >= 3 and any(o.startswith("e:") and int(o.split(":")[1]) >= 2 for o in ops):
                nontrivial.add((ns, nw, gm, tuple(ops), tuple(sched[:24])))
            if impl != mres[ci]:
                d = core.first_diff(impl, mres[ci])
                mismatches.append(dict(case, step=d, impl=impl[max(0, d - 2):d + 2] if d is not None else None,
                                       model=mres[ci][max(0, d - 2):d + 2] if d is not None else None))
            why = oracle(impl, oks[ci], gm, ops)
            if why:
                fails.append((why[1], why[0], dict(case, impl_tail=impl[-6:])))
                if why[1] == DESTROY_SIG:
                    uaf_seen += 1
            if len(samples) < 3 and len(impl) > 25 and not flav.startswith("corpus"):
                samples.append({"config": [ns, nw], "script": ops_str(ops), "flavour": flav, "impl_first_steps": impl[:6], "impl_last_steps": impl[-3:], "steps": len(impl)})
        # ---- free-running groups (random yields before every access, no controller): M4, property oracle only
        free = []
        for _ in range(nfree):
            n = r2.range(1, 6)
            ops = ["e:%d:%d" % (n, r2.range(1, 4))]
            if r2.chance(1, 2):
                n2 = r2.range(1, 6)
                ops += ["r:%d" % n2, "e:%d:%d" % (n2, r2.range(1, 3))]
            free.append((r2.below(2), r2.below(2), r2.below(1 << 30), r2.choice([0, 2, 3, 5]), ops))
        flines = ["F %d %d %d %d | %s" % (g, pd, sd, yd, " ".join(o)) for (g, pd, sd, yd, o) in free]
        fres = run_impl(exe, flines, env, budget, ctx.notes, watchdog=30 if ns == 1 else 60, chunk=40)
        for f, r, fl in zip(free, fres, flines):
            if r is None:
                skipped += 1
                continue
            evals += 1
            free_runs += 1
            hist["free"] = hist.get("free", 0) + 1
            case = {"config": [ns, nw], "free_running": True, "global_mode": f[0], "participant_0_destroys_after_its_last_return": f[1],
                    "seed": f[2], "yield_1_in": f[3], "groups": " ".join(f[4]), "input_line": fl}
            last = r[-1] if r else "TIMEOUT"
            if last.startswith("FR"):
                q = list(map(int, last.split()[1:]))
                if q[0] != 0:
                    fails.append((None, "free run: participant %d returned from enter no. %d while some participant had made only %d calls" % (q[1], q[2], q[3]), case))
                elif q[4] != 0 or q[5] != 0:
                    fails.append((None, "free run: %d participants short of episodes, blockers=%d at the end" % (q[4], q[5]), case))
                elif q[6] != 0 and not f[1]:
                    fails.append((None, "free run: %d accesses to the barrier after the destroy that followed the join" % q[6], case))
                elif q[6] != 0:
                    free_race += 1
            else:
                fails.append((None, "free-running groups never all returned (watchdog, reproduced with 2x the time): the model completes "
                                    "(barrier_lifecycle_no_deadlock)", dict(case, impl=r[-3:])))
    cov = ctx.cov
    cov["life_evaluations"] = evals
    cov["life_distinct_nontrivial"] = len(nontrivial)
    cov["life_micro_steps_compared"] = steps
    cov["life_input_distribution"] = hist
    cov["life_configs"] = [list(c[0]) for c in configs]
    cov["life_cases_not_run_budget"] = skipped
    cov["life_correspondence_mismatches"] = len(mismatches)
    cov["life_samples"] = samples
    cov["life_rule"] = ("life-cycle scripts (create / resize / destroy / join / new group of n participants x E episodes, plain or through the "
                        "global wrappers) x adaptive schedules over participants + controller; flavours: inside the contract, destroy without "
                        "join (leavers inside), resize without join, fewer / more participants than the count, second global init, "
                        "qt_global_barrier before init, re-creation; compared with the extracted machine after every step; "
                        "non-trivial = >= 3 operations and a group of >= 2 participants")
    cov["life_wall_s"] = round(time.time() - t_start, 1)
    cov["life_destroy_race_reproduced"] = uaf_seen
    cov["life_free_runs"] = free_runs
    cov["life_free_runs_destroy_race_hit"] = free_race
    if free_race:
        ctx.notes.append("note (%s): %d free-running runs (no controller; participant 0 destroys right after its last return) had a "
                         "participant access the barrier after the free" % (DESTROY_SIG, free_race))
    cov["life_refuted_on_current_tree"] = ["barrier_destroy_waits_for_leavers_refuted", "more_participants_refuted",
                                           "global_enter_before_init_refuted"]
    for k in ("evaluations", "traces_validated_against_impl"):
        if isinstance(cov.get(k), int):
            cov[k] += evals
    if isinstance(cov.get("micro_steps_compared"), int):
        cov["micro_steps_compared"] += steps
    if isinstance(cov.get("distinct_nontrivial"), int):
        cov["distinct_nontrivial"] += len(nontrivial)
    broken = bool(mismatches) or not pr["ok"]
    known = {}
    unknown = []
    for (sig, w, c) in fails:
        if sig is not None:
            known.setdefault(sig, (w, c))
        else:
            unknown.append((w, c))
    if not broken:
        for sig, (w, c) in known.items():
            if core.match_known("C11", sig) is not None:
                ctx.violation(sig, w, c)
            else:
                ctx.notes.append("note (%s, not counted: qt_barrier_destroy is not part of the text of C11; reported to the lead, docs/proposed_fixes/"
                                 "C11-destroy-last-leaver.diff): %s; input: %s" % (sig, w, c["input_line"][:160]))
        for (w, c) in unknown[:3]:
            ctx.violation("unlisted:life:" + w.split()[0], w, c)
    else:
        what = ("correspondence Barrier.Lifecycle / barrier/feb.c broken (%d cases)" % len(mismatches)) if mismatches else \
               "theorems in %s no longer check" % pr["file"]
        if unknown:
            w, c = unknown[0]
            ctx.violation("broken+input", what + "; failing input: " + w,
                          {"failing_input": c, "reason": w, "first_mismatch": mismatches[0] if mismatches else None, "coq_log": pr["log"][-1500:]})
        else:
            ctx.violation("broken", what, {"theorem_or_correspondence": "impl != Barrier.Lifecycle (micro-step replay)" if mismatches else pr["file"],
                                           "first_mismatch": mismatches[0] if mismatches else None, "coq_log": pr["log"][-1500:],
                                           "known_class_failures": {s: w for s, (w, c) in known.items()}}, no_input=True)


def replay_life(ctx, case):
    line = case["input_line"]
    cfg = case.get("config", [1, 1])
    exe = ctx.link("c11_life", ["c11_life.c"], exclude=["barrier/feb.c"])
    drv = ctx.model_driver("c11life_driver")
    res = run_impl(exe, [line], core.qenv(cfg[0], cfg[1], stack=65536), 600, ctx.notes, watchdog=60)
    impl = res[0] or ["TIMEOUT"]
    print("\n".join(impl[-14:]))
    if line.startswith("F"):
        q = list(map(int, impl[-1].split()[1:])) if impl[-1].startswith("FR") else None
        pd = int(line.split()[2])
        if not q or q[0] or q[4] or q[5] or (q[6] and not pd):
            ctx.violation("replay", "free run: " + impl[-1], case)
        return
    gm = int(line.split("|")[0].split()[1])
    ops = line.split("|")[1].split()
    rc, mout, _ = core.run_lines(drv, [line, "O %d | %s" % (gm, " ".join(ops))])
    inside = mout[-1] == "OK 1"
    model = mout[:-1]
    if model != impl:
        d = core.first_diff(impl, model)
        print("# differs from the model at step %s: impl %s / model %s" % (d, impl[d:d + 1], model[d:d + 1]))
    why = oracle(impl, inside, gm, ops)
    if why and (why[1] is None or core.match_known("C11", why[1]) is not None):
        ctx.violation(why[1] or "replay", why[0], case)
    elif model != impl:
        ctx.violation("replay", "replayed life-cycle case still differs from Barrier.Lifecycle", case)
