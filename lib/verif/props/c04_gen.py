"""C04/C07: regenerate coq/theories/Kernel/GenSpawnTable.v from the working tree (src/qthread.c, include/qthread/qthread.h).

Every public spawn variant is a thin wrapper around qthread_spawn(f, arg, arg_size, ret, npreconds, preconds, target, flags);
the table records, per variant, WHICH of its own parameters reach which qthread_spawn argument and which feature flags are
passed.  Written only when the content changes (so an unchanged tree does not trigger a Coq rebuild).
"""
import os
import re

# order = enum in harness/c/c04_kernel.c
VARIANTS = ["qthread_fork", "qthread_fork_to", "qthread_fork_copyargs", "qthread_fork_copyargs_to", "qthread_fork_syncvar",
            "qthread_fork_syncvar_to", "qthread_fork_syncvar_copyargs", "qthread_fork_syncvar_copyargs_simple",
            "qthread_fork_precond", "qthread_fork_precond_to", "qthread_fork_precond_simple", "qthread_fork_copyargs_precond",
            "qthread_fork_new_team", "qthread_fork_new_subteam", "qthread_fork_new_team_to", "qthread_fork_syncvar_new_team",
            "qthread_fork_syncvar_new_subteam", "qthread_fork_copyargs_new_team", "qthread_fork_copyargs_new_subteam",
            "qthread_fork_syncvar_copyargs_to", "qthread_fork_net"]
# two direct qthread_spawn calls made by the harness itself (sinc return kinds have no wrapper in the API)
DIRECT = [("spawn_ret_sinc", dict(copy=True, to=True, precond=False, flags=["QTHREAD_SPAWN_RET_SINC"])),
          ("spawn_ret_sinc_void", dict(copy=True, to=True, precond=False, flags=["QTHREAD_SPAWN_RET_SINC_VOID"]))]


def _split_args(s):
    out, depth, cur = [], 0, ""
    for ch in s:
        if ch == "(":
            depth += 1
        if ch == ")":
            depth -= 1
        if ch == "," and depth == 0:
            out.append(cur.strip()); cur = ""
        else:
            cur += ch
    out.append(cur.strip())
    return out


def _call_args(text, start):
    """text[start] is the '(' of qthread_spawn( ; returns list of args"""
    depth, i = 0, start
    while True:
        if text[i] == "(":
            depth += 1
        elif text[i] == ")":
            depth -= 1
            if depth == 0:
                break
        i += 1
    return _split_args(text[start + 1:i])


def _strip(a):
    a = " ".join(a.split())
    while a.startswith("(") and a.endswith(")"):
        a = a[1:-1].strip()
    return a


def _decomment(t):
    """drop comments and join continuation lines: the reader must not depend on layout (a re-formatted tree reads the same)"""
    t = re.sub(r"/\*.*?\*/", " ", t, flags=re.S)
    t = re.sub(r"//[^\n]*", " ", t)
    return t.replace("\\\n", " ")


def _match(text, start, op, cl):
    """text[start] == op; index of the matching closer"""
    depth, i = 0, start
    while i < len(text):
        if text[i] == op:
            depth += 1
        elif text[i] == cl:
            depth -= 1
            if depth == 0:
                return i
        i += 1
    raise ValueError("unbalanced %s%s in the spawn wrappers" % (op, cl))


def parse(repo):
    src = _decomment(open(os.path.join(repo, "src", "qthread.c")).read())
    hdr = _decomment(open(os.path.join(repo, "include", "qthread", "qthread.h")).read())
    rows = {}
    for m in re.finditer(r"\bint\s+API_FUNC\s+(qthread_fork\w*)\s*\(", src):
        name = m.group(1)
        pe = _match(src, m.end() - 1, "(", ")")
        params = src[m.end():pe]
        rest = src[pe + 1:].lstrip()
        if not rest.startswith("{"):
            continue                                     # a declaration, not the definition
        bs = src.index("{", pe)
        body = src[bs + 1:_match(src, bs, "{", "}")]
        calls = [c.start() for c in re.finditer(r"\bqthread_spawn\s*\(", body)]
        if len(calls) != 1:
            raise ValueError("%s: expected exactly one qthread_spawn call, found %d" % (name, len(calls)))
        args = _call_args(body, body.index("(", calls[0]))
        pnames = [re.split(r"[\s\*]+", p.strip())[-1] for p in params.split(",")]
        rows[name] = (args, pnames, "src/qthread.c")
    for m in re.finditer(r"^[ \t]*#[ \t]*define[ \t]+(qthread_fork\w*)\(([^)]*)\)\s*qthread_spawn\s*\(", hdr, re.M):
        name = m.group(1)
        args = _call_args(hdr, m.end() - 1)
        rows[name] = (args, [p.strip() for p in m.group(2).split(",")], "include/qthread/qthread.h")
    table = []
    for vid, name in enumerate(VARIANTS):
        if name not in rows:
            raise ValueError("spawn variant %s not found in the working tree" % name)
        args, pnames, where = rows[name]
        if len(args) != 8:
            raise ValueError("%s: qthread_spawn call with %d arguments" % (name, len(args)))
        a = [_strip(x) for x in args]
        flags = [f.strip() for f in re.split(r"\|", a[7]) if f.strip() not in ("0", "")]
        table.append((vid, name, dict(copy=a[2] != "0", precond=a[4] != "0", to=a[6] != "NO_SHEPHERD", flags=flags,
                                      arg_is_param=a[1] in pnames, where=where)))
    for k, (name, r) in enumerate(DIRECT):
        table.append((len(VARIANTS) + k, name, dict(r, arg_is_param=True, where="harness (direct qthread_spawn)")))
    return table


def flag_bits(repo):
    """QTHREAD_UNSTEALABLE etc. from include/qt_qthread_struct.h (bit numbers)"""
    txt = open(os.path.join(repo, "include", "qt_qthread_struct.h")).read()
    out = {}
    for m in re.finditer(r"^[ \t]*#[ \t]*define[ \t]+(QTHREAD_[A-Z_0-9]+)\s+\(\s*1\s*<<\s*(\d+)\s*\)", txt, re.M):
        out[m.group(1)] = int(m.group(2))
    return out


def render(repo):
    t = parse(repo)
    fb = flag_bits(repo)
    L = ["(* GENERATED by lib/verif/props/c04_gen.py from the working tree - do not edit.",
         "   One row per public spawn variant: which of the variant's own parameters reach qthread_spawn and which feature",
         "   flags it passes (src/qthread.c wrappers, include/qthread/qthread.h macros). *)",
         "From Coq Require Import List Bool Arith.", "Import ListNotations.", "",
         "Record spawn_row := mkRow {", "  r_arg : bool;      (* the variant's arg parameter is forwarded as arg *)", "  r_copy : bool;     (* arg_size parameter is forwarded (copyargs) *)",
         "  r_to : bool;       (* a target-shepherd parameter is forwarded *)",
         "  r_precond : bool;  (* npreconds/preconds are forwarded *)",
         "  r_simple : bool;   (* QTHREAD_SPAWN_SIMPLE *)",
         "  r_ret : nat;       (* 0 aligned_t FEB, 1 syncvar_t, 2 sinc, 3 void sinc *)",
         "  r_team : nat;      (* 0 same team, 1 new team, 2 new subteam *)",
         "  r_net : bool }.", "",
         "Definition spawn_table : list (nat * spawn_row) := ["]
    rows = []
    for vid, name, r in t:
        fl = r["flags"]
        known = {"QTHREAD_SPAWN_SIMPLE", "QTHREAD_SPAWN_RET_SYNCVAR_T", "QTHREAD_SPAWN_RET_SINC", "QTHREAD_SPAWN_RET_SINC_VOID",
                 "QTHREAD_SPAWN_NEW_TEAM", "QTHREAD_SPAWN_NEW_SUBTEAM", "QTHREAD_SPAWN_NETWORK"}
        for f in fl:
            if f not in known:
                raise ValueError("%s passes an unmodelled feature flag %s" % (name, f))
        ret = 1 if "QTHREAD_SPAWN_RET_SYNCVAR_T" in fl else 2 if "QTHREAD_SPAWN_RET_SINC" in fl else 3 if "QTHREAD_SPAWN_RET_SINC_VOID" in fl else 0
        team = 1 if "QTHREAD_SPAWN_NEW_TEAM" in fl else 2 if "QTHREAD_SPAWN_NEW_SUBTEAM" in fl else 0
        b = lambda x: "true" if x else "false"
        rows.append("  (%d, mkRow %s %s %s %s %s %d %d %s)  (* %s : %s *)" % (
            vid, b(r["arg_is_param"]), b(r["copy"]), b(r["to"]), b(r["precond"]), b("QTHREAD_SPAWN_SIMPLE" in fl), ret, team,
            b("QTHREAD_SPAWN_NETWORK" in fl), name, r["where"]))
    # the separator must precede the comment of the NEXT row: put ';' at the start of following rows
    L.append(rows[0])
    for r in rows[1:]:
        L.append(" ;" + r[2:] if r.startswith("  (") else r)
    L += ["].", "",
          "(* thread flag bits (include/qt_qthread_struct.h) *)"]
    for n in ("QTHREAD_REAL_MCCOY", "QTHREAD_UNSTEALABLE", "QTHREAD_SIMPLE", "QTHREAD_HAS_ARGCOPY", "QTHREAD_BIG_STRUCT"):
        if n not in fb:
            raise ValueError("flag %s not found" % n)
        L.append("Definition bit_%s : nat := %d." % (n[8:].lower(), fb[n]))
    L.append("")
    return "\n".join(L)


def write_if_changed(repo, path):
    txt = render(repo)
    old = open(path).read() if os.path.exists(path) else None
    if old != txt:
        with open(path + ".tmp", "w") as f:
            f.write(txt)
        os.replace(path + ".tmp", path)
        return True
    return False


if __name__ == "__main__":
    import sys
    print(render(sys.argv[1] if len(sys.argv) > 1 else "/repo"))
