"""C09, extension G: task identity at micro-step granularity and the descriptor life cycle.

Models: coq/theories/Kernel/IdentMicro.v (every access of qthread_id() is a step; theorems over EVERY schedule in
IdentMicroProofs.v) and Kernel/Reuse.v (qthread_thread_new / qthread_thread_free with the two descriptor pools, layered over
Kernel/Tasklocal.v and Kernel/Ident.v; ReuseProofs.v), extracted into ocaml/bin/c09micro_driver.
Tie (harness/c/c09_micro.c, white-box qthread.c):
  M3  baton runs of the real qthread_id(): the interposed fetch-and-add on qlib->max_thread_id and the call boundary are the
      schedule points; tasks sit on several shepherds / workers; the counter is preset around the 32-bit and 64-bit wraps;
      after every grant the kind of access the task is held at, the value it returned, its number of draws, its descriptor
      field and the counter must equal the model's for the same schedule (any configuration: the baton serialises).
  M2  life-cycle scripts (spawn / id / get_tasklocal / write / finish / spawn again) op by op on 1 x 1, where the worker's
      pool cache makes descriptor reuse deterministic: descriptor identity (ordinal), thread_id and tasklocal_size of the
      recycled descriptor, first id, the bytes the new owner finds in its default area (the previous owner's, blob slot
      zeroed), release counts of blob / heap argument copy / descriptor; on multi-worker configurations only the
      schedule-independent fields are compared.
  free-running race of first calls (spinning barrier, one task per shepherd): search for a failing input only.
"""
import json
import os
from .. import core

M32 = 1 << 32
M64 = 1 << 64
UINT_MAX = M32 - 1
PROPS = "Properties/Properties_C09_micro.v"


# ----------------------------------------------------------------------------------------------------------------- generation
def gen_counter(rng, n):
    c = rng.below(10)
    if c < 4:
        return (M32 * rng.choice([1, 1, 1, 2, 5, 1 << 31]) - 1 - rng.below(n + 2)) % M64      # the draws straddle UINT_MAX / 0
    if c < 6:
        return (M32 * rng.choice([1, 3]) - rng.below(3)) % M64                                 # first draw is 0 / UINT_MAX
    if c < 7:
        return M64 - 1 - rng.below(n + 2)                                                      # 64-bit wrap of the counter
    if c < 8:
        return rng.range(1, 50)
    return rng.range(1, M64 - 1)


def gen_schedule(rng, n):
    """grants (task ids).  A task needs 2 grants per allocating call (3 with a re-draw), 1 per later call: bursts of 1..3
    so that tasks are parked before their first / second fetch-and-add while others draw"""
    sch = []
    for _ in range(rng.range(2 * n, 7 * n)):
        t = rng.below(n)
        sch += [t] * rng.choice([1, 1, 1, 2, 2, 3])
    if rng.chance(1, 3):                      # everybody parked before the first fetch-and-add, then released in random order
        sch = list(range(n)) + rng.shuffle(list(range(n)) * 2) + sch
    return sch[:120]


def gen_micro_case(rng):
    n = rng.choice([2, 2, 3, 3, 4, 5, 6, 8])
    return dict(kind="micro", n=n, counter=gen_counter(rng, n), sched=gen_schedule(rng, n))


def _corpus_lines(name):
    p = os.path.join(core.VERIF, "corpus", "C09", name)
    if not os.path.exists(p):
        raise core.BuildError("corpus file missing: " + p)
    return [l.split("#")[0].strip() for l in open(p) if l.split("#")[0].strip()]


def micro_corpus():
    cs = []
    for l in _corpus_lines("micro_schedules.txt"):
        head, sched = l.split(":")
        c, n = head.split()
        cs.append(dict(kind="micro", n=int(n), counter=int(c), sched=[int(x) for x in sched.split()]))
    return cs


def gen_script(rng, AC, TL, quick):
    """life-cycle script: a few generations of tasks over the same slots so that small and big descriptors are recycled"""
    ops, live = [], {}
    argc = [0, 0, 0, 4, 8, max(4, AC), AC + 1, AC + 40]
    sizes = [0, 1, TL, TL + 1, 2 * TL + 3, 100, 300]
    wrote = set()
    nslot = rng.range(2, 5)
    for _ in range(rng.range(12, 30 if quick else 60)):
        k = rng.below(nslot)
        if k not in live:
            a = rng.choice(argc)
            ops.append("s%d:%d" % (k, a))
            live[k] = dict(argsz=a)
            if rng.chance(2, 3):
                ops.append("g%d:0" % k)               # what does the new owner find in its default area?
            continue
        c = rng.below(10)
        if c < 2:
            ops.append("i%d" % k)
        elif c < 5:
            ops.append("g%d:%d" % (k, rng.choice(sizes)))
            if rng.chance(2, 3):
                ops.append("w%d:%d" % (k, rng.range(1, 250)))
        elif c < 6:
            ops += ["g%d:0" % k, "w%d:%d" % (k, rng.range(1, 250))]
        else:
            if rng.chance(1, 2):
                ops.append("i%d" % k)
            ops.append("f%d" % k)
            del live[k]
    for k in sorted(live):
        ops.append("f%d" % k)
    return dict(kind="script", ops=ops)


def script_corpus(AC, TL):
    cs = []
    # small descriptor: id, in-place bytes, blob; the next owner must draw a new id and finds the in-place bytes with the slot zeroed
    cs.append(dict(kind="script", ops=["s0:0", "i0", "g0:0", "w0:3", "f0", "s1:0", "g1:0", "i1", "g1:%d" % (TL + 50), "w1:9", "i1", "f1",
                                       "s2:0", "g2:0", "i2", "f2"]))
    # big descriptor (argument copy inside) recycled with a different argument; heap argument copy released once
    cs.append(dict(kind="script", ops=["s0:8", "g0:0", "w0:5", "i0", "f0", "s1:%d" % max(4, AC), "g1:0", "i1", "g1:200", "f1", "s2:4", "g2:0", "f2",
                                       "s3:%d" % (AC + 1), "g3:0", "i3", "f3"]))
    # two live tasks, LIFO order of the pool
    cs.append(dict(kind="script", ops=["s0:0", "s1:0", "i0", "i1", "g0:0", "w0:1", "g1:0", "w1:2", "f0", "f1", "s2:0", "s3:0", "g2:0", "g3:0", "i2", "i3",
                                       "f3", "f2"]))
    cs += [dict(kind="script", ops=l.split()) for l in _corpus_lines("micro_lifecycle.txt")]
    return cs


def case_lines(c):
    if c["kind"] == "micro":
        return ["C %d" % c["counter"], "M %d %s" % (c["n"], " ".join(map(str, c["sched"])))]
    ls = ["C %d" % c["counter"]] if "counter" in c else []
    return ls + ["P " + " ".join(c["ops"])]


def split_runs(lines):
    runs, cur = [], []
    for l in lines:
        if l == "E":
            runs.append(cur)
            cur = []
        else:
            cur.append(l)
    return runs, cur


# ----------------------------------------------------------------------------------------------------------------- compare
def hex_match(impl, model):
    if len(impl) != len(model):
        return False
    return all(model[i:i + 2] in ("??", impl[i:i + 2]) for i in range(0, len(model), 2))


def compare(case, impl, model, exact):
    if len(impl) != len(model):
        return "line count impl=%d model=%d" % (len(impl), len(model))
    wrote = set()
    for a, b in zip(impl, model):
        pa, pb = a.split(" "), b.split(" ")
        if case["kind"] == "script" and pa[0] == "w" and len(pa) > 1:
            wrote.add(pa[1])
        if case["kind"] == "script" and pa[0] == "s" and len(pa) > 1:
            wrote.discard(pa[1])
        if a == b:
            continue
        if case["kind"] == "script" and len(pa) == len(pb) and pa[0] == pb[0]:
            if pa[0] == "g" and len(pa) == 7 and pa[:6] == pb[:6]:
                if hex_match(pa[6], pb[6]) or (not exact and pa[1] not in wrote):
                    continue
            if pa[0] == "s" and not exact and pa[:2] == pb[:2] and pa[3:] == pb[3:]:
                continue                         # which descriptor the pool hands out depends on the worker that released it
        return "impl `%s` model `%s`" % (a[:200], b[:200])
    return None


def oracle_micro(case, impl):
    """the property on the implementation's lines: non-reserved, stable, distinct among the (all live) tasks, at most two draws,
    every call returns within three grants of the task"""
    ids, since = {}, {}
    for l in impl:
        p = l.split(" ")
        if p[0] in ("TIMEOUT", "BADRET") or p[0].startswith("CRASH"):
            return "run failed: " + l
        if p[0] != "g" or len(p) != 7:
            return "unexpected line " + l
        t, kind, v, draws = int(p[1]), p[2], int(p[3]), int(p[4])
        if draws > 2:
            return "task %d performed %d fetch-and-adds on max_thread_id" % (t, draws)
        if kind == "I":
            since[t] = since.get(t, 0) + 1
            if since[t] > 2:
                return "task %d is held before a fetch-and-add for the third time inside one call" % t
            continue
        since[t] = 0
        if v in (0, UINT_MAX):
            return "task %d: qthread_id() returned the reserved value %d" % (t, v)
        if int(p[5]) != v:
            return "task %d: qthread_id() returned %d but the descriptor holds %s" % (t, v, p[5])
        if t in ids and ids[t] != v:
            return "task %d: qthread_id() changed from %d to %d" % (t, ids[t], v)
        ids[t] = v
    inv = {}
    for t, v in ids.items():
        if v in inv:
            return "tasks %d and %d, both alive, both have id %d" % (inv[v], t, v)
        inv[v] = t
    return None


def oracle_script(case, impl):
    live, ids, cur, tlsz = {}, {}, {}, {}
    for l in impl:
        p = l.split(" ")
        if p[0] in ("TIMEOUT", "SPAWNFAIL") or p[0].startswith("CRASH") or "BADRET" in l:
            return "run failed: " + l
        if len(p) < 2 or p[-1] in ("dup", "dead"):
            continue
        k = p[1]
        if p[0] == "s":
            if p[6] != "0":
                return "task %s starts with rdata->tasklocal_size = %s on a recycled descriptor" % (k, p[6])
            if p[7] != "1":
                return "task %s: the argument (copy) of the new task is not the argument passed to the spawn" % k
            live[k] = True
            ids.pop(k, None)
            cur.pop(k, None)
            tlsz[k] = 0
        elif p[0] == "i":
            v = int(p[2])
            if v in (0, UINT_MAX):
                return "task %s: qthread_id() returned the reserved value %d" % (k, v)
            if p[3] != p[2]:
                return "task %s: qthread_id() returned %d but the descriptor holds %s" % (k, v, p[3])
            if k in ids and ids[k] != v:
                return "task %s: qthread_id() changed from %d to %d" % (k, ids[k], v)
            for o, w in ids.items():
                if o != k and w == v and live.get(o):
                    return "tasks %s and %s, both alive, both have id %d" % (o, k, v)
            ids[k] = v
        elif p[0] == "g":
            data = bytes.fromhex(p[6]) if len(p) > 6 and p[6] else b""
            if k in cur:
                m = min(len(cur[k]), len(data))
                if data[:m] != cur[k][:m]:
                    return "task %s: get_tasklocal lost bytes that were present before" % k
                if len(data) < len(cur[k]):
                    return "task %s: region shrank" % k
            cur[k] = data
            tlsz[k] = int(p[5])
        elif p[0] == "w":
            cur.pop(k, None)
        elif p[0] == "f":
            want = 1 if tlsz.get(k, 0) > 0 else 0
            if int(p[2]) != want:
                return "task %s: its task-local blob was released %s times (expected %d)" % (k, p[2], want)
            if int(p[3]) > 1:
                return "task %s: its heap argument copy was released %s times" % (k, p[3])
            if int(p[4]) != 1:
                return "task %s: its descriptor was returned to the pool %s times" % (k, p[4])
            live[k] = False
    return None


# ----------------------------------------------------------------------------------------------------------------- running
def run_batch(exe, drv, sheps, workers, envkw, cases, timeout=900):
    env = core.qenv(sheps, workers, stack=65536, **envkw)
    script = []
    for c in cases:
        script += case_lines(c)
    rc, out, err = core.run_lines(exe, script + ["Q"], timeout=timeout, env=env)
    if not out or not out[0].startswith("H "):
        raise core.BuildError("c09 micro harness did not start on %dx%d %s: rc=%s %s" % (sheps, workers, envkw, rc, err[-500:]))
    h = out[0].split()
    AC, TL = int(h[3]), int(h[4])
    runs, tail = split_runs(out[1:])
    impl = runs + [None] * (len(cases) - len(runs))
    if len(runs) < len(cases):
        impl[len(runs)] = tail + ["TIMEOUT" if rc == -9 or "TIMEOUT" in tail else "CRASH rc=%s" % rc]
        for j in range(len(runs) + 1, len(cases)):
            impl[j] = ["CRASH (the process died in an earlier case of this batch)"]
    rc3, mout, merr = core.run_lines(drv, ["K %d %d" % (AC, TL)] + script, timeout=timeout)
    mruns, _ = split_runs(mout)
    if len(mruns) != len(cases):
        raise core.BuildError("c09 micro model driver failed: rc=%s %s" % (rc3, merr[-500:]))
    return (AC, TL), impl, mruns


def run_race(exe, sheps, n, rounds, wrap_round, timeout=900):
    rc, out, err = core.run_lines(exe, ["C 9", "X %d %d %d" % (n, rounds, wrap_round), "Q"], timeout=timeout, env=core.qenv(sheps, 1, stack=32768))
    line = next((l for l in out if l.startswith("X ")), None)
    return rc, line, out[-3:]


def run_micro(ctx, quick):
    pr = ctx.coq_properties(PROPS)
    ok, log = ctx.coq_make(["theories/Kernel/ExtractIdentMicro.vo"])
    if not ok:
        raise core.BuildError("Kernel/ExtractIdentMicro.v does not compile:\n" + log[-2000:])
    exe = ctx.link("c09_micro", ["c09_micro.c"], exclude=["qthread.c"])
    drv = ctx.model_driver("c09micro_driver")
    rng = ctx.rng.fork()
    mismatches, oracle_fail = [], []
    evals = grants = nscript_ops = 0
    hist = {"redraw_null": 0, "redraw_non": 0, "held_between_draw_and_redraw": 0, "reused_descriptor_spawns": 0, "stale_bytes_seen": 0,
            "blob_released": 0, "heaparg_released": 0}
    nontrivial = set()
    samples = []
    mconfigs = [(1, 1), (3, 1), (2, 2)] if quick else [(1, 1), (3, 1), (2, 2), (4, 2), (8, 1), (1, 4)]
    nmicro = 40 if quick else 300
    for (sheps, workers) in mconfigs:
        cases = micro_corpus() + [gen_micro_case(rng) for _ in range(nmicro)]
        _, impl, model = run_batch(exe, drv, sheps, workers, {}, cases)
        for case, il, ml in zip(cases, impl, model):
            cdesc = dict(micro_g=True, config=dict(sheps=sheps, workers=workers, env={}), case=case)
            grants += len(ml)
            d = compare(case, il, ml, True)
            if d:
                mismatches.append((d, dict(cdesc, impl=il[:60], model=ml[:60])))
            why = oracle_micro(case, il)
            if why:
                oracle_fail.append((why, dict(cdesc, impl=il[:60])))
            # classification from the model's lines
            two = [l for l in ml if l.split()[2] == "I" and l.split()[4] == "1"]
            if two:
                nontrivial.add(json.dumps(case, sort_keys=True))
                for l in two:
                    hist["redraw_null" if l.split()[3] == "2" else "redraw_non"] += 1
                # another task's grant between a task's first draw and its re-draw
                for t in set(l.split()[1] for l in two):
                    seq = [l.split() for l in ml]
                    i0 = next(i for i, p in enumerate(seq) if p[1] == t and p[2] == "I" and p[4] == "1")
                    i1 = next((i for i, p in enumerate(seq) if i > i0 and p[1] == t), len(seq))
                    if any(p[1] != t for p in seq[i0 + 1:i1]):
                        hist["held_between_draw_and_redraw"] += 1
            if len(samples) < 2 and two:
                samples.append(dict(config=cdesc["config"], stdin=case_lines(case), impl=il[:14]))
    evals += grants
    # ---- life-cycle scripts
    sconfigs = [((1, 1), {}, True), ((1, 1), dict(QT_ARGCOPY_SIZE=64, QT_TASKLOCAL_SIZE=32), True), ((2, 2), {}, False)]
    if not quick:
        sconfigs += [((1, 1), dict(QT_ARGCOPY_SIZE=16, QT_TASKLOCAL_SIZE=8), True), ((4, 1), {}, False), ((1, 3), dict(QT_TASKLOCAL_SIZE=24), False)]
    nscripts = 25 if quick else 150
    for ((sheps, workers), envkw, exact) in sconfigs:
        AC, TL = int(envkw.get("QT_ARGCOPY_SIZE", 1024)), int(envkw.get("QT_TASKLOCAL_SIZE", 8))
        cases = script_corpus(AC, TL) + [gen_script(rng, AC, TL, quick) for _ in range(nscripts)]
        cases[0]["counter"] = M32 - 2                       # the ids of the recycled descriptors cross the 32-bit wrap
        _, impl, model = run_batch(exe, drv, sheps, workers, envkw, cases)
        for case, il, ml in zip(cases, impl, model):
            cdesc = dict(micro_g=True, config=dict(sheps=sheps, workers=workers, env=envkw), case=case, exact=exact)
            nscript_ops += len(ml)
            d = compare(case, il, ml, exact)
            if d:
                mismatches.append((d, dict(cdesc, impl=[x[:200] for x in il[:80]], model=[x[:200] for x in ml[:80]])))
            why = oracle_script(case, il)
            if why:
                oracle_fail.append((why, dict(cdesc, impl=[x[:200] for x in il[:80]])))
            seen_desc, reused = set(), 0
            for l in ml:
                p = l.split()
                if p[0] == "s" and len(p) > 3:
                    if p[2] in seen_desc:
                        reused += 1
                    seen_desc.add(p[2])
                if p[0] == "f" and len(p) > 3:
                    hist["blob_released"] += int(p[2])
                    hist["heaparg_released"] += int(p[3])
            hist["reused_descriptor_spawns"] += reused
            # the new owner finds bytes the model knows (not all '??') in its default area right after the spawn
            for a, b in zip(ml, ml[1:]):
                if a.startswith("s ") and b.startswith("g ") and b.split()[2] == "D" and b.split()[-1].strip("?") and exact:
                    hist["stale_bytes_seen"] += 1
            if reused:
                nontrivial.add(json.dumps(case, sort_keys=True))
            if exact and reused and len(samples) < 4:
                samples.append(dict(config=cdesc["config"], stdin=case_lines(case), impl=[x[:100] for x in il[:10]]))
    evals += nscript_ops
    # ---- free-running race of first calls (search for a failing input; also a sanity run of the atomic increment)
    race = []
    broken = bool(mismatches) or not pr["ok"]
    rounds = (4000 if quick else 40000) * (5 if broken else 1)
    for sheps in ([8] if quick else [8, 4, 12]):
        rc, line, tail = run_race(exe, sheps, sheps, rounds, rounds // 2)
        race.append(dict(sheps=sheps, rounds=rounds, result=line))
        evals += sheps * rounds
        case = dict(micro_g=True, config=dict(sheps=sheps, workers=1, env={}), case=dict(kind="race", n=sheps, rounds=rounds, wrap_round=rounds // 2), impl=tail)
        if line is None:
            oracle_fail.append(("free-running race of first qthread_id() calls did not complete (rc=%s)" % rc, case))
            mismatches.append(("race phase gave no result", case))
        else:
            p = line.split()
            if p[3:6] != ["0", "0", "0"]:
                oracle_fail.append(("%s tasks x %s rounds calling qthread_id() for the first time at the same moment: %s pairs of live tasks with the "
                                    "same id, %s reserved values (0 / UINT_MAX), %s ids that changed on the second call" % (p[1], p[2], p[3], p[4], p[5]), case))
                mismatches.append(("race phase: impl `%s`, the theorems (idm_distinct / idm_nonzero_nonreserved / idm_stable) allow only 0 0 0" % line, case))
    ctx.cov["micro_id"] = dict(
        baton_grants_compared=grants, lifecycle_ops_compared=nscript_ops, micro_configs=[list(c) for c in mconfigs],
        lifecycle_configs=[dict(sheps=c[0][0], workers=c[0][1], env=c[1], exact=c[2]) for c in sconfigs], race=race, classes=hist,
        distinct_nontrivial=len(nontrivial), mismatches=len(mismatches), oracle_rejections=len(oracle_fail), samples=samples,
        rule="non-trivial = a baton schedule in which some task re-draws (its first draw was 0 or UINT_MAX), or a life-cycle script in which "
             "a descriptor is handed out a second time",
        observables="per grant: task, kind of access held at (I amount / R value), draws so far, t->thread_id, qlib->max_thread_id; per life-cycle op: "
                    "descriptor ordinal, BIG / HAS_ARGCOPY, thread_id and rdata->tasklocal_size found by the new owner, argument intact, id / field / "
                    "counter, region kind / offset / size / bytes, release counts of blob / argument copy / descriptor, blob slot zeroed")
    ctx.cov["evaluations"] = ctx.cov.get("evaluations", 0) + evals
    ctx.cov["distinct_nontrivial"] = ctx.cov.get("distinct_nontrivial", 0) + len(nontrivial)
    ctx.cov["traces_validated_against_impl"] = ctx.cov.get("traces_validated_against_impl", 0) + grants + nscript_ops
    ctx.assumptions += [
        "micro-step tier (Kernel/IdentMicro.v): sequential consistency; the fetch-and-add is one atomic access (C18); plain loads / stores of "
        "t->thread_id are not schedule points of the replay (the field is private to the task; the theorems cover the finer interleavings)",
        "life-cycle tier (Kernel/Reuse.v): the worker's pool cache is a LIFO stack and fewer than 2 x items_per_alloc descriptors are cached "
        "(no spill to the global pool); exact comparison on 1 shepherd x 1 worker only"]
    ctx.notes.append("observation (not a finding under the C09 statement): the default task-local area of a recycled descriptor is not cleared; a new "
                     "task can read the bytes the previous (finished) owner of the descriptor left there (the manual promises no initial value). "
                     "The blob slot is overwritten with NULL by qthread_thread_free, thread_id is reset by qthread_thread_new, tasklocal_size "
                     "lives in rdata which is initialised at the first run.")
    verdict(ctx, pr, mismatches, oracle_fail)
    return dict(mismatches=mismatches, oracle_fail=oracle_fail)


def verdict(ctx, pr, mismatches, oracle_fail):
    broken = bool(mismatches) or not pr["ok"]
    if not broken:
        for (w, c) in oracle_fail[:3]:
            ctx.violation("micro:unlisted:" + " ".join(w.split()[2:5]), w, c)
        return
    what = ("correspondence Kernel/IdentMicro + Kernel/Reuse vs qthread.c broken (%d cases): %s" % (len(mismatches), mismatches[0][0][:300])) \
        if mismatches else "theorems in %s no longer check" % pr["file"]
    if oracle_fail:
        w, c = oracle_fail[0]
        ctx.violation("micro:broken+input", what + "; failing input: " + w,
                      {"micro_g": True, "failing_input": c, "reason": w, "first_mismatch": mismatches[0] if mismatches else None,
                       "coq_log": pr["log"][-1500:]})
    else:
        ctx.violation("micro:broken", what, {"micro_g": True, "theorem_or_correspondence": "impl != Kernel.IdentMicro / Kernel.Reuse" if mismatches else pr["file"],
                                             "first_mismatch": mismatches[0] if mismatches else None, "coq_log": pr["log"][-1500:]}, no_input=True)


def replay(ctx, r):
    """./check C09 --replay <file> for a replay written by this module"""
    fi = r.get("failing_input") or (r.get("first_mismatch") or [None, None])[1]
    if not fi or "case" not in fi:
        print(json.dumps(r, indent=1)[:3000])
        return run_micro(ctx, True)
    pr = ctx.coq_properties(PROPS)
    ctx.coq_make(["theories/Kernel/ExtractIdentMicro.vo"])
    exe = ctx.link("c09_micro", ["c09_micro.c"], exclude=["qthread.c"])
    drv = ctx.model_driver("c09micro_driver")
    conf, case = fi["config"], fi["case"]
    if case["kind"] == "race":
        rc, line, tail = run_race(exe, conf["sheps"], case["n"], case["rounds"], case["wrap_round"])
        print("# race: %s" % line)
        bad = line is None or line.split()[3:6] != ["0", "0", "0"]
        verdict(ctx, pr, [("race %s" % line, fi)] if bad else [], [("free-running race: %s" % line, fi)] if bad else [])
        return
    _, impl, model = run_batch(exe, drv, conf["sheps"], conf["workers"], conf["env"], [case])
    print("# stdin:\n" + "\n".join(case_lines(case)))
    print("# implementation:\n" + "\n".join(x[:200] for x in impl[0]))
    print("# model:\n" + "\n".join(x[:200] for x in model[0]))
    d = compare(case, impl[0], model[0], fi.get("exact", True))
    why = (oracle_micro if case["kind"] == "micro" else oracle_script)(case, impl[0])
    print("# compare: %s\n# oracle: %s" % (d, why))
    verdict(ctx, pr, [(d, fi)] if d else [], [(why, fi)] if why else [])
