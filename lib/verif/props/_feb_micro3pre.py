"""C06, extension K part 2: micro-step tier with a NASCENT (precondition) waiter as the third party.  The micro-step model
coq/theories/Feb/Micro3Pre.v (extracted into ocaml/bin/c06micro_driver) is replayed on the real src/feb.c with the two-hold baton of
_feb_micro3 (harness/c/c06_micro3pre.c): the controller spawns N with qthread_fork_precond on the empty word w (1 word) or on (u, w)
(2 words: the walk examines w first), N parks on the FFQ of w; task A is held before its k-th interposed shared access, task B before
its j-th (or runs its whole call), optionally the controller flips the second word u while A is held, A is released, B is released;
4 shepherds x 1 worker.  Compared exactly with the model wherever the schedule determines the outcome (results of both calls, word,
full bit, record, the four waiter lists with the nascent entry, how often N's body started, whether N is parked on u, the state of u,
held-at kinds and whole access sequences), and judged on ALL schedules by an oracle written from the property text: N started at
most once; N is started, or parked on the FFQ of a precondition word that is EMPTY -- never dropped, never parked on a full word;
N started only if w was full at some moment (some fill-like call succeeded) and u is / was full."""
import os
import re
import subprocess
from .. import core
from . import _feb_micro3 as m3

OPS = m3.OPS
INITS = ["pre1", "pre2F", "pre2E"]
PROPS = "Properties/Properties_C06_micro.v"
SKIP_BAD, NOCHECK_BAD = 24, 264      # triples with a bad interleaving in the two regression variants of the model
FILLS = ("writeF", "writeEF", "writeEF_nb", "fill")


_LINE = re.compile(r"A=(\S+):(\S+) B=(\S+):(\S+) full=(-?\d+) word=(-?\d+) rec=(-?\d+) EF=\[([0-9,]*)\] FE=\[([0-9,]*)\] FF=\[([0-9,]*)\] FFW=\[([0-9,]*)\] (.*)")


def parse(line):
    m = _LINE.match(line)
    if not m:
        return None

    def rr(c, v):
        return None if c == "BLK" else (c, None if v == "-" else int(v))

    def ls(x):
        return [int(t) for t in x.split(",") if t]
    kv = dict(t.split("=", 1) for t in m.group(12).split() if "=" in t)
    d = {"A": rr(m.group(1), m.group(2)), "B": rr(m.group(3), m.group(4)),
         "full": int(m.group(5)), "word": int(m.group(6)), "rec": int(m.group(7)),
         "EF": ls(m.group(8)), "FE": ls(m.group(9)), "FF": ls(m.group(10)), "FFW": ls(m.group(11))}
    for k in ("launched", "parkedU", "ufull", "uaf", "orphan", "stuck", "c1", "c2", "good", "nlw", "early", "adone", "overlap", "nstate"):
        d[k] = int(kv.get(k, 0))
    d["mfull"] = int(kv.get("mfull", -1))
    for k in ("atA", "atB", "seqA", "seqB", "zoneA", "zoneB"):
        d[k] = kv.get(k, "")
    return d


def judge(init, a, b, flip, r):
    """the property's own predicate on the REAL outcome -> (verdict, reason)"""
    if r["stuck"]:
        return "stuck", "a task neither returned nor blocked, or the precondition task left the nascent state and never started"
    lists = r["EF"] + r["FE"] + r["FF"] + r["FFW"]
    if r["orphan"]:
        return "structure", "a blocked task is on no waiter list of the record the table holds"
    if bool(r["rec"]) != bool(lists or not r["full"]):
        return "structure", "record present=%d but full=%d and the waiter lists are EF=%s FE=%s FF=%s FFW=%s" % (r["rec"], r["full"], r["EF"], r["FE"], r["FF"], r["FFW"])
    if r["launched"] > 1:
        return "launched-twice", "the precondition task was started %d times" % r["launched"]
    on_w = lists.count(2)
    places = r["launched"] + on_w + r["parkedU"]
    if places == 0:
        return "lost-nascent", "the precondition task is neither started nor parked on a precondition word (it was dropped)"
    if places > 1:
        return "duplicated-nascent", "the precondition task is in %d places (started %d, on w %d, on u %d)" % (places, r["launched"], on_w, r["parkedU"])
    if on_w and (r["full"] or r["FF"].count(2) != 1):
        return "parked-on-full", "the precondition task is parked on w (lists EF=%s FE=%s FF=%s FFW=%s) although w is %s" % (r["EF"], r["FE"], r["FF"], r["FFW"], "full" if r["full"] else "empty, on a wrong list")
    if r["parkedU"] and (r["ufull"] or init == "pre1"):
        return "parked-on-full", "the precondition task is parked on the second word although that word is full (or is not one of its words)"
    if r["launched"]:
        # w was empty at the start: somebody must have filled it; u must have been full at some moment
        filled = any(op in FILLS and res is not None and res[0] == "OK" for op, res in ((a, r["A"]), (b, r["B"])))
        if not filled:
            return "launched-early", "the precondition task was started although no call ever filled w"
        if init == "pre2E" and not flip:
            return "launched-early", "the precondition task was started although its second word was never full"
    for name, op in (("A", a), ("B", b)):
        if r[name] is None and m3.needs(op) is not None and m3.needs(op) == bool(r["full"]):
            return "lost-wakeup", "%s is still blocked in %s although the word is %s" % (name, op, "full" if r["full"] else "empty")
    return "ok", ""


def model_lines(drv, queries, flags=()):
    rc, out, err = core.run_lines(drv, ["h %s %s %d %s %d %d" % q for q in queries], timeout=900, args=["--held"] + list(flags))
    res = [parse(l) for l in out]
    if rc != 0 or len(res) != len(queries) or None in res:
        raise core.BuildError("c06 micro model driver failed: rc=%s %s %s" % (rc, out[-2:], err[-300:]))
    return res


def run_real(exe, probes, models, slow):
    res = [None] * len(probes)
    i, deaths = 0, 0
    env = core.qenv(4, 1, stack=65536)
    CHUNK = 1200
    while i < len(probes) and deaths < 12:       # (a hang costs `slow` seconds: after two of them the watchdog is shortened)
        lines = ["m %s %s %d %s %d %d %d %d %g" % (p + (m["c1"], 1 if (m["c2"] or m["c1"]) else 0, slow if deaths < 2 else 3.0))
                 for p, m in zip(probes[i:i + CHUNK], models[i:i + CHUNK])]
        rc, out, err = core.run_lines(exe, lines, timeout=900, env=env)
        if not out or not out[0].startswith("H "):
            raise core.BuildError("c06 micro harness did not start: rc=%s %s %s" % (rc, out[:1], err[-300:]))
        got = [g for g in (parse(l) for l in out[1:]) if g is not None]
        for k, g in enumerate(got[:len(lines)]):
            res[i + k] = g
        if len(got) >= len(lines) and not got[-1]["stuck"]:
            i += len(lines)
            continue
        deaths += 1
        i += len(got) if (got and got[-1]["stuck"]) else len(got) + 1
    return res


def gen_probes(ctx, drv, quick):
    rng = ctx.rng.fork()
    triples = [(i, a, b) for i in INITS for a in OPS for b in OPS]
    solo = model_lines(drv, [(i, a, 0, b, 0, 0) for (i, a, b) in triples])
    probes, tags = [], {}

    def add(p, tag):
        if p not in tags:
            tags[p] = tag
            probes.append(p)
    cpath = os.path.join(core.VERIF, "corpus", "C06", "micro3pre_witnesses.probes")
    if os.path.exists(cpath):
        for l in open(cpath):
            t = l.split("#")[0].split()
            if len(t) == 6 and t[0] in INITS and t[1] in OPS and t[3] in OPS:
                add((t[0], t[1], int(t[2]), t[3], int(t[4]), int(t[5])), "corpus")
    # no hold: A's whole call, then B's (every triple); for the two-word states also with the flip of u in between
    for (i, a, b) in triples:
        add((i, a, 0, b, 0, 0), "no-hold")
        if i != "pre1":
            add((i, a, 0, b, 0, 1), "no-hold")
    # one hold: A at each of its hold points; the aimed class: A is held inside the wake-up body, the launch (re-check walk) or the
    # removal, and B makes progress meanwhile
    one = []
    for (i, a, b), s in zip(triples, solo):
        for k in m3.hold_points(s["seqA"]):
            one.append((i, a, k, b, 0, 0))
            if i != "pre1":
                one.append((i, a, k, b, 0, 1))
    om = model_lines(drv, one)
    aimed = {}
    for q, m in zip(one, om):
        if m["zoneA"] in ("body", "launch", "remove") and (m["overlap"] or m["c1"] or q[5]):
            aimed.setdefault((q[0], q[1], q[3]), []).append((q, m))
    for key in sorted(aimed):
        cand = aimed[key]
        launch = [(q, m) for q, m in cand if m["zoneA"] == "launch"]
        if quick:
            free = [q for q, m in launch if not m["c1"]] or [q for q, m in cand if not m["c1"]]
            for q in rng.shuffle(free)[:2]:
                add(q, "aimed:" + dict(cand)[q]["zoneA"])
            cont = [q for q, m in cand if m["c1"]]
            if cont and rng.below(6) == 0:
                add(rng.choice(cont), "aimed-contended")
        else:
            for q, m in cand:
                add(q, ("aimed:" + m["zoneA"]) if not m["c1"] else "aimed-contended")
    for q in (rng.shuffle(one)[:120] if quick else one):
        add(q, "one-hold")
    base = [q for q, m in zip(one, om) if not m["c1"]]
    base = rng.shuffle(base)[:(100 if quick else 4000)]
    bm = model_lines(drv, base)
    for q, m in zip(base, bm):
        hp = m3.hold_points(m["seqB"])
        if hp:
            add((q[0], q[1], q[2], q[3], rng.choice(hp), q[5]), "two-holds")
    return probes, tags


def coq_props(ctx):
    mine = ctx.tier == "thorough" and not os.environ.get("VERIF_NO_COQCHK")
    if mine:
        os.environ["VERIF_NO_COQCHK"] = "1"
    try:
        pr = ctx.coq_properties(PROPS)
    finally:
        if mine:
            del os.environ["VERIF_NO_COQCHK"]
    proc = None
    if mine and pr["ok"]:
        proc = subprocess.Popen(["timeout", "2400", "coqchk", "-o", "-silent", "-bytecode-compiler", "yes", "-Q", "theories", "QV",
                                 "QV." + PROPS[:-2].replace("/", ".")], cwd=core.COQ, stdout=subprocess.PIPE, stderr=subprocess.STDOUT,
                                universal_newlines=True)
    return pr, proc


def coqchk_collect(ctx, proc):
    if proc is None:
        return
    out = proc.communicate()[0]
    i = out.find("CONTEXT SUMMARY")
    summ = " ".join(out[i:].split())[:1500] if i >= 0 else out[-800:]
    ctx.trusted.append("coqchk -o -bytecode-compiler yes QV.%s: rc=%d %s" % (PROPS[:-2].replace("/", "."), proc.returncode, summ[:600]))
    if proc.returncode != 0:
        ctx.discharged -= len(re.findall(r'^Theorem ', open(os.path.join(core.COQ, 'theories', PROPS)).read(), re.M))
        ctx.coq_failed.append(PROPS + " (coqchk)")


def run_micro3pre(ctx, quick, verbose=False):
    pr, chk = coq_props(ctx)
    try:
        return _run(ctx, quick, verbose)
    finally:
        coqchk_collect(ctx, chk)


def _exhaustive(drv, flags):
    rc, out, err = core.sh([drv] + flags, timeout=600)
    summ = [l for l in out.splitlines() if l.startswith("# pairs=")]
    if rc != 0 or not summ:
        raise core.BuildError("c06 micro model driver (exhaustive) failed: rc=%s %s" % (rc, err[-300:]))
    return dict((k, int(v)) for k, v in re.findall(r"(\w+)=(\d+)", summ[0])), [l for l in out.splitlines() if l.startswith("BAD")]


CMP = ("A", "B", "full", "word", "rec", "EF", "FE", "FF", "FFW", "launched", "parkedU", "ufull", "atA", "atB", "seqA", "seqB")


def _run(ctx, quick, verbose=False):
    drv = ctx.model_driver("c06micro_driver")
    exe = ctx.link("c06_micro3pre", ["c06_micro3pre.c"], exclude=["feb.c"])
    sm, badl = _exhaustive(drv, [])
    sms, _ = _exhaustive(drv, ["--skip"])
    smn, _ = _exhaustive(drv, ["--nocheck"])
    model_ok = (sm["bad_pairs"] == 0 and sm["pairs"] == len(INITS) * len(OPS) ** 2 and sms["bad_pairs"] == SKIP_BAD and smn["bad_pairs"] == NOCHECK_BAD)

    probes, tags = gen_probes(ctx, drv, quick)
    models = model_lines(drv, probes)
    cap, kept = ({"aimed-contended": 50, "other": 40} if quick else {"aimed-contended": 900, "other": 700}), []
    for p, m in zip(probes, models):
        if (m["c1"] or m["c2"]) and tags[p] != "corpus":
            cls = "aimed-contended" if tags[p] == "aimed-contended" else "other"
            if cap[cls] <= 0:
                continue
            cap[cls] -= 1
        kept.append((p, m))
    # the controller flips u itself: never while a held call is inside the walk of u (it owns u's stripe or record lock)
    kept = [(p, m) for p, m in kept if not (p[5] and "uwalk" in (m["zoneA"], m["zoneB"]))]
    probes, models = [p for p, _ in kept], [m for _, m in kept]
    reals = run_real(exe, probes, models, 40.0)
    findings, mismatches = {}, []
    nrun = ncont = nexact = naimed = nlaunched = 0
    for p, m, r in zip(probes, models, reals):
        init, a, k, b, j, flip = p
        case = {"config": [4, 1], "probe": list(p), "class": tags[p],
                "schedule": "%s: %s is held before its %d. interposed access (%s), %s before its %d. (%s)%s; the first is released, then the second"
                            % (init, a, k, m["atA"], b, j, m["atB"], "; the second precondition word is flipped" if flip else ""), "model": m, "real": r}
        if r is None:
            mismatches.append(dict(case, what="the harness gave no answer for this probe"))
            continue
        nrun += 1
        contended = m["c1"] or m["c2"]
        ncont += 1 if contended else 0
        naimed += 1 if tags[p].startswith("aimed") else 0
        nlaunched += r["launched"]
        verdict, why = judge(init, a, b, flip, r)
        if verbose:
            print("%-6s %-10s k=%-3d %-10s j=%-3d f=%d %-16s real %s %s full=%d word=%d launched=%d FF=%s parkedU=%d | model good=%d %s %s" % (
                init, a, k, b, j, flip, tags[p], r["A"], r["B"], r["full"], r["word"], r["launched"], r["FF"], r["parkedU"], m["good"], verdict, "(contended)" if contended else ""))
        if verdict != "ok":
            findings.setdefault("micro3pre:" + verdict, []).append((why, dict(case, oracle=why)))
        if not contended:
            nexact += 1
            cmpf = [f for f in CMP if not (init == "pre1" and f == "ufull")]      # one precondition word: u is not used
            if not all(r[f] == m[f] for f in cmpf):
                mismatches.append(dict(case, what="outcome / access sequence differs from the model: " +
                                       ", ".join("%s real %s model %s" % (f, r[f], m[f]) for f in cmpf if r[f] != m[f])))
        if m["c1"] and r["early"] and not r["stuck"]:
            mismatches.append(dict(case, what="the second call got past a lock which, in the model, the held first call owns"))
        elif not m["c1"] and m["c2"] and r["adone"] and not r["stuck"]:
            mismatches.append(dict(case, what="the first call finished while, in the model, it waits for a lock the held second call owns"))
    nsearch = 0
    if mismatches and not findings:
        extra, seen = [], set(probes)
        for mm in mismatches[:60]:
            r = mm.get("real")
            if not r:
                continue
            init, a, k, b, j, flip = mm["probe"]
            for x, y, seq in ((a, b, r["seqA"]), (b, a, r["seqB"])):
                for kk in m3.hold_points(seq):
                    for fl in ((0, 1) if init != "pre1" else (0,)):
                        q = (init, x, kk, y, 0, fl)
                        if q not in seen:
                            seen.add(q)
                            extra.append(q)
        extra = extra[:500]
        if extra:
            em = model_lines(drv, extra)
            keep = [i for i, (p, m) in enumerate(zip(extra, em)) if not (p[5] and "uwalk" in (m["zoneA"], m["zoneB"]))]
            extra, em = [extra[i] for i in keep], [em[i] for i in keep]
            er = run_real(exe, extra, em, 3.0)
            for p, m, r in zip(extra, em, er):
                if r is None:
                    continue
                nsearch += 1
                verdict, why = judge(p[0], p[1], p[3], p[5], r)
                if verdict not in ("ok", "stuck"):
                    case = {"config": [4, 1], "probe": list(p), "class": "search",
                            "schedule": "%s: %s is held before its %d. interposed access (%s), %s runs; the first is released" % (p[0], p[1], p[2], r["atA"], p[3]),
                            "model": m, "real": r, "oracle": why}
                    findings.setdefault("micro3pre:" + verdict, []).append((why, case))
    ctx.cov["micro3pre"] = {
        "probes": len(probes), "answered": nrun, "by_class": {t: sum(1 for p in probes if tags[p] == t) for t in sorted(set(tags.values()))},
        "aimed_body_launch_or_removal_overlapped": naimed, "compared_exactly_with_model": nexact, "contended": ncont,
        "probes_in_which_the_precondition_task_started": nlaunched, "failing_input_search_probes": nsearch,
        "mismatches": len(mismatches), "oracle_rejections": {s: len(v) for s, v in findings.items()},
        "exhaustive_model_search": sm, "exhaustive_model_search_C06_3_variant": sms, "exhaustive_model_search_launch_without_recheck": smn,
        "observables": "per probe: results of both calls, word, qthread_feb_status of w and u, record present and its full bit, task ids on "
                       "EFQ/FEQ/FFQ/FFWQ in list order (2 = the nascent task), how often the precondition task's body started, whether it is "
                       "parked on u, hang; kinds of the accesses held at and run-length encoded access sequences of both calls"}
    ctx.cov["evaluations"] = ctx.cov.get("evaluations", 0) + nrun
    ctx.cov["traces_validated_against_impl"] = ctx.cov.get("traces_validated_against_impl", 0) + nexact
    ctx.assumptions.append("micro-step tier with a nascent waiter (Feb/Micro3Pre.v): two running calls + one precondition task with 1 or 2 precondition "
                           "words on one word w; the second word is abstract in the model (one flip by the environment) and a real word on another "
                           "stripe in the harness, flipped by the controller at one point of the baton (after the second call's turn, the first still "
                           "held); plain loads / stores are not hold points; sequential consistency")
    for sig, lst in findings.items():
        why, case = lst[0]
        ctx.violation(sig, "C06 micro-step (nascent waiter): %s: %s (%d probes)" % (case["schedule"], why, len(lst)), case)
    if not model_ok:
        ctx.violation("broken", "the exhaustive search of the micro-step model Feb.Micro3Pre no longer gives what the theorems say: current %s, C06-3 variant %s, "
                      "launch without re-check %s" % (sm, sms, smn),
                      {"theorem_or_correspondence": "Feb.Micro3Pre exhaustive search vs Properties_C06_micro", "bad": badl[:5]}, no_input=True)
    if mismatches and not findings:
        ctx.violation("broken", "micro-step correspondence Feb.Micro3Pre / implementation broken in %d probe(s); the oracle accepts the observed "
                      "outcomes: %s" % (len(mismatches), mismatches[0]["what"][:300]),
                      {"theorem_or_correspondence": "impl != Feb.Micro3Pre (held schedule)", "first_mismatch": mismatches[0]}, no_input=True)
    return {"probes": len(probes), "mismatches": mismatches, "findings": findings}


def is_replay(path):
    import json
    try:
        j = json.load(open(path))
    except Exception:
        return False
    return str(j.get("signature", "")).startswith("micro3pre:") and isinstance(j.get("replay", {}).get("probe"), list)


def replay_file(ctx, path):
    import json
    probe = json.load(open(path))["replay"]["probe"]
    drv = ctx.model_driver("c06micro_driver")
    exe = ctx.link("c06_micro3pre", ["c06_micro3pre.c"], exclude=["feb.c"])
    p = (probe[0], probe[1], int(probe[2]), probe[3], int(probe[4]), int(probe[5]))
    m = model_lines(drv, [p])[0]
    r = run_real(exe, [p], [m], 40.0)[0]
    print("probe %s\n model: %s\n real : %s" % (list(p), m, r))
    if r is None:
        ctx.violation("micro3pre:no-answer", "the harness gave no answer for the probe", {"probe": list(p)})
        return
    verdict, why = judge(p[0], p[1], p[3], p[5], r)
    print(" oracle:", verdict, why)
    if verdict != "ok":
        ctx.violation("micro3pre:" + verdict, why, {"probe": list(p), "model": m, "real": r})
