"""C13 extension F: one parallel partition pass of qutil_qsort / qutil_aligned_qsort / qt_qsort under arbitrary
interleavings of its partition threads.
Model: coq/theories/Util/PartInterleave.v (micro-step machine, one shared access per step); theorems:
Properties/Properties_C13_part.v (every schedule gives the result of the sequential model Sort.partitioner).
Tie (M3 at yield-point granularity + M1 solo): harness/c/c13_part.c includes the working tree's qutil.c and qloop.c, runs the
REAL partition threads as pthreads under a baton (yield points: every wall step = call of qthread_cacheline(), every CAS, the
lock / unlock calls) through the REAL *_inner_partitioner (fork loop, per-thread lengths, wait loop) and prints, after every
scheduling unit, a hash of the whole allocation and the two wall words; the extracted machine (ocaml/bin/c13part_driver)
executes the same schedule; the lines must be identical.  `solo`: each thread's function alone on the array and on two
copies poisoned outside its slice: same behaviour, nothing written outside the slice.
Oracle (searches the failing input when the tie or a proof breaks): the pass postcondition on the implementation's own
result (permutation of the sub-array, nothing outside it touched, everything left of min(l, r+1) <= pivot, everything right
of r > pivot) and slice confinement."""
import json
import os
from concurrent.futures import ThreadPoolExecutor
from .. import core

FLAVS = {"q": "qutil_qsort_partition", "a": "qutil_aligned_qsort_partition", "t": "qt_qsort_partition"}


def mkcase(flav, cs, nt, B, LEN, tail, pivot, vals, sched):
    bound = B + LEN + tail
    assert len(vals) == bound
    return {"flav": flav, "cs": cs, "nt": nt, "B": B, "LEN": LEN, "bound": bound, "pivot": pivot, "vals": list(vals), "sched": list(sched)}


def cmd_pass(c):
    return "pass %s %d %d %d %d %d %d %d %s %d %s" % (c["flav"], c["cs"], c["nt"], c["B"], c["LEN"], c["bound"], c["pivot"], c["bound"],
                                                      " ".join(map(str, c["vals"])), len(c["sched"]), " ".join(map(str, c["sched"])))


def cmd_solo(c):
    return "solo %s %d %d %d %d %d %d %d %s" % (c["flav"], c["cs"], c["nt"], c["B"], c["LEN"], c["bound"], c["pivot"], c["bound"],
                                                " ".join(map(str, c["vals"])))


def gen_vals(rng, pat, n, pivot, cs, nt):
    if pat == "random":
        return [rng.below(2 * pivot + 1) for _ in range(n)]
    if pat == "allequal":
        return [pivot] * n
    if pat == "allsmall":
        return [rng.below(pivot + 1) for _ in range(n)]
    if pat == "alllarge":
        return [pivot + 1 + rng.below(5) for _ in range(n)]
    if pat == "twovalued":
        return [pivot if rng.chance(1, 2) else pivot + 1 for _ in range(n)]
    if pat == "strided":          # like the input of fix 393b394: whole chunks of one value, alternating per thread
        ph = rng.below(nt + 1)
        return [pivot + 1 if ((j // cs) + ph) % nt in (0, 1) and j > 0 else pivot for j in range(n)]
    if pat == "sorted":
        return list(range(n))
    if pat == "reversed":
        return list(range(n, 0, -1))
    if pat == "boundary":         # large values exactly at the chunk boundaries
        return [pivot + 2 if (j % cs in (0, cs - 1)) else rng.below(pivot + 1) for j in range(n)]
    return [rng.below(2 * pivot + 1) for _ in range(n)]


PATS = ["random", "random", "allequal", "allsmall", "alllarge", "twovalued", "strided", "sorted", "reversed", "boundary"]


def gen_sched(rng, kind, nt, n):
    if kind == "rr":
        return []
    if kind == "random":
        return [rng.below(nt) for _ in range(rng.range(0, 6 * n + 10))]
    if kind == "starve_last":     # the last thread runs only when nothing else can
        return [rng.below(max(1, nt - 1)) for _ in range(8 * n + 40)]
    if kind == "starve_first":
        return [1 + rng.below(max(1, nt - 1)) if nt > 1 else 0 for _ in range(8 * n + 40)]
    if kind == "reverse":
        return [nt - 1 - (k % nt) for k in range(4 * n)]
    if kind == "bursts":
        s = []
        while len(s) < 6 * n:
            s += [rng.below(nt)] * rng.range(1, 9)
        return s
    if kind == "one_by_one_rev":  # thread nt-1 to its end, then nt-2, ...
        s = []
        for t in range(nt - 1, -1, -1):
            s += [t] * (3 * n + 10)
        return s
    return []


SCHEDS = ["rr", "random", "random", "starve_last", "starve_first", "reverse", "bursts", "one_by_one_rev"]


def gen_case(rng, flav=None, aimed=False):
    flav = flav or rng.choice(["q", "a", "t"])
    cs = 10 if flav == "t" else rng.choice([1, 2, 3, 4, 8])
    nt = rng.choice([1, 2, 2, 3, 3, 4, 5, 7])
    mcs = cs * nt
    # lengths aimed at the slice boundaries: k*mcs, k*mcs +- 1, k*mcs + j*cs +- 1, and free ones (never below one megachunk)
    k = rng.range(1, 4)
    base = k * mcs
    choices = [base, base + 1, base + mcs - 1, base + rng.below(mcs)]
    j = rng.below(nt) * cs
    choices += [base + j, base + j + 1, max(mcs, base + j - 1)]
    LEN = rng.choice(choices)
    if flav != "t":
        # the qutil flavours derive the thread count from the length: ceil(LEN / ceil(LEN / nt)) must be nt
        ch = (LEN + nt - 1) // nt
        if (LEN + ch - 1) // ch != nt:
            LEN = base
    B = rng.choice([0, 1, 3])
    tail = rng.choice([0, 1, 2])
    pivot = 50
    pat = rng.choice(PATS)
    vals = [7] * B + gen_vals(rng, pat, LEN, pivot, cs, nt) + [93] * tail
    pv = rng.choice([pivot, pivot, pivot, min(vals[B:B + LEN]), max(vals[B:B + LEN]), max(0, min(vals[B:B + LEN]) - 1)])
    sched = gen_sched(rng, rng.choice(SCHEDS), nt, LEN)
    c = mkcase(flav, cs, nt, B, LEN, tail, pv, vals, sched)
    c["pattern"] = pat
    return c


def oracle(c, impl_line):
    """the pass postcondition on the implementation's own result; returns None (accepted) or the reason"""
    f = dict(x.split("=", 1) for x in impl_line.split()[1:] if "=" in x)
    if "ret" not in f or "arr" not in f:
        return "no result (%s)" % impl_line[:80]
    if "STRAY" in f:
        return "the pass returned while %s partition thread(s) had not returned" % f["STRAY"]
    try:
        arr = [int(x) for x in f["arr"].split(",")]
        l, r = f["ret"].split(",")
        l = (1 << 64) - 1 if l == "max" else int(l)
        r = int(r)
    except ValueError:
        return "unparsable result"
    B, LEN, v = c["B"], c["LEN"], c["vals"]
    if arr[:B] != v[:B] or arr[B + LEN:] != v[B + LEN:]:
        return "an element outside the sub-array was modified"
    if sorted(arr[B:B + LEN]) != sorted(v[B:B + LEN]):
        return "the sub-array is not a permutation of the input"
    if r >= LEN:
        return "right wall %d outside the sub-array" % r
    for i in range(LEN):
        if i < l and i <= r and arr[B + i] > c["pivot"]:
            return "element %d left of both walls (l=%d r=%d) is greater than the pivot" % (i, l, r)
        if i > r and arr[B + i] <= c["pivot"]:
            return "element %d right of the right wall %d is not greater than the pivot" % (i, r)
    return None


def oracle_solo(c, impl_line):
    for tok in impl_line.split()[2:]:
        name, v = tok.split("=")
        p = v.split(",")
        if len(p) == 5 and p[3] != "0":
            return "partition thread %s wrote outside its slice" % name
        if len(p) == 5 and p[4] != "1":
            return "partition thread %s depends on elements outside its slice" % name
    return None


def desc(c, kind):
    d = {"function": FLAVS[c["flav"]], "chunk": c["cs"], "threads": c["nt"], "base": c["B"], "length": c["LEN"], "pivot": c["pivot"],
         "pattern": c.get("pattern", "corpus"), "array": c["vals"], "schedule": c["sched"][:400], "mode": kind,
         "harness_command": (cmd_pass(c) if kind == "pass" else cmd_solo(c))[:6000]}
    return d


def load_corpus():
    p = os.path.join(core.VERIF, "corpus", "C13", "part_cases.json")
    if os.path.exists(p):
        return json.load(open(p))
    return []


def run_part(ctx, quick):
    rng = ctx.rng.fork()
    pr = ctx.coq_properties("Properties/Properties_C13_part.v")
    ok, log = ctx.coq_make(["theories/Util/ExtractPart.vo"])
    if not ok:
        raise core.BuildError("Util/ExtractPart.v does not compile:\n" + log[-2000:])
    exe = ctx.link("c13_part", ["c13_part.c"], exclude=["qutil.c", "qloop.c"])
    drv = ctx.model_driver("c13part_driver")
    cases = [dict(c) for c in load_corpus()]
    ncorp = len(cases)
    for fl in ("q", "a", "t"):
        for _ in range(30 if quick else 400):
            cases.append(gen_case(rng, fl))
    cmds = []
    for c in cases:
        cmds.append(("pass", c, cmd_pass(c)))
        cmds.append(("solo", c, cmd_solo(c)))
    lines = [x[2] for x in cmds]
    env = dict(os.environ)
    pool = ThreadPoolExecutor(max_workers=1)
    mfut = pool.submit(core.run_lines, drv, lines, 900)
    # a crash or a hang (per-command alarm in the harness) ends the process: that command gets CRASH, the rest runs in a fresh process
    iout, pos, restarts = [], 0, 0
    while pos < len(lines) and restarts < 6:
        rc, out, ierr = core.run_lines(exe, lines[pos:] + ["Q"], timeout=900, env=env)
        out = out[:len(lines) - pos]
        iout += out
        pos += len(out)
        if pos < len(lines):
            iout.append("CRASH rc=%s" % rc)
            pos += 1
            restarts += 1
    while len(iout) < len(lines):
        iout.append("CRASH not-run")
    rc2, mout, merr = mfut.result()
    if len(mout) != len(lines):
        raise core.BuildError("c13part model driver failed: rc=%s, %d of %d answers; %s" % (rc2, len(mout), len(lines), merr[-300:]))
    mism, ofail = [], []
    nontrivial = set()
    hist = {}
    units_total = 0
    samples = []
    for k, (kind, c, line) in enumerate(cmds):
        io = iout[k]
        mo = mout[k]
        d = desc(c, kind)
        hist[kind + ":" + c["flav"]] = hist.get(kind + ":" + c["flav"], 0) + 1
        if kind == "pass":
            if "seq=same" not in mo:
                mism.append(("machine-vs-sequential-model", dict(d, model=mo[-200:])))
            mo_cmp = mo.rsplit(" seq=", 1)[0]
            if io != mo_cmp:
                fi = dict(x.split("=", 1) for x in io.split()[1:] if "=" in x)
                fm = dict(x.split("=", 1) for x in mo_cmp.split()[1:] if "=" in x)
                field = next((f for f in ("args", "hs", "units", "ret", "arr") if fi.get(f) != fm.get(f)), "line")
                first = None
                if field == "hs":
                    first = core.first_diff(fi.get("hs", "").split(","), fm.get("hs", "").split(","))
                mism.append(("pass-" + field, dict(d, impl=io[:3000], model=mo_cmp[:3000], first_differing_unit=first)))
                why = oracle(c, io)
                if why:
                    ofail.append((why, d))
            m = mo.split()
            u = int(dict(x.split("=", 1) for x in m[1:] if "=" in x).get("units", "0"))
            units_total += u
            if c["nt"] >= 2 and u > c["nt"] and len(set(mo.split("hs=")[1].split()[0].split(","))) >= 3:
                nontrivial.add((c["flav"], c["cs"], c["nt"], c["LEN"], tuple(c["vals"]), tuple(c["sched"][:50])))
            if len(samples) < 4 and c["nt"] >= 3 and u > 20:
                samples.append({k2: d[k2] for k2 in ("function", "chunk", "threads", "length", "pivot", "pattern")} | {"units": u, "result": m[-3][:60]})
        else:
            if io != mo:
                mism.append(("solo", dict(d, impl=io[:2000], model=mo[:2000])))
                why = oracle_solo(c, io) if io.startswith("s args") else "no result (%s)" % io[:80]
                if why:
                    ofail.append((why, d))
    ctx.cov["part_interleave"] = {
        "evaluations": len(cmds), "corpus_cases": ncorp, "distinct_nontrivial": len(nontrivial), "scheduling_units_compared": units_total,
        "rule": "non-trivial = pass with >= 2 partition threads, more scheduling units than threads and >= 3 distinct intermediate "
                "states; every unit's state hash (whole allocation + both wall words) is compared with the machine's",
        "input_distribution": hist, "mismatches": len(mism), "samples": samples,
        "chunk_sizes": [1, 2, 3, 4, 8, 10], "thread_counts": [1, 2, 3, 4, 5, 7]}
    ctx.cov["evaluations"] = ctx.cov.get("evaluations", 0) + len(cmds)
    ctx.cov["distinct_nontrivial"] = ctx.cov.get("distinct_nontrivial", 0) + len(nontrivial)
    ctx.cov["traces_validated_against_impl"] = ctx.cov.get("traces_validated_against_impl", 0) + len(cmds)
    ctx.assumptions += ["partition pass under interleavings: the yield points of the correspondence are the wall steps, the CASes and the "
                        "lock/unlock calls (plain loads/stores of the real threads cannot be interposed; the machine's theorems cover every "
                        "finer interleaving); the fake runtime of the harness (pthreads + baton) stands in for qthread_fork/readFF",
                        "the pass is started only on sub-arrays that hold one chunk per thread (PassWF; follows from ParamsWF, for qt_qsort "
                        "up to 44 shepherds)"]
    if not mism and pr["ok"]:
        return
    what = ("partition pass: real threads and micro-step machine disagree (%d cases, first: %s)" % (len(mism), mism[0][0])) if mism else \
           "theorems in %s no longer check" % pr["file"]
    if ofail:
        why, d = ofail[0]
        ctx.violation("part:" + why.split()[0] + "-" + why.split()[1], what + "; failing input: " + why,
                      {"failing_input": d, "reason": why, "first_mismatch": mism[0] if mism else None, "coq_log": pr["log"][-1500:]})
    else:
        # search: the oracle over every case of the batch (the mismatching ones were already judged)
        for k, (kind, c, line) in enumerate(cmds):
            io = iout[k] if k < len(iout) else ""
            why = (oracle(c, io) if kind == "pass" else (oracle_solo(c, io) if io.startswith("s args") else None)) if io else None
            if why:
                ctx.violation("part:" + why.split()[0] + "-" + why.split()[1], what + "; failing input: " + why,
                              {"failing_input": desc(c, kind), "reason": why, "first_mismatch": mism[0] if mism else None})
                return
        ctx.violation("part-broken", what, {"theorem_or_correspondence": ("real partition threads != Util/PartInterleave machine on " + mism[0][0])
                                            if mism else pr["file"], "first_mismatch": mism[0] if mism else None,
                                            "coq_log": pr["log"][-1500:]}, no_input=True)


def replay(ctx, j, case):
    """re-run one recorded pass / solo command on the working tree (implementation and machine)"""
    cmd = case["harness_command"]
    ctx.coq_make(["theories/Util/ExtractPart.vo"])
    exe = ctx.link("c13_part", ["c13_part.c"], exclude=["qutil.c", "qloop.c"])
    drv = ctx.model_driver("c13part_driver")
    rc, io, _ = core.run_lines(exe, [cmd, "Q"], timeout=300)
    rc2, mo, _ = core.run_lines(drv, [cmd], timeout=300)
    io = io[0] if io else "CRASH rc=%s" % rc
    mo = (mo[0] if mo else "none").rsplit(" seq=", 1)[0]
    print("# re-run on the working tree: %s\n#  impl : %s\n#  model: %s" % (cmd[:200], io[:300], mo[:300]))
    if io != mo:
        ctx.violation(j.get("signature", "replay"), "replayed partition pass still differs from the machine: " + io[:160], case)
