"""C07 extension N: src/shepherds.c (shep_next/prev, shep_ok, qthread_shep, distance, sorted_sheps[_remote], disable/enable
shepherd), src/workers.c (disable/enable worker), sort_sheps/shuffle_sheps of src/affinity/shufflesheps.h and the list
construction of qt_affinity_gendists, against Kernel/Sheps.v.

Tie: M1 on fabricated tables (white-box harness/c/c07_sheps.c `fab`: arbitrary flags/counters/distance rows/lists, scripted
rand() and random()) + live (`live`: the runtime's own tables for QT_NUM_SHEPHERDS 1..8 with rand() interposed, so the
sorted lists the runtime built are recomputed exactly by the model; enable/disable sequences with a dump of every flag and
of qthread_num_workers()/qthread_num_shepherds() after each call; tasks sampling qthread_shep()/qthread_shep_ok()/
qthread_sorted_sheps()).  Exact line-by-line comparison with ocaml/bin/c07sheps_driver (extracted model).
"""
import json
import os
from .. import core

PROPS = "Properties/Properties_C07_sheps.v"
PALETTES = [[10], [10, 10, 20], [10, 20, 20, 30], [0, 10, 10, 255], [5, 5, 7, 7, 9], [10, 21, 30, 40, 50, 60, 70]]


# ------------------------------------------------------------------ generator guard / oracle mirror of the flags
class Mirror:
    """What the documented API semantics say the flags are (idempotent set / clear); used (a) to keep `task` commands away
    from states in which no worker could run the task, (b) as the property oracle for the dumps."""

    def __init__(self, n, w, sact=None, wact=None, nsa=None, nwa=None):
        self.n, self.w = n, w
        self.sact = list(sact) if sact is not None else [1] * n
        self.wact = list(wact) if wact is not None else [1] * (n * w)
        self.clean = (nsa is None or nsa == sum(self.sact)) and (nwa is None or nwa == sum(self.wact))

    def apply(self, cmd, a):
        """returns the rc name the API documents"""
        n, w = self.n, self.w
        if cmd == "ds":
            if a >= n:
                return "BADARGS"
            if a == 0:
                return "NOT_ALLOWED"
            if not self.sact[a]:
                self.clean = False
            self.sact[a] = 0
            return "SUCCESS"
        if cmd == "es":
            if a < n:
                if self.sact[a]:
                    self.clean = False
                self.sact[a] = 1
            return "VOID"
        s, k = a % n, a // n
        if cmd == "dw":
            if k >= w:
                return "BADARGS"
            if k == 0 and s == 0:
                return "NOT_ALLOWED"
            if not self.wact[s * w + k]:
                self.clean = False
            self.wact[s * w + k] = 0
            if k == 0:
                if not self.sact[s]:
                    self.clean = False
                self.sact[s] = 0
            return "SUCCESS"
        if cmd == "ew":
            if k == 0:
                if self.sact[s]:
                    self.clean = False
                self.sact[s] = 1
            if k < w:
                if self.wact[s * w + k]:
                    self.clean = False
                self.wact[s * w + k] = 1
            return "VOID"
        raise ValueError(cmd)

    def can_run_task(self, s):
        def has_worker(x):
            return any(self.wact[x * self.w:(x + 1) * self.w])
        return s < self.n and has_worker(s) and all(has_worker(x) for x in range(self.n) if self.sact[x])


# ------------------------------------------------------------------ generators
def _j(xs):
    return ",".join(map(str, xs)) if xs else "-"


def gen_switch(rng, n, w, live):
    k = rng.weighted([("ds", 3), ("es", 3), ("dw", 5), ("ew", 5)])
    if k == "ds":
        a = rng.choice([0, n, n + 1] + list(range(1, max(n, 2))) * 3) if not live else rng.choice([0, n] + list(range(1, max(n, 2))) * 3)
    elif k == "es":
        a = rng.below(n)                                   # s >= nshepherds writes out of bounds: outside the contract
    else:
        tot = n * w
        a = rng.choice([0, tot, tot + 1, tot + n, 65535] + [rng.below(tot) for _ in range(12)] + [rng.below(n) for _ in range(4)])
    return k, a


def gen_fab_case(rng):
    n = rng.choice([1, 2, 2, 3, 3, 4, 5, 6, 8])
    w = rng.choice([1, 1, 2, 3])
    pal = rng.choice(PALETTES)
    cmds = ["T %d %d" % (n, w)]
    rows = {}
    for s in range(n):
        if rng.chance(1, 12):
            rows[s] = None
            cmds.append("R %d -" % s)
        else:
            row = [rng.choice(pal) for _ in range(n)]
            if not rng.chance(1, 6):
                row[s] = 0
            rows[s] = row
            cmds.append("R %d %s" % (s, _j(row)))
        oth = rng.shuffle([i for i in range(n) if i != s])
        if rows[s] is not None and not rng.chance(1, 3):
            oth.sort(key=lambda i: rows[s][i])
        cmds.append("L %d %s" % (s, _j(oth)))
    sact, wact, nsa, nwa = [1] * n, [1] * (n * w), n, n * w
    if rng.chance(1, 3):
        sact = [1 if rng.chance(2, 3) else 0 for _ in range(n)]
        if not rng.chance(1, 8):
            sact[0] = 1
        cmds.append("A " + _j(sact))
        nsa = sum(sact)
    if rng.chance(1, 3):
        wact = [1 if rng.chance(2, 3) else 0 for _ in range(n * w)]
        cmds.append("W " + _j(wact))
        nwa = sum(wact)
    if rng.chance(1, 4):
        nsa, nwa = rng.choice([0, 1, nsa, n]), rng.choice([0, 1, nwa, n * w, 65536, 65537])
    cmds.append("C %d %d" % (nsa, nwa))
    m = Mirror(n, w, sact, wact, nsa, nwa)
    for _ in range(rng.range(12, 40)):
        kind = rng.weighted([("np", 4), ("dist", 3), ("srem", 1), ("who", 3), ("sw", 10), ("fas", 4)])
        if kind == "np":
            c = rng.choice([0, n - 1, n, max(n - 2, 0), 65535, 65534, rng.below(n), rng.below(70)])
            cmds.append("%s %d" % (rng.choice(["next", "prev", "nextl", "prevl"]), c))
        elif kind == "dist":
            cmds.append("dist %d %d" % (rng.below(n + 2), rng.below(n + 2)))
        elif kind == "srem":
            cmds.append("sremote %d" % rng.below(n + 2))
        elif kind == "who":
            cmds.append("%s %d" % (rng.choice(["ok", "self", "ssorted"]), rng.range(-1, n - 1)))
        elif kind == "sw":
            k, a = gen_switch(rng, n, w, False)
            m.apply(k, a)
            cmds.append("%s %d" % (k, a))
        else:
            me = rng.below(n)
            if rows[me] is None:
                continue
            cmds.append("fas %d | %s | %s" % (me, _j([rng.choice([0, 0, 1, 1, 2, 5]) for _ in range(n)]), _j([rng.below(2) for _ in range(n)])))
    return dict(kind="sheps", mode="fab", cmds=cmds)


def gen_sort_case(rng):
    n = rng.choice([1, 2, 3, 3, 4, 5, 6, 7, 8, 9, 12])
    pal = rng.choice(PALETTES)
    d = [rng.choice(pal) for _ in range(n)]
    i = rng.below(n)
    oth = [j for j in range(n) if j != i]
    if rng.chance(1, 3):
        oth = rng.shuffle(oth)
    rs = [rng.choice([rng.below(997), rng.below(4)]) for _ in range(n + rng.below(4))]
    return dict(kind="sheps", mode="fab", cmds=["sort %d | %s | %s | %s" % (n, _j(d), _j(oth), _j(rs))])


def gen_live_script(rng, n, w, nwa0):
    """n, w: the topology the runtime will come up with; nwa0: hw_par (initially active workers)"""
    wact = [1 if (i == 0 and j == 0) or (j * n + i + 1 <= nwa0) else 0 for i in range(n) for j in range(w)]
    m = Mirror(n, w, None, wact)
    cmds = []
    for _ in range(rng.range(15, 30)):
        kind = rng.weighted([("np", 2), ("dist", 2), ("srem", 1), ("who", 2), ("sw", 10), ("fas", 3), ("task", 4)])
        if kind == "np":
            cmds.append("%s %d" % (rng.choice(["next", "prev", "nextl", "prevl"]), rng.choice([0, n - 1, n, 65535, rng.below(n)])))
        elif kind == "dist":
            cmds.append("dist %d %d" % (rng.below(n + 1), rng.below(n + 1)))
        elif kind == "srem":
            cmds.append("sremote %d" % rng.below(n + 1))
        elif kind == "who":
            cmds.append(rng.choice(["ok 0", "ok -1", "self 0", "self -1", "ssorted 0"]))
        elif kind == "sw":
            k, a = gen_switch(rng, n, w, True)
            m.apply(k, a)
            cmds.append("%s %d" % (k, a))
        elif kind == "fas":
            cmds.append("fas %d | %s | %s" % (rng.below(n), _j([rng.choice([0, 0, 1, 2]) for _ in range(n)]), _j([rng.below(2) for _ in range(n)])))
        else:
            s = rng.below(n)
            if m.can_run_task(s):
                cmds.append("task %d" % s)
    return cmds


# ------------------------------------------------------------------ property oracle on the implementation's lines
def _kv(line):
    out = {}
    for tok in line.split():
        if "=" in tok:
            k, v = tok.split("=", 1)
            out[k] = v
    return out


def _ints(s):
    return [] if s in ("-", "", "NULL") else [int(x) for x in s.split(",")]


def oracle(cmds, impl, n0=None, w0=None, state0=None, lists0=None, rows0=None):
    """C07's own predicate (and the API contract it rests on) on what the real code printed; returns a list of reasons.
    Judged: the switches (flags follow the idempotent set/clear semantics, shepherd 0 / worker (0,0) never disabled,
    disabling worker 0 of a shepherd disables the shepherd, counters exact while no redundant call happened),
    next/prev results are shepherd ids, sort output is a sorted permutation, find_active_shepherd returns an active member
    of the list at the smallest active distance when the list is sorted, tasks run where C07 says.  Not judged:
    qthread_distance (not part of C07's statement)."""
    fails = []
    n, w, m = n0, w0, None
    rows, lists = dict(rows0 or {}), dict(lists0 or {})
    if state0 is not None:
        m = Mirror(n, w, state0["A"], state0["W"], state0["nsa"], state0["nwa"])
    pend = {}
    for c, o in zip(cmds, impl):
        p = c.split("|")
        h = p[0].split()
        if not h or o is None:
            continue
        if h[0] == "T":
            n, w = int(h[1]), int(h[2])
            m = Mirror(n, w)
            rows, lists, pend = {}, {}, {}
        elif h[0] == "A":
            pend["A"] = _ints(h[1]) if len(h) > 1 else []
            m = Mirror(n, w, pend.get("A"), pend.get("W"))
        elif h[0] == "W":
            pend["W"] = _ints(h[1]) if len(h) > 1 else []
            m = Mirror(n, w, pend.get("A"), pend.get("W"))
        elif h[0] == "C":
            m = Mirror(n, w, pend.get("A"), pend.get("W"), int(h[1]), int(h[2]))
        elif h[0] == "R":
            rows[int(h[1])] = None if h[2] == "-" else (_ints(h[2]) + [0] * n)[:n]
        elif h[0] == "L":
            lists[int(h[1])] = (_ints(h[2]) if len(h) > 2 else [])
        elif h[0] in ("next", "nextl"):
            r = int(o.split()[1])
            if not r < n:
                fails.append("qthread_shep_next(%s) = %d is not a shepherd id (nshepherds = %d)" % (h[1], r, n))
        elif h[0] in ("prev", "prevl"):
            r = int(o.split()[1])
            if int(h[1]) < n and not r < n:
                fails.append("qthread_shep_prev(%s) = %d is not a shepherd id (nshepherds = %d)" % (h[1], r, n))
        elif h[0] == "sort":
            d, l = _ints(p[1].strip()), _ints(p[2].strip())
            r = _ints(o.split()[1])
            if sorted(r) != sorted(l):
                fails.append("sort_sheps output %s is not a permutation of its input %s" % (r, l))
            elif any(d[r[i]] > d[r[i + 1]] for i in range(len(r) - 1)):
                fails.append("sort_sheps output %s is not sorted by distance %s" % (r, d))
        elif h[0] in ("ds", "es", "dw", "ew"):
            a = int(h[1])
            rc = m.apply(h[0], a)
            kv = _kv(o)
            A, W = _ints(kv.get("A", "")), _ints(kv.get("W", ""))
            got_rc = o.split()[1]
            if got_rc != rc:
                fails.append("%s returned %s, the API documents %s" % (c, got_rc, rc))
            if A and A[0] == 0 and m.sact[0]:
                fails.append("shepherd 0 is disabled after %s" % c)
            if W and W[0] == 0 and m.wact[0]:
                fails.append("worker 0 of shepherd 0 is disabled after %s" % c)
            if A != m.sact:
                fails.append("shepherd flags after %s are %s, expected %s" % (c, A, m.sact))
            elif W != m.wact:
                fails.append("worker flags after %s are %s, expected %s" % (c, W, m.wact))
            elif m.clean and (int(kv["nums"]) != sum(A) or int(kv["numw"]) != sum(W)):
                fails.append("after %s (no redundant call so far) qthread_num_shepherds()=%s qthread_num_workers()=%s but %d shepherds and %d workers are active" % (
                    c, kv["nums"], kv["numw"], sum(A), sum(W)))
        elif h[0] == "fas":
            me = int(h[1])
            l, row = lists.get(me), rows.get(me)
            if l is None or row is None or m is None:
                continue
            r = o.split()[1]
            act = [x for x in l if m.sact[x]]
            if r == "NULL":
                if act:
                    fails.append("qthread_find_active_shepherd returned NULL although %s are active (list %s)" % (act, l))
            else:
                r = int(r)
                if not m.sact[r] or r not in l:
                    fails.append("qthread_find_active_shepherd returned %d: not an active member of the list %s (flags %s)" % (r, l, m.sact))
                elif all(row[l[i]] <= row[l[i + 1]] for i in range(len(l) - 1)) and row[r] != min(row[x] for x in act):
                    fails.append("qthread_find_active_shepherd returned %d at distance %d, the nearest active shepherd is at %d" % (r, row[r], min(row[x] for x in act)))
        elif h[0] == "task":
            kv = _kv(o)
            s = int(h[1])
            if not kv:
                fails.append("task forked to shepherd %d never reported (%s)" % (s, o))
                continue
            ran = int(kv["ran"])
            if m.sact[s] and ran != s:
                fails.append("a task forked to the enabled shepherd %d ran on shepherd %d" % (s, ran))
            if not (0 <= ran < n) or not m.sact[ran]:
                fails.append("a task forked to shepherd %d ran on shepherd %d, which is disabled (flags %s)" % (s, ran, m.sact))
            if kv["ok"] != "1" or kv["ownlist"] != "1" or kv["wshep"] != kv["ran"] or kv["act"] != "1":
                fails.append("task on shepherd %d: qthread_shep_ok()=%s sorted_sheps-is-own-list=%s qthread_worker's shepherd=%s active=%s" % (
                    ran, kv["ok"], kv["ownlist"], kv["wshep"], kv["act"]))
    return fails


def oracle_lists(n, rows, lists):
    fails = []
    for s in range(n):
        l, row = lists.get(s), rows.get(s)
        if l is None or row is None:
            fails.append("shepherd %d has no sorted_sheplist / shep_dists" % s)
            continue
        if sorted(l) != [i for i in range(n) if i != s]:
            fails.append("sorted_sheplist of shepherd %d is %s: not a permutation of the other shepherds" % (s, l))
        elif any(row[l[i]] > row[l[i + 1]] for i in range(len(l) - 1)):
            fails.append("sorted_sheplist of shepherd %d is %s: not sorted by its distances %s" % (s, l, row))
    return fails


# ------------------------------------------------------------------ running
def run_fab(exe, drv, cases):
    """all fab cases in one process each side; returns (mismatches, oracle failures, stats)"""
    lines, owner = [], []
    for ci, c in enumerate(cases):
        for l in c["cmds"]:
            lines.append(l)
            owner.append(ci)
    rc, out, err = core.run_lines(exe, lines, timeout=300, args=["fab"])
    if not out or not out[0].startswith("K "):
        raise core.BuildError("c07_sheps fab produced no header: rc=%s %s" % (rc, err[-500:]))
    rc2, mout, merr = core.run_lines(drv, [out[0]] + lines, timeout=300)
    if len(mout) != len(lines) + 1:
        raise core.BuildError("c07sheps_driver failed: rc=%s, %d lines for %d commands %s" % (rc2, len(mout), len(lines) + 1, merr[-500:]))
    impl, model = out[1:], mout[1:]
    mism, orc = [], []
    per_case_impl = {}
    for i, l in enumerate(lines):
        o = impl[i] if i < len(impl) else None
        per_case_impl.setdefault(owner[i], []).append(o)
    if len(impl) < len(lines):
        ci = owner[len(impl)]
        why = "the real code crashed or hung on `%s` (rc=%s)" % (lines[len(impl)], rc)
        mism.append((why, dict(cases[ci], impl=per_case_impl[ci])))
        orc.append((why, dict(cases[ci], impl=per_case_impl[ci])))
    seen = set()
    for i in range(min(len(impl), len(lines))):
        if impl[i] != model[i] and owner[i] not in seen:
            seen.add(owner[i])
            mism.append(("`%s`: implementation `%s`, model `%s`" % (lines[i], impl[i], model[i]), dict(cases[owner[i]], impl=per_case_impl[owner[i]])))
    for ci, c in enumerate(cases):
        f = oracle(c["cmds"], per_case_impl.get(ci, []))
        if f:
            orc.append((f[0], dict(c, impl=per_case_impl.get(ci, []))))
    return mism, orc, dict(commands=len(lines))


def run_live(exe, drv, case):
    """case: dict(kind='sheps', mode='live', env={..}, hseed=int, cmds=[..]) — cmds may be None: generated after the
    topology is known is not possible, so the caller gives (n, w, nwa0)-consistent scripts"""
    env = core.qenv(stack=65536)
    env.update({k: str(v) for k, v in case["env"].items()})
    rc, out, err = core.run_lines(exe, case["cmds"], timeout=300, env=env, args=["live", str(case["hseed"])])
    mism, orc = [], []
    rep = dict(case, impl=out[:200])
    if len(out) < 3 or not out[0].startswith("K ") or not out[1].startswith("live "):
        why = "the runtime did not come up in the live harness: rc=%s %s %s" % (rc, out[:3], err[-300:])
        return [(why, rep)], [(why, rep)], {}
    _, n, w, nwa0, nsa0 = out[1].split()
    n, w, nwa0, nsa0 = int(n), int(w), int(nwa0), int(nsa0)
    hdr_len = 3 + 2 * n + 1
    hdr, impl = out[:hdr_len], out[hdr_len:]
    rands = hdr[2].split(None, 1)[1] if len(hdr[2].split()) > 1 else "-"
    D = [0 if i == j else 10 for i in range(n) for j in range(n)]
    mlines = [hdr[0], "G %d | %s | %s" % (n, _j(D), rands), "I %d %d %d" % (n, w, nwa0)] + case["cmds"]
    rc2, mout, merr = core.run_lines(drv, mlines, timeout=300)
    mhdr_len = 1 + 2 * n + 1 + 1
    if len(mout) != mhdr_len + len(case["cmds"]):
        raise core.BuildError("c07sheps_driver failed (live): rc=%s %d lines %s" % (rc2, len(mout), merr[-500:]))
    mrows, mused, mstate, model = mout[1:1 + 2 * n], mout[1 + 2 * n], mout[2 + 2 * n], mout[mhdr_len:]
    nr = 0 if rands.strip() == "-" else len(rands.split(","))
    if hdr[3:3 + 2 * n] != mrows:
        k = next(i for i in range(2 * n) if hdr[3 + i] != mrows[i])
        mism.append(("the runtime's table `%s`, Kernel.Sheps.gendists `%s` (nshepherds=%d, rand() log %s)" % (hdr[3 + k], mrows[k], n, rands), rep))
    elif mused != "used %d" % nr:
        mism.append(("the runtime called rand() %d times while building the lists, the model %s" % (nr, mused), rep))
    if hdr[3 + 2 * n] != mstate:
        mism.append(("initial flags/counters: runtime `%s`, Kernel.Sheps.init_tbl `%s`" % (hdr[3 + 2 * n], mstate), rep))
    if nsa0 != n:
        mism.append(("nshepherds_active is %d after initialisation of %d shepherds" % (nsa0, n), rep))
    rows = {int(l.split()[1]): (None if l.split()[2] == "-" else _ints(l.split()[2])) for l in hdr[3:3 + n]}
    lists = {int(l.split()[1]): (None if l.split()[2] == "NULL" else _ints(l.split()[2])) for l in hdr[3 + n:3 + 2 * n]}
    for f in oracle_lists(n, rows, lists):
        orc.append((f, rep))
    if len(impl) < len(case["cmds"]):
        why = "the runtime crashed or hung on `%s` (rc=%s)" % (case["cmds"][len(impl)], rc)
        mism.append((why, rep))
        orc.append((why, rep))
    for i in range(min(len(impl), len(case["cmds"]))):
        if case["cmds"][i].startswith("task"):
            continue
        if impl[i] != model[i]:
            mism.append(("`%s` (live %dx%d): implementation `%s`, model `%s`" % (case["cmds"][i], n, w, impl[i], model[i]), rep))
            break
    kv = _kv(hdr[3 + 2 * n])
    st0 = dict(A=_ints(kv["A"]), W=_ints(kv["W"]), nsa=int(kv["nsa"]), nwa=int(kv["nwa"]))
    for f in oracle(case["cmds"], impl + [None] * (len(case["cmds"]) - len(impl)), n, w, st0, lists, rows)[:2]:
        orc.append((f, rep))
    return mism, orc, dict(n=n, w=w, nwa0=nwa0, rands=nr, tasks=sum(1 for c in case["cmds"] if c.startswith("task")),
                           tie_groups_shuffled=nr > 0)


def live_configs(quick):
    # (env, expected n, w, hw_par)
    cfg = []
    for n in range(1, 9):
        for w in ([1, 2] if quick else [1, 2, 3]):
            cfg.append((dict(QT_NUM_SHEPHERDS=n, QT_NUM_WORKERS_PER_SHEPHERD=w), n, w, n * w))
    # QT_HWPAR not a multiple of the shepherd count: the last row of workers starts partly disabled
    for (n, h) in [(3, 4), (2, 3), (4, 6), (5, 7)] if quick else [(3, 4), (2, 3), (4, 6), (5, 7), (3, 8), (6, 9), (7, 8), (8, 13)]:
        cfg.append((dict(QT_NUM_SHEPHERDS=n, QT_HWPAR=h), n, -(-h // n), h))
    return cfg


def corpus():
    d = os.path.join(core.VERIF, "corpus", "C07")
    out = []
    if os.path.isdir(d):
        for fn in sorted(os.listdir(d)):
            if fn.startswith("sheps_") and fn.endswith(".json"):
                out.append(json.load(open(os.path.join(d, fn))))
    return out


def build(ctx):
    ok, log = ctx.coq_make(["theories/Kernel/ExtractSheps.vo"])
    if not ok:
        raise core.BuildError("Kernel/ExtractSheps.v does not compile:\n" + log[-2000:])
    exe = ctx.link("c07_sheps", ["c07_sheps.c"], exclude=["shepherds.c", "workers.c"])
    drv = ctx.model_driver("c07sheps_driver")
    return exe, drv


def run_sheps(ctx, quick):
    """returns (properties result, correspondence mismatches, oracle failures) for c04.verdict; fills ctx.cov['sheps']"""
    pr = ctx.coq_properties(PROPS)
    exe, drv = build(ctx)
    rng = ctx.rng.fork()
    cases = [c for c in corpus() if c.get("mode") == "fab"]
    ncorp = len(cases)
    cases += [gen_fab_case(rng) for _ in range(120 if quick else 1500)]
    cases += [gen_sort_case(rng) for _ in range(300 if quick else 4000)]
    mism, orc, st = run_fab(exe, drv, cases)
    hist = {}
    for c in cases:
        for l in c["cmds"]:
            k = l.split()[0]
            hist[k] = hist.get(k, 0) + 1
    live_stats = []
    reps = 1 if quick else 4
    hung = False
    for (env, n, w, h) in live_configs(quick):
        for _ in range(reps):
            if hung:
                break                 # one watchdog expiry is enough: the run is a violation already
            case = dict(kind="sheps", mode="live", env=env, hseed=rng.below(1 << 30), cmds=gen_live_script(rng, n, w, h))
            m2, o2, s2 = run_live(exe, drv, case)
            if s2 and (s2["n"], s2["w"], s2["nwa0"]) != (n, w, h):
                m2.append(("the runtime came up as %dx%d with %d active workers, the generator expected %dx%d/%d (env %s)" % (
                    s2["n"], s2["w"], s2["nwa0"], n, w, h, env), dict(case)))
            mism += m2
            orc += o2
            live_stats.append(s2)
            hung = hung or any("crashed or hung" in w_ or "did not come up" in w_ for (w_, _) in m2)
            for l in case["cmds"]:
                k = l.split()[0]
                hist["live:" + k] = hist.get("live:" + k, 0) + 1
    ctx.cov["sheps"] = dict(
        fab_cases=len(cases), corpus_cases=ncorp, fab_commands=st["commands"], live_runs=len(live_stats),
        live_configs=sorted(set("%dx%d/%d" % (s["n"], s["w"], s["nwa0"]) for s in live_stats if s)),
        live_rand_calls=sum(s.get("rands", 0) for s in live_stats), live_tasks=sum(s.get("tasks", 0) for s in live_stats),
        command_histogram=hist, mismatches=len(mism), oracle_failures=len(orc),
        rule="fabricated tables (arbitrary flags, counters, tie-heavy distance rows incl. NULL rows, sorted and unsorted lists), "
             "sort_sheps on tie-heavy distance vectors with scripted rand(), live tables of 1..8 shepherds x 1..3 workers and "
             "QT_HWPAR remainders with rand() interposed; enable/disable sequences incl. redundant, rejected and out-of-range calls")
    ctx.assumptions += ["sheps extension: qthread_enable_shepherd(s >= nshepherds) is outside the API contract (the range test is an assert, compiled out; the code would write out of bounds): never issued",
                        "sheps extension: distances of the live runtime are 10 for every pair in this build (QTHREAD_HAVE_HWLOC_DISTS undefined); non-uniform distances are exercised on sort_sheps and on fabricated tables"]
    ctx.notes += [
        "sheps extension, outside C07's statement: qthread_distance(src, dest) reads slot dest-1 above the source although shep_dists is indexed by shepherd id "
        "(qthread_distance(s, s+1) is always 0; theorem C07_distance_constructed_above_refuted; docs/proposed_fixes/C07-distance-index.diff)",
        "sheps extension: nshepherds_active / nworkers_active move on every accepted call, the flags only when they change: a redundant disable/enable makes "
        "qthread_num_shepherds()/qthread_num_workers() drift for good (C07_counters_drift, C07_nworkers_active_refuted); the flags, which are all that placement reads, "
        "do not depend on the counters (C07_switch_flags_independent_of_counters)",
        "sheps extension: qthread_disable_worker decodes its argument as shep = w % nshepherds, worker = w / nshepherds (the hw_par order of qthread.c:1148), which is NOT "
        "the packed id qthread_worker() returns (shep * nworkerspershep + worker) whenever both counts exceed 1",
        "sheps extension, candidate: after qthread_disable_worker(worker 0 of s) the shepherd s is disabled but its queue is only served by its other workers; with one worker "
        "per shepherd (or all of them disabled) a task spawned to s afterwards is stranded until re-enable instead of being re-routed (qthread_disable_shepherd(s) alone re-routes); "
        "`task` commands are only generated when the target shepherd and every enabled shepherd has an enabled worker"]
    corr = [("shepherds.c/workers.c/sort_sheps differ from Kernel.Sheps: " + w, r) for (w, r) in mism]
    return pr, corr, orc


def replay_case(ctx, cand):
    exe, drv = build(ctx)
    if cand.get("mode") == "live":
        m, o, s = run_live(exe, drv, cand)
    else:
        m, o, s = run_fab(exe, drv, [dict(kind="sheps", mode="fab", cmds=cand["cmds"])])
    for (w, _) in m[:5]:
        print("# correspondence:", w)
    for (w, _) in o[:5]:
        print("# oracle:", w)
    return [("shepherds.c/workers.c/sort_sheps differ from Kernel.Sheps: " + w, r) for (w, r) in m], o
