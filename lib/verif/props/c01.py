"""C01 FEB words behave as atomic full/empty cells.  Model: coq/theories/Feb/Model.v, spec coq/theories/Cell/Spec.v (mode M2)."""
from . import _feb_common as fc
from . import _hashmap
from . import _feb_free as fr          # extension D: free-running tier (M4)
from . import _feb_micro3 as m3       # extension K: micro-step tier with a pre-blocked third task (M3)

LEVEL = "proof"


def nontrivial(pio):
    """a script is non-trivial when some call blocked, some waiter was released and a non-blocking call failed or an external caller acted"""
    rs = [r for r in pio if r.get("kind") == "r" and "released" in r]
    return any(r["rc"] == "BLK" for r in rs) and any(r["released"] for r in rs)


def run(ctx):
    quick = ctx.tier == "quick"
    fc.run_property(ctx, "C01", profiles=["mix", "mix", "waiters"], corpus_props=["C01"],
                    nscripts=400 if quick else 2500,
                    configs=[(1, 1), (2, 1), (2, 2, 12)] if quick else [(1, 1), (2, 1), (1, 2), (3, 1), (2, 2, 40)],
                    trivial_rule=nontrivial, many=(1, 3000) if quick else (3, 3400))
    fc.run_micro(ctx, quick)
    ctx.cov["rule"] = ("scripts of 8-45 FEB calls by 2-8 tasks and 0-2 non-qthread pthreads on 1-3 words, generated against the model's "
                       "current state (would-block / state-flipping / neutral operations, every dest/src aliasing mode, _const and _nb "
                       "spellings, lock/unlock); plus 'many words' scripts on 1x1 (3000-3800 consecutive words emptied at the same time, each probed, "
                       "a third refilled and emptied again, all filled and probed: the 4 record tables of src/hashmap.c grow past 332, 665 "
                       "records and shrink again; only the touched word and two sample words are audited per step); "
                       "non-trivial = at least one call blocked and at least one waiter was released")
    ctx.assumptions += ["op-atomic granularity: each API call is one step (the record lock makes it so; lock discipline itself is "
                        "exercised on 2x1, 2x2, 1x2, 3x1 configurations but not proved)",
                        "micro-step layer (Feb/Micro.v): two tasks on one word; replayed on the real code with a targeted baton (the first "
                        "call is held after its k-th qt_hash_unlock, 3 shepherds x 1 worker); plain word accesses are not interposed"]
    _hashmap.run_tier(ctx, quick)      # qt_hash (src/hashmap.c): theorems + M1 tie, see _hashmap.py
    # extension D (M4): free-running programs, logged histories judged by the acceptor extracted from Feb/History.v
    ctx.coq_properties("Properties/Properties_C02_hist.v")
    fr.run_free(ctx, quick, prop_words="C01")
    m3.run_micro3(ctx, quick)          # extension K (theorems Properties/Properties_C01_micro3.v + two-hold baton on feb.c)
    from . import _link; _link.run_link(ctx, quick, "feb")    # extension R: Feb/Model runs are accepted histories (Properties_C01_link.v + executed cross-check)


def replay(ctx, path):
    import json
    j = json.load(open(path))
    if str(j.get("signature", "")).startswith("hashmap") and j.get("replay", {}).get("script"):
        return _hashmap.replay_script(ctx, j["replay"]["script"])
    if m3.is_micro3_replay(path):      # extension K
        return m3.replay_file(ctx, path)
    if fr.is_free_replay(path):
        return fr.replay_file(ctx, path)
    fc.replay_file(ctx, path)
