"""C05 return-value handshake: empty at spawn, filled once at completion; team founders after all members.
Model: coq/theories/Kernel/Ret.v; harness: harness/c/c05_ret.c.  M2 handshake scripts (status probes while the body is
held at a gate) for every return kind / spawn variant, M4 team trees with scripted completion orders."""
import json
from .. import core
from . import _gen

M60 = 1 << 60
M64 = 1 << 64
VALUES = [0, 1, 42, M60 - 1, M60, M60 + 5, (1 << 63) - 1, 1 << 63, M64 - 1, M64 - 2, M64 - M60 - 3, M64 - M60, 3 * M60 + 7]


def gen_v(rng, nsheps):
    kind = rng.weighted([("a", 5), ("s", 5), ("n", 1), ("v", 1)])
    variant = rng.below(5)
    if kind == "s" and rng.chance(1, 4):
        variant = 5            # qthread_fork_copyargs_to(..., syncvar_t *ret, shep)
    shep = rng.below(nsheps)
    prefull = rng.below(2)
    value = rng.choice(VALUES) if rng.chance(3, 4) else rng.range(0, M64 - 1)
    return dict(t="V", kind=kind, variant=variant, shep=shep, prefull=prefull, value=value)


def gen_tree(rng, quick):
    maxn = 14 if quick else 24
    nodes = [dict(id=0, parent=-1, kind=rng.choice("tu"), depth=0)]
    frontier = [0]
    while frontier and len(nodes) < maxn:
        p = frontier.pop(0)
        if nodes[p]["depth"] >= 3:
            continue
        for _ in range(rng.range(0 if p else 1, 4)):
            if len(nodes) >= maxn:
                break
            n = dict(id=len(nodes), parent=p, kind=rng.choice("mmspp"), depth=nodes[p]["depth"] + 1)
            nodes.append(n)
            if n["kind"] != "p":                 # members spawned with a precondition are leaves
                frontier.append(n["id"])
    # late members (kind M): a member with children that spawns them only when its own gate opens - so a subteam can be
    # founded by a live member after the leader's function has returned and every earlier subteam has finished
    has_kids = {n["parent"] for n in nodes}
    for n in nodes:
        if n["kind"] == "m" and n["id"] in has_kids and rng.chance(1, 2):
            n["kind"] = "M"
    order = rng.shuffle([n["id"] for n in nodes])
    c = rng.below(4)
    if c == 0:      # founders first
        order = sorted(order, key=lambda i: (nodes[i]["kind"] in "mpM", rng.below(100)))
    elif c == 1:    # leaves first (deepest first)
        order = sorted(order, key=lambda i: (-nodes[i]["depth"], rng.below(100)))
    def late_anc(i):
        p = nodes[i]["parent"]
        while p >= 0:
            if nodes[p]["kind"] == "M":
                return p
            p = nodes[p]["parent"]
        return -1
    # a node exists only after its nearest late ancestor's gate opened: its own gate opens later than that
    moved = True
    while moved:
        moved = False
        for i in list(order):
            a = late_anc(i)
            if a >= 0 and order.index(i) < order.index(a):
                order.remove(i)
                order.insert(order.index(a) + 1, i)
                moved = True
    pm = [n["id"] for n in nodes if n["kind"] == "p"]
    if pm and rng.chance(1, 2):
        # precondition members outlive everybody else (their founder's function has long returned)
        order = [i for i in order if i not in pm] + rng.shuffle(pm)
    # token -id = the controller satisfies the precondition of member id: anywhere before the member's gate opens
    for i in pm:
        k = order.index(i)
        a = late_anc(i)
        lo = order.index(a) + 1 if a >= 0 else 0          # the precondition word is emptied by the spawn: satisfy it afterwards
        order.insert(rng.choice([k, k, rng.range(lo, k)]), -i)
    return dict(t="T", nodes=[dict(id=n["id"], parent=n["parent"], kind=n["kind"]) for n in nodes], order=order)


def case_lines(c):
    if c["t"] == "V":
        return ["V %s %d %d %d %d" % (c["kind"], c["variant"], c["shep"], c["prefull"], c["value"])]
    return ["N %d %d %s" % (n["id"], n["parent"], n["kind"]) for n in c["nodes"]] + ["O " + " ".join(map(str, c["order"]))]


def split_out(cases, lines):
    """one list of output lines per case (V: 1 line; T: up to and including E)"""
    res, pos = [], 0
    for c in cases:
        if pos >= len(lines):
            res.append(None)
            continue
        if c["t"] == "V":
            res.append([lines[pos]]); pos += 1
        else:
            cur = []
            while pos < len(lines) and lines[pos] != "E" and not lines[pos].startswith("TIMEOUT"):
                cur.append(lines[pos]); pos += 1
            if pos < len(lines) and lines[pos] == "E":
                pos += 1
                res.append(cur)
            else:
                res.append(cur + ["TIMEOUT"]); pos = len(lines)
    return res


def spec_value(kind, v):
    return {"a": v, "s": v % M60, "n": v, "v": 0}[kind]


def compare(c, il, ml):
    if il is None:
        return "no output"
    if c["t"] == "V":
        return None if il == ml else "impl `%s` model `%s`" % (il[0] if il else "", ml[0])
    if len(il) != len(ml):
        return "line count impl=%d model=%d (%s)" % (len(il), len(ml), il[-1] if il else "")
    for a, b in zip(il, ml):
        if a.startswith("J"):
            if a != b:
                return "impl `%s` model `%s`" % (a, b)
            continue
        pa, pb = a.split(), b.split()
        if pa[:2] != pb[:2] or len(pa) != len(pb):
            return "impl `%s` model `%s`" % (a, b)
        for x, y in zip(pa[2:], pb[2:]):
            i1, b1 = x.split(":"); i2, b2 = y.split(":")
            if i1 != i2 or int(b1) > int(b2):          # full where the model says it must still be empty
                return "before opening gate %s: location of node %s is full, model: must be empty" % (pa[1], i1)
    return None


def oracle(c, il):
    """the property on the implementation's own observations; returns (signature or None, reason) or None"""
    if not il or any(l.startswith("TIMEOUT") or l.startswith("CRASH") for l in il):
        return (None, "run did not complete: %s" % (il[-1] if il else "no output"))
    if c["t"] == "V":
        p = il[0].split()
        if len(p) < 12:
            return (None, "run did not complete: " + il[0])
        rc, s0, s1, p1, p2, p3, vff, s5, vfe, s6, s7 = p[1:12]
        want = spec_value(c["kind"], c["value"])
        if rc != "0":
            return (None, "spawn failed rc=%s" % rc)
        if c["kind"] in "as":
            if s1 != "0":
                return (None, "location not empty when the spawn returned")
            if (p1, p2, p3) != ("0", "0", "0"):
                return (None, "location full while the body was still running (probes %s %s %s)" % (p1, p2, p3))
            if s5 != "1" or s6 != "0" or s7 != "0":
                return (None, "fill count wrong: status after readFF/readFE/later = %s/%s/%s (expected 1/0/0)" % (s5, s6, s7))
        if int(vff) != want or int(vfe) != want:
            return (None, "value delivered %s, function returned %d (expected %d)" % (vff, c["value"], want))
        return None
    kids = {}
    for n in c["nodes"]:
        kids.setdefault(n["parent"], []).append(n["id"])

    def desc(i):
        out = [i]
        for k in kids.get(i, []):
            out += desc(k)
        return out
    kind = {n["id"]: n["kind"] for n in c["nodes"]}
    par = {n["id"]: n["parent"] for n in c["nodes"]}

    def spawned(i, opened):
        p = par[i]
        while p >= 0:
            if kind[p] == "M":
                return p in opened and spawned(p, opened)
            p = par[p]
        return True
    opened = set()
    for l in il:
        p = l.split()
        if p[0] == "P":
            for x in p[2:]:
                i, b = x.split(":")
                i = int(i)
                if b == "1" and spawned(i, opened):      # the location of a node that does not exist yet is an untouched word
                    need = desc(i) if kind[i] not in "mpM" else [i]
                    miss = [j for j in need if j not in opened]
                    if miss:
                        return (None, "location of %s %d full before %s finished" % ("founder" if kind[i] not in "mpM" else "member", i, miss))
            if int(p[1]) >= 0:
                opened.add(int(p[1]))
        elif p[0] == "J":
            for x in p[1:]:
                i, v = x.split(":")
                if v != str(100 + int(i)):
                    return (None, "node %s delivered %s" % (i, v))
    return None


def run_config(ctx, exe, drv, sheps, workers, cases):
    script = []
    for c in cases:
        script += case_lines(c)
    rc, out, err = core.run_lines(exe, script + ["Q"], timeout=1500, env=core.qenv(sheps, workers, stack=65536))
    if not out or not out[0].startswith("H "):
        raise core.BuildError("c05 harness did not start on %dx%d: rc=%s %s" % (sheps, workers, rc, err[-500:]))
    impl = split_out(cases, out[1:])
    if rc != 0 or any(x is None for x in impl):
        # the process died / hung inside some case: mark it, then run every later case in a process of its own
        k = next((i for i, x in enumerate(impl) if x is None or "TIMEOUT" in x), len(cases))
        if k < len(cases):
            tag = "TIMEOUT" if rc in (-9, 3) else "CRASH rc=%s" % rc
            impl[k] = (impl[k] or []) + ([tag] if tag not in (impl[k] or []) else [])
            env = core.qenv(sheps, workers, stack=65536)
            for j in range(k + 1, len(cases)):
                if j > k + 4:
                    impl[j] = None      # not run (bounded re-runs after a failure)
                    continue
                rcj, oj, ej = core.run_lines(exe, case_lines(cases[j]) + ["Q"], timeout=200, env=env)
                rj = split_out([cases[j]], oj[1:])
                impl[j] = rj[0] if rj[0] is not None else []
                if rcj != 0:
                    impl[j] = impl[j] + ["TIMEOUT" if rcj in (-9, 3) else "CRASH rc=%s" % rcj]
    rc2, mout, merr = core.run_lines(drv, script, timeout=600)
    model = split_out(cases, mout)
    if any(m is None for m in model):
        raise core.BuildError("c05 model driver failed: rc=%s %s" % (rc2, merr[-500:]))
    return impl, model


CORPUS = [dict(t="V", kind="a", variant=0, shep=0, prefull=1, value=M64 - 1),
          dict(t="V", kind="s", variant=0, shep=0, prefull=1, value=M60 + 5),
          dict(t="V", kind="s", variant=3, shep=0, prefull=0, value=M64 - M60 - 3),
          dict(t="V", kind="a", variant=4, shep=0, prefull=1, value=7),
          dict(t="V", kind="n", variant=0, shep=0, prefull=0, value=1234),      # witness of the defect fixed by /repo 53168f8
          dict(t="V", kind="s", variant=5, shep=0, prefull=1, value=42),        # witness of the defect fixed by /repo f9ee21a
          dict(t="V", kind="s", variant=5, shep=0, prefull=0, value=M64 - 1),
          dict(t="V", kind="v", variant=0, shep=0, prefull=0, value=5),
          dict(t="T", nodes=[dict(id=0, parent=-1, kind="t"), dict(id=1, parent=0, kind="m"), dict(id=2, parent=0, kind="s"),
                             dict(id=3, parent=2, kind="m"), dict(id=4, parent=2, kind="s"), dict(id=5, parent=4, kind="m")],
               order=[0, 2, 4, 1, 3, 5]),
          # a member spawned with an unmet precondition is a member from the spawn on: the founder's location stays empty
          # while it has not finished (not even started) although the founder's function returned long ago
          # a subteam founded by a live member AFTER the leader's function returned and no subteam existed: the founder's
          # location stays empty until that late subteam (and its member) finished
          dict(t="T", nodes=[dict(id=0, parent=-1, kind="t"), dict(id=1, parent=0, kind="M"), dict(id=2, parent=1, kind="s"),
                             dict(id=3, parent=2, kind="m")], order=[0, 1, 3, 2]),
          dict(t="T", nodes=[dict(id=0, parent=-1, kind="u"), dict(id=1, parent=0, kind="s"), dict(id=2, parent=0, kind="M"),
                             dict(id=3, parent=2, kind="s"), dict(id=4, parent=2, kind="m"), dict(id=5, parent=3, kind="M"),
                             dict(id=6, parent=5, kind="s")], order=[1, 0, 2, 4, 5, 6, 3]),
          dict(t="T", nodes=[dict(id=0, parent=-1, kind="t"), dict(id=1, parent=0, kind="p"), dict(id=2, parent=0, kind="m")],
               order=[0, 2, -1, 1]),
          dict(t="T", nodes=[dict(id=0, parent=-1, kind="u"), dict(id=1, parent=0, kind="s"), dict(id=2, parent=1, kind="p"),
                             dict(id=3, parent=1, kind="p")],
               order=[1, 0, -3, 3, -2, 2])]


def run(ctx):
    rng = ctx.rng
    quick = ctx.tier == "quick"
    _gen.regen(ctx, ["Int60"])      # Gen/*.v regenerated from the source + Properties_Gen_*.v (tools/ctrans.py)
    pr = ctx.coq_properties("Properties/Properties_C05.v")
    ok, log = ctx.coq_make(["theories/Kernel/RetExtract.vo"])
    if not ok:
        raise core.BuildError("Kernel/RetExtract.v does not compile:\n" + log[-2000:])
    exe = ctx.link("c05_ret", ["c05_ret.c"])
    drv = ctx.model_driver("c05_driver")
    configs = [(1, 1), (2, 2), (4, 1)] if quick else [(1, 1), (2, 2), (4, 1), (1, 4), (4, 4), (3, 2)]
    nv, nt = (60, 14) if quick else (400, 80)
    evals, mismatches, oracle_fail, samples = 0, [], [], []
    nontrivial = set()
    hist = {}
    for (sheps, workers) in configs:
        r2 = rng.fork()
        cases = list(CORPUS) + [gen_v(r2, sheps) for _ in range(nv)] + [gen_tree(r2, quick) for _ in range(nt)]
        impl, model = run_config(ctx, exe, drv, sheps, workers, cases)
        for c, il, ml in zip(cases, impl, model):
            if il is None:
                continue
            cd = dict(config=[sheps, workers], case=c)
            evals += 1 if c["t"] == "V" else len(c["order"])
            key = "V:%s:var%d:pre%d" % (c["kind"], c["variant"], c["prefull"]) if c["t"] == "V" else "tree:%d" % len(c["nodes"])
            hist[key] = hist.get(key, 0) + 1
            d = compare(c, il, ml)
            if d:
                mismatches.append((d, dict(cd, impl=il, model=ml)))
            o = oracle(c, il)
            if o:
                oracle_fail.append((o[0], o[1], dict(cd, impl=il)))
            if (c["t"] == "V" and (c["prefull"] or c["value"] >= M60)) or (c["t"] == "T" and any(n["kind"] in "sp" for n in c["nodes"])):
                nontrivial.add(json.dumps(c, sort_keys=True))
            if len(samples) < 3 and c["t"] == "T" and len(c["nodes"]) > 6:
                samples.append(dict(cd, impl=(il or [])[:4]))
    ctx.cov.update(evaluations=evals, distinct_nontrivial=len(nontrivial), samples=samples,
                   rule="evaluations = handshake scripts + team-tree steps run on the real runtime and compared with the model; non-trivial = "
                        "handshakes whose location was full before the spawn or whose value needs the 60-bit reduction, trees with a subteam",
                   traces_validated_against_impl=evals, input_distribution=hist, configs=configs, correspondence_mismatches=len(mismatches),
                   refuted_on_current_tree=[])
    ctx.assumptions += ["no task other than the runtime fills the return location (hypothesis of ret_empty_until_done; its necessity is an Example)",
                        "FEB / syncvar / sinc primitives behave as the small cell and counter specs of Kernel/Ret.v (C01/C03/C10)",
                        "status probes are snapshots: emptiness between probes is the theorem's part"]
    verdict(ctx, pr, mismatches, oracle_fail)
    from . import _c05_team          # extension T: micro-step machine of the finish protocol as acceptor of the real event order
    _c05_team.run_team(ctx, quick)


def verdict(ctx, pr, mismatches, oracle_fail):
    broken = bool(mismatches) or not pr["ok"]
    known = {}
    unknown = []
    for (sig, why, c) in oracle_fail:
        if sig is not None:
            known.setdefault(sig, (why, c))
        else:
            unknown.append((why, c))
    if not broken:
        for sig, (why, c) in known.items():
            ctx.violation(sig, why, c)         # KNOWN-FINDING when listed as open, VIOLATION otherwise
        for (why, c) in unknown[:3]:
            ctx.violation("unlisted:" + " ".join(why.split()[:3]), why, c)
        return
    what = ("correspondence Kernel/Ret model vs runtime broken (%d cases): %s" % (len(mismatches), mismatches[0][0][:300])) if mismatches \
        else "theorems in %s no longer check" % pr["file"]
    fails = unknown or [(w, c) for (s, (w, c)) in known.items() if core.match_known("C05", s) is None]
    if fails:
        w, c = fails[0]
        ctx.violation("broken+input", what + "; failing input: " + w,
                      {"failing_input": c, "reason": w, "first_mismatch": mismatches[0] if mismatches else None, "coq_log": pr["log"][-1500:]})
    else:
        ctx.violation("broken", what, {"theorem_or_correspondence": "impl != Kernel.Ret" if mismatches else pr["file"],
                                       "first_mismatch": mismatches[0] if mismatches else None, "coq_log": pr["log"][-1500:]}, no_input=True)


def replay(ctx, path):
    j = json.load(open(path))
    r = j["replay"]
    fi = r.get("failing_input") or (r.get("first_mismatch") or [None, None])[1] or r
    if not fi or "case" not in fi:
        print(json.dumps(j, indent=1)[:4000])
        return run(ctx)
    pr = ctx.coq_properties("Properties/Properties_C05.v")
    ctx.coq_make(["theories/Kernel/RetExtract.vo"])
    exe = ctx.link("c05_ret", ["c05_ret.c"])
    drv = ctx.model_driver("c05_driver")
    sheps, workers = fi["config"]
    impl, model = run_config(ctx, exe, drv, sheps, workers, [fi["case"]])
    print("# script:\n" + "\n".join(case_lines(fi["case"])))
    print("# implementation:\n" + "\n".join(impl[0] or []))
    print("# model:\n" + "\n".join(model[0]))
    d = compare(fi["case"], impl[0], model[0])
    o = oracle(fi["case"], impl[0])
    print("# compare: %s\n# oracle: %s" % (d, o))
    verdict(ctx, pr, [(d, dict(config=fi["config"], case=fi["case"]))] if d else [], [(o[0], o[1], dict(config=fi["config"], case=fi["case"]))] if o else [])
