"""C02 FEB waiters are always woken.  Same model/harness as C01; scripts biased to many waiters of each kind on one word."""
from . import _feb_common as fc
from . import _feb_free as fr          # extension D: free-running tier (M4)
from . import _feb_micro3 as m3       # extension K: micro-step tier with a pre-blocked third task (M3)

LEVEL = "proof"


def nontrivial(pio):
    """some transition released >= 2 waiters at once, or released one while others stayed blocked"""
    for r in pio:
        if r.get("kind") == "r" and "released" in r and r["released"]:
            still = sum(len(q) for w in r["words"].values() for q in w["q"])
            if len(r["released"]) >= 2 or still:
                return True
    return False


def run(ctx):
    quick = ctx.tier == "quick"
    fc.run_property(ctx, "C02", profiles=["waiters", "waiters", "mix"], corpus_props=["C02", "C01"],
                    nscripts=400 if quick else 2500,
                    configs=[(1, 1), (2, 1), (2, 2, 12)] if quick else [(1, 1), (2, 1), (1, 2), (3, 1), (2, 2, 40)],
                    trivial_rule=nontrivial)
    ctx.cov["rule"] = ("scripts biased to 5-8 tasks blocking on one word in readFE/readFF/writeFF/writeEF before fill/empty-kind "
                       "transitions; after every call the set of tasks that returned, their values and the four waiter lists (task ids, "
                       "in list order) are compared with the model; non-trivial = a transition released >= 2 waiters or released one "
                       "while others stayed blocked")
    ctx.assumptions += ["'resumes' = the released task returns from its call before the runtime is quiescent again; that a ready task "
                        "eventually runs is C08"]
    # extension D (M4): free-running programs, logged histories judged by the acceptor extracted from Feb/History.v
    ctx.coq_properties("Properties/Properties_C02_hist.v")
    fr.run_free(ctx, quick, prop_words="C02")
    m3.run_micro3(ctx, quick)          # extension K (theorems Properties/Properties_C01_micro3.v + two-hold baton on feb.c)


def replay(ctx, path):
    if m3.is_micro3_replay(path):      # extension K
        return m3.replay_file(ctx, path)
    if fr.is_free_replay(path):
        return fr.replay_file(ctx, path)
    fc.replay_file(ctx, path)
