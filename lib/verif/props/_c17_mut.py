"""C17 extension L: the mutating / remaining public entry points of qarray (qarray_set_shepof, qarray_dist_like,
qarray_destroy's tracker bookkeeping, the creation-time tracker, qarray_iter_loop_nb, qarray_elem_migrate).
Model: coq/theories/Qarray/ModelMut.v (extracted: ocaml/c17mut_driver.ml); real code: harness/c/c17_mut.c.
Tie: M1 on operation scripts over several live arrays + live iteration after the updates + gated iter_loop_nb."""
from .. import core

DNAMES = ["FIXED_HASH", "FIXED_FIELDS", "ALL_SAME", "DIST", "DIST_STRIPES", "DIST_FIELDS", "DIST_RAND",
          "DIST_LEAST", "ALL_LOCAL", "ALL_RAND", "ALL_LEAST"]
KINDS = ["iter", "iter_loop", "iter_constloop", "iter_loopaccum"]
K_HASH, K_FIELDS, K_ALL, K_DIST = 0, 1, 2, 3
RND_ASSIGN = (3, 6)            # DIST, DIST_RAND: random() per segment, read back from the array
OSHEP = (2, 8, 9)              # ALL_SAME/ALL_LOCAL: qthread_shep() of the caller, ALL_RAND: random()
NSLOT = 6
# classes of behaviour of the unchanged code that differ from the intended one but lie outside the text of C17
# (reported to the lead; printed as KNOWN-FINDING only when known_findings.json lists the signature as open)
SIG_MIGRATE = "elem_migrate-valid-index-null"
SIG_TRACKER = "tracker-all-same-double-count"


def parse_R(lines):
    res = {}
    for l in lines:
        p = l.split()
        cur = res.setdefault(int(p[1]), [])
        for x in p[2:]:
            lo, hi = map(int, x.split(":"))
            if hi <= lo:
                continue
            if cur and cur[-1][1] == lo:
                cur[-1] = (cur[-1][0], hi)
            else:
                cur.append((lo, hi))
    return {s: r for s, r in res.items() if r}


def iter_oracle(ranges, start, stop, owners, ss):
    """the property on observed behaviour: each index of [start,stop) once, on its CURRENT owner, nothing else"""
    cnt = {}
    for shep, rs in ranges.items():
        for lo, hi in rs:
            if hi - lo > 2000000:
                return "range far outside the array: %d:%d" % (lo, hi)
            for i in range(lo, hi):
                cnt[i] = cnt.get(i, 0) + 1
                if i < start or i >= stop:
                    return "index %d outside [%d,%d) visited" % (i, start, stop)
                own = owners[i // ss] if i // ss < len(owners) else None
                if own != shep:
                    return "index %d visited on shepherd %d, its current owner is %s" % (i, shep, own)
    for i in range(start, stop):
        if cnt.get(i, 0) != 1:
            return "index %d visited %d times" % (i, cnt.get(i, 0))
    return None


def layouts(ctx, drv, params, ns, pagesize):
    """exact descriptors of candidate arrays (from the model; used for aiming the generator and for keeping the
    script inside the code's defined behaviour -- the same descriptors are compared with the real ones in the run)"""
    lines = ["H %d %d" % (ns, pagesize)]
    for (count, obj, d, tight, sp) in params:
        lines += ["A 0 %d %d %d %d %d 0" % (count, obj, d, tight, sp), "F 0"]
    rc, out, err = core.run_lines(drv, lines, timeout=300)
    res = []
    for i in range(len(params)):
        D = out[1 + 2 * i].split()
        res.append(dict(us=int(D[1]), sb=int(D[2]), ss=int(D[3]), kind=int(D[4]), sc=int(D[8])))
    return res


def gen_params(rng, ns, n):
    objs = [1, 2, 3, 4, 5, 7, 8, 9, 12, 16, 24, 100, 1000, 2047, 4092, 4096, 8192]
    out = []
    while len(out) < n:
        d = rng.weighted([(0, 2), (1, 2), (2, 2), (3, 4), (4, 3), (5, 3), (6, 3), (7, 4), (8, 2), (9, 2), (10, 3)])
        obj = rng.choice(objs) if rng.chance(5, 6) else rng.range(1, 9000)
        tight = rng.below(2)
        sp = rng.choice([1, 1, 1, 2, 3])
        out.append((None, obj, d, tight, sp))
    return out


def gen_script(rng, ctx, drv, ns, pagesize, nops):
    """returns list of commands (tuples).  Every command is inside the defined behaviour of the code."""
    # candidate shapes, counts fixed after the exact segment size is known
    shapes = gen_params(rng, ns, 40)
    lay = layouts(ctx, drv, [(1, o, d, t, sp) for (_, o, d, t, sp) in shapes], ns, pagesize)
    cands = []
    for (sh, L) in zip(shapes, lay):
        ss = L["ss"]
        if ss < 1:
            continue
        k = rng.choice([1, 1, 2, ns - 1, ns, ns + 1, 2 * ns, 2 * ns + 1, rng.range(1, 3 * ns + 2), rng.range(1, 14)])
        k = max(1, k)
        delta = rng.choice([0, 0, 0, 1, -1, rng.below(ss)])
        count = max(1, k * ss + delta)
        if count > 60000 or ((count + ss - 1) // ss) * L["sb"] > (8 << 20):
            count = max(1, min(count, 3 * ss + delta))
            if count > 60000:
                continue
        cands.append((count, sh[1], sh[2], sh[3], sh[4]))
    lay = layouts(ctx, drv, cands, ns, pagesize)
    live = {}           # slot -> dict(params, L)
    cmds = []

    def create(slot, p, L):
        live[slot] = dict(p=p, L=L)
        cmds.append(("A", slot) + p)
        cmds.append(("S", slot))
        cmds.append(("T",))
        count = p[0]
        probes = sorted(set([0, count - 1, min(count - 1, L["ss"] - 1), min(count - 1, L["ss"]), rng.below(count)]))
        live[slot]["probes"] = probes
        cmds.append(("e", slot) + tuple(probes))

    def some_index(a):
        count, ss = a["p"][0], a["L"]["ss"]
        c = rng.below(9)
        if c == 0:
            return 0
        if c == 1:
            return count - 1
        if c == 2:
            return count if count % ss != 0 else count - 1      # i == count is accepted by the guard (>): last segment
        if c == 3:
            return count + 1 + rng.below(5)                      # rejected by the guard
        if c == 4:
            return min(count - 1, ss - 1)
        if c == 5:
            return min(count - 1, ss)
        if c == 6:
            return (a["L"]["sc"] - 1) * ss                       # first index of the last segment
        return rng.below(count)

    def some_range(a):
        count, ss = a["p"][0], a["L"]["ss"]
        def pt():
            c = rng.below(4)
            k = rng.below(count // ss + 2)
            return min(count, [k * ss, k * ss + 1, max(0, k * ss - 1), rng.below(count + 1)][c])
        lo, hi = sorted((pt(), pt()))
        if rng.chance(1, 3):
            lo, hi = 0, count
        if lo == hi:
            if hi < count:
                hi += 1
            else:
                lo -= 1
        return lo, hi

    last_set = None
    for _ in range(nops):
        free = [s for s in range(NSLOT) if s not in live]
        c = rng.weighted([("create", 3 if free else 0), ("destroy", 2 if len(live) > 2 else 0), ("set", 8 if live else 0),
                          ("like", 5 if len(live) >= 2 else 0), ("iter", 4 if live else 0), ("nb", 2 if live else 0),
                          ("mig", 2 if live else 0), ("twin", 3 if free and live else 0)])
        if c == "create":
            j = rng.below(len(cands))
            create(rng.choice(free), cands[j], lay[j])
        elif c == "twin":
            # same count / object size / tight / seg_pages as a live array, another distribution: dist_like candidates
            src = live[rng.choice(sorted(live))]
            d = rng.choice([2, 3, 4, 5, 6, 7, 8, 9, 10, 3, 7, 4])
            p = (src["p"][0], src["p"][1], d, src["p"][3], src["p"][4] if rng.chance(4, 5) else src["p"][4] + 1)
            L = layouts(ctx, drv, [p], ns, pagesize)[0]
            if L["ss"] >= 1 and L["sc"] * L["sb"] <= (8 << 20):
                create(rng.choice(free), p, L)
        elif c == "destroy":
            s = rng.choice(sorted(live))
            del live[s]
            cmds.append(("F", s))
            cmds.append(("T",))
        elif c == "set":
            if last_set and last_set[0] in live and rng.chance(1, 5):
                s, i, shep = last_set                         # the same owner twice
            else:
                s = rng.choice(sorted(live))
                i = some_index(live[s])
                shep = rng.below(ns)
            last_set = (s, i, shep)
            cmds.append(("P", s, i, shep))
            cmds.append(("S", s))
            cmds.append(("T",))
            if rng.chance(1, 3):
                cmds.append(("d", s))
                cmds.append(("e", s) + tuple(live[s]["probes"]))
        elif c == "like":
            r = rng.choice(sorted(live))
            m = rng.choice(sorted(live))                      # r == m happens
            good = [(x, y) for x in sorted(live) for y in sorted(live) if x != y and
                    live[x]["p"][0] == live[y]["p"][0] and live[x]["L"]["us"] == live[y]["L"]["us"] and
                    ((live[x]["L"]["kind"] == K_ALL and live[y]["L"]["kind"] in (K_ALL, K_DIST)) or
                     (live[x]["L"]["kind"] == K_DIST and live[y]["L"]["kind"] == K_DIST and live[x]["L"]["ss"] == live[y]["L"]["ss"]))]
            if good and rng.chance(2, 3):
                r, m = rng.choice(good)                       # a pair the code accepts
                if rng.chance(1, 2):
                    # make the target differ from the reference in its first or last segment first
                    i = rng.choice([0, live[m]["p"][0] - 1])
                    cmds.append(("P", m, i, rng.below(ns)))
                    cmds.append(("S", m))
                    cmds.append(("T",))
            cmds.append(("L", r, m))
            cmds.append(("S", m))
            cmds.append(("T",))
            if rng.chance(1, 3):
                cmds.append(("d", m))
                cmds.append(("e", m) + tuple(live[m]["probes"]))
        elif c == "iter":
            s = rng.choice(sorted(live))
            lo, hi = some_range(live[s])
            cmds.append(("S", s))
            cmds.append(("I", s, rng.below(4), lo, hi))
        elif c == "nb":
            s = rng.choice(sorted(live))
            lo, hi = some_range(live[s])
            cmds.append(("S", s))
            cmds.append(("N", s, lo, hi))
        elif c == "mig":
            s = rng.choice(sorted(live))
            a = live[s]
            count = a["p"][0]
            i = rng.choice([0, count - 1, rng.below(count)])
            if a["L"]["kind"] in (K_HASH, K_ALL) and rng.chance(1, 3):
                i = count + rng.below(2 * a["L"]["ss"])           # outside the array: what the code then computes
            cmds.append(("S", s))
            cmds.append(("M", s, rng.below(ns), i))
    for s in sorted(live):
        cmds.append(("F", s))
        cmds.append(("T",))
    return cmds


def split_records(cmds, lines, extra_prefixes=()):
    """one record (list of lines) per command; None from the point where the output stops making sense"""
    recs = []
    pos = 0
    ok = True
    lines = [l for l in lines if not (l in extra_prefixes)]
    for c in cmds:
        if not ok or pos >= len(lines):
            recs.append(None)
            ok = False
            continue
        if c[0] in ("I", "N"):
            r = []
            while pos < len(lines) and lines[pos].startswith("R "):
                r.append(lines[pos]); pos += 1
            if pos < len(lines) and lines[pos][:1] in (".", "n"):
                r.append(lines[pos]); pos += 1
                recs.append(r)
            else:
                recs.append(None); ok = False
        else:
            want = {"A": "D", "d": "D"}.get(c[0], c[0])
            if lines[pos].split()[0] == want:
                recs.append([lines[pos]]); pos += 1
            else:
                recs.append(None); ok = False
    return recs


def run_mut(ctx, quick, pr):
    rng = ctx.rng.fork()
    exe = ctx.link("c17_mut", ["c17_mut.c"], exclude=["ds/qarray.c"])
    drv = ctx.model_driver("c17mut_driver")
    configs = [(1, 1), (3, 1), (4, 2)] if quick else [(1, 1), (2, 1), (2, 2), (3, 2), (4, 1), (5, 1), (8, 2)]
    nops = 120 if quick else 400
    evals = 0
    mismatches = []
    oracle_fail = []          # (signature or None, text, case)
    seen_class = {}
    hist = {}
    nontrivial = 0
    samples = []
    # model only: the calls that leave the defined behaviour of the code are flagged by the model (never run on the code)
    rcu, ou, eu = core.run_lines(drv, ["H 3 4096", "A 0 1022 8 4 0 1 0", "P 0 1022 1", "H 3 4096", "A 0 1000 8 4 0 1 0", "P 0 5 3",
                                       "H 3 4096", "A 0 1000 8 8 0 1 0", "P 0 5 7", "H 3 4096", "A 0 1023 8 4 0 1 0", "P 0 1023 1"], timeout=120)
    if [l for l in ou if l in ("UNDEF", "P")] != ["UNDEF", "UNDEF", "UNDEF", "P"]:
        mismatches.append(("model-undefined-classes", {"model": ou}))
    for (ns, nw) in configs:
        rc0, o0, e0 = core.run_lines(exe, ["Q"], timeout=120, env=core.qenv(ns, nw, stack=65536))
        if not o0 or not o0[0].startswith("H "):
            raise core.BuildError("c17_mut harness did not start on %dx%d: rc=%s %s" % (ns, nw, rc0, e0[-500:]))
        pagesize = int(o0[0].split()[3])
        # corpus first: the hand-checked script (every kind of update, the tracker leak, the last-segment guard)
        corpus = [("A", 0, 3000, 8, 7, 0, 1), ("S", 0), ("T",), ("A", 1, 3000, 8, 8, 0, 1), ("S", 1), ("T",),
                  ("A", 2, 3000, 8, 3, 0, 1), ("S", 2), ("T",), ("P", 2, 0, ns - 1), ("S", 2), ("T",),
                  ("P", 2, 2999, 0), ("P", 2, 3000, ns - 1), ("S", 2), ("T",), ("P", 2, 3001, 0), ("S", 2), ("T",),
                  ("P", 1, 0, ns - 1), ("d", 1), ("S", 1), ("T",), ("P", 2, 0, 0), ("P", 2, 2999, 0), ("S", 2), ("T",),
                  ("L", 1, 2), ("S", 2), ("T",), ("I", 2, 1, 0, 3000),
                  ("L", 0, 2), ("S", 2), ("T",), ("I", 2, 0, 100, 2900), ("N", 2, 10, 2900), ("S", 1), ("N", 1, 0, 3000),
                  ("S", 0), ("M", 0, 0, 700), ("A", 3, 3000, 8, 0, 0, 1), ("S", 3), ("T",), ("P", 3, 5, ns - 1), ("S", 3), ("T",),
                  ("L", 3, 2), ("S", 2), ("L", 2, 3), ("S", 3), ("T",), ("S", 3), ("M", 3, 0, 3000),
                  ("F", 0), ("T",), ("F", 1), ("T",), ("F", 2), ("T",), ("F", 3), ("T",)]
        cmds = corpus + gen_script(rng.fork(), ctx, drv, ns, pagesize, nops)
        script = [" ".join(map(str, c)) for c in cmds] + ["Q"]
        rc, out, err = core.run_lines(exe, script, timeout=900, env=core.qenv(ns, nw, stack=65536))
        irecs = split_records(cmds, out[1:])
        # model script: oracle inputs (random()/qthread_shep() results) are read back from the implementation
        mscript = ["H %d %d" % (ns, pagesize)]
        for k, c in enumerate(cmds):
            if c[0] == "A":
                d = c[4]
                oshep = 0
                if irecs[k] and irecs[k][0] != "D NULL" and d in OSHEP:
                    oshep = int(irecs[k][0].split()[7])
                if d in RND_ASSIGN and k + 1 < len(irecs) and irecs[k + 1]:
                    mscript.append("O " + " ".join(irecs[k + 1][0].split()[1:]))
                mscript.append(" ".join(map(str, c)) + " %d" % oshep)
            else:
                mscript.append(" ".join(map(str, c)))
        rc2, mout, merr = core.run_lines(drv, mscript, timeout=900)
        mrecs = split_records(cmds, mout, extra_prefixes=("H", "O"))
        # ---- walk the script: correspondence + the property oracle on the implementation's own output
        st = {}            # slot -> state known from the implementation's dumps (spec side)
        leak = [0] * ns
        for k, c in enumerate(cmds):
            ir, mr = irecs[k], mrecs[k]
            case = {"config": [ns, nw], "script_prefix": script[:k + 1][-40:], "command": script[k]}
            evals += 1
            hist[c[0]] = hist.get(c[0], 0) + 1
            if ir is None:
                mismatches.append(("crash", dict(case, harness_rc=rc, last_output=out[-3:], stderr=err[-300:])))
                oracle_fail.append((None, "the real code crashed, hung or printed garbage (rc=%s) at '%s'" % (rc, script[k]), case))
                break
            if mr is None:
                mismatches.append(("model-undefined", dict(case, model=mout[-3:])))
                break
            if c[0] in ("I", "N"):
                ipr, mpr = parse_R(ir[:-1]), parse_R(mr[:-1])
                if ipr != mpr:
                    mismatches.append(("iteration", dict(case, impl=ir, model=mr)))
                if c[0] == "N" and ir[-1] != mr[-1]:
                    mismatches.append(("iter_loop_nb", dict(case, impl=ir[-1], model=mr[-1])))
            elif ir != mr:
                mismatches.append((c[0], dict(case, impl=ir, model=mr)))
            # ---------- oracle ----------
            slot = c[1] if len(c) > 1 else None
            if c[0] == "A":
                if ir[0] == "D NULL":
                    continue
                D = list(map(int, ir[0].split()[1:]))
                st[slot] = dict(us=D[0], sb=D[1], ss=D[2], kind=D[3], dshep=D[6], sc=D[7], count=D[8], D0=D, own=None, e0=None,
                                d=c[4])
                if D[3] == K_ALL:
                    leak[D[6]] += D[7]
            elif c[0] == "S":
                own = list(map(int, ir[0].split()[1:]))
                a = st.get(slot)
                if a is None:
                    continue
                if any(o >= ns for o in own) or len(own) != a["sc"]:
                    oracle_fail.append((None, "qarray_shepof: invalid shepherd or wrong segment count: %s" % own, case))
                if a["own"] is None:
                    a["own"] = own          # creation owners
                    a["own0"] = own
                elif a.get("expect") is not None:
                    if own != a["expect"]:
                        oracle_fail.append((None, "owners after '%s' are %s, the updates so far require %s" % (a["why"], own, a["expect"]), case))
                    a["own"] = own
                    a["expect"] = None
                elif own != a["own"]:
                    oracle_fail.append((None, "owners changed without an update: %s -> %s" % (a["own"], own), case))
            elif c[0] == "P":
                a = st[slot]
                i, shep = c[2], c[3]
                exp = list(a["expect"] if a.get("expect") is not None else a["own"])
                if i <= a["count"]:
                    if a["kind"] == K_ALL:
                        exp = [shep] * a["sc"]
                    elif a["kind"] == K_DIST:
                        exp[i // a["ss"]] = shep
                a["expect"], a["why"] = exp, script[k]
                if exp != a["own"]:
                    nontrivial += 1
            elif c[0] == "L":
                r, m = st[c[1]], st[c[2]]
                rown = r["expect"] if r.get("expect") is not None else r["own"]
                exp = list(m["expect"] if m.get("expect") is not None else m["own"])
                okdims = r["count"] == m["count"] and r["us"] == m["us"]
                if okdims and r["kind"] == K_ALL and m["kind"] in (K_ALL, K_DIST):
                    exp = [rown[0]] * m["sc"]
                elif okdims and r["kind"] == K_DIST and m["kind"] == K_DIST and r["ss"] == m["ss"] and r["sb"] == m["sb"]:
                    exp = list(rown)
                m["expect"], m["why"] = exp, script[k]
                if exp != m["own"]:
                    nontrivial += 1
                    if len(samples) < 4:
                        samples.append(dict(case, owners_before=m["own"], owners_required=exp))
            elif c[0] == "F":
                st.pop(slot, None)
            elif c[0] == "T":
                T = list(map(int, ir[0].split()[1:]))
                owned = [0] * ns
                for a in st.values():
                    if a["own"] is None:
                        continue
                    for o in (a["expect"] if a.get("expect") is not None else a["own"]):
                        if o < ns:
                            owned[o] += 1
                if True:
                    if T == owned:
                        pass
                    elif T == [x + y for x, y in zip(owned, leak)]:
                        seen_class.setdefault(SIG_TRACKER, ("chunk_distribution_tracker = %s, live segments per shepherd = %s: the difference %s is the "
                                                            "segment count of every ALL_* array ever created (counted twice at creation, once at destroy)" % (T, owned, leak), case))
                    else:
                        # owners of an array whose S dump is still pending are taken from the spec; anything else is wrong
                        oracle_fail.append((None, "chunk_distribution_tracker = %s but the live segments per shepherd are %s (+ ALL_* creation surplus %s)" % (T, owned, leak), case))
            elif c[0] == "d":
                a = st[slot]
                D = list(map(int, ir[0].split()[1:]))
                if D[:6] + D[7:] != a["D0"][:6] + a["D0"][7:]:
                    oracle_fail.append((None, "the descriptor changed: %s -> %s" % (a["D0"], D), case))
            elif c[0] == "e":
                a = st.get(slot)
                if a is not None:
                    if a["e0"] is None:
                        a["e0"] = ir[0]
                    elif a["e0"] != ir[0]:
                        oracle_fail.append((None, "element offsets changed: %s -> %s" % (a["e0"], ir[0]), case))
            elif c[0] in ("I", "N"):
                a = st[slot]
                lo, hi = c[-2], c[-1]
                ipr = parse_R(ir[:-1])
                why = iter_oracle(ipr, lo, hi, a["own"], a["ss"])
                tail = ir[-1].split()
                if c[0] == "I":
                    if why is None and int(tail[1]) != 0:
                        why = "call returned while %s invocations were still running" % tail[1]
                    if why is None and c[2] == 3 and int(tail[2]) != hi - lo:
                        why = "qarray_iter_loopaccum accumulated %s, the range has %d indices" % (tail[2], hi - lo)
                else:
                    if why is None and tail[1:] != ["0", "0", "1", "0", "0", "0", "1", "1"]:
                        f = tail[1:]
                        why = ("qarray_iter_loop_nb: return word status right after the call / while invocations are held / after "
                               "completion = %s %s %s (want empty, empty, full), value %s, invocations running at completion %s, finished "
                               "while held %s, all entered finished %s, none started later %s" % tuple(f))
                if why:
                    oracle_fail.append((None, why, dict(case, owners=a["own"], impl=ir)))
                if len(ipr) >= 2 and a["own"] != a.get("own0", a["own"]):
                    nontrivial += 1
            elif c[0] == "M":
                a = st[slot]
                off, before, after = map(int, ir[0].split()[1:])
                i = c[3]
                if i < a["count"]:
                    seg = i // a["ss"]
                    want = (seg * a["sb"] + (i - seg * a["ss"]) * a["us"], a["own"][seg])
                    if (off, after) != want:
                        if off == -1 and after == before:
                            seen_class.setdefault(SIG_MIGRATE, ("qarray_elem_migrate(a, %d) with %d < count returns NULL and does not migrate "
                                                                "(wanted offset %d on shepherd %d): inverted qassert_ret(index >= a->count)" % (i, i, want[0], want[1]), case))
                        else:
                            oracle_fail.append((None, "qarray_elem_migrate(a, %d) -> offset %d on shepherd %d, wanted %s" % (i, off, after, want), case))
    # ---------------- verdict ----------------
    ctx.cov["ext_L_mutators"] = dict(
        evaluations=evals, updates_that_changed_owners=nontrivial, op_histogram=hist, configs=configs,
        correspondence_mismatches=len(mismatches), samples=samples,
        rule="operation scripts over up to %d live arrays: create (11 distributions, 1..3ns+2 segments, counts at segment multiples +-1) / "
             "set_shepof (first/last segment, i = count, i > count, same owner twice, every kind) / dist_like (twins with equal geometry, "
             "unequal counts/units/segment sizes, FIXED and ALL_SAME on either side, ref == mod) / destroy / the four iteration calls and "
             "iter_loop_nb after updates / elem_migrate; owner table + tracker dumped after every update" % NSLOT,
        behaviour_outside_the_statement={s: w for s, (w, c) in seen_class.items()})
    ctx.cov["evaluations"] = ctx.cov.get("evaluations", 0) + evals
    ctx.cov["traces_validated_against_impl"] = ctx.cov.get("traces_validated_against_impl", 0) + evals
    broken = bool(mismatches) or not pr["ok"]
    if not broken:
        for s, (w, c) in seen_class.items():
            if core.match_known("C17", s) is not None:
                ctx.violation(s, w, c)                     # KNOWN-FINDING
            else:
                ctx.notes.append("outside the C17 statement, model == code: %s: %s" % (s, w))
        for (s, w, c) in oracle_fail[:3]:
            ctx.violation("unlisted:mut:" + w.split()[0], w, c)
    else:
        what = ("correspondence Qarray.ModelMut / implementation broken (%d cases, first: %s)" % (len(mismatches), mismatches[0][0])
                if mismatches else "theorems in %s no longer check" % pr["file"])
        if oracle_fail:
            s, w, c = oracle_fail[0]
            ctx.violation("broken+input:mut", what + "; failing input: " + w,
                          {"failing_input": c, "reason": w, "first_mismatch": mismatches[0] if mismatches else None,
                           "coq_log": pr["log"][-1500:]})
        else:
            ctx.violation("broken:mut", what, {"theorem_or_correspondence": ("impl != Qarray.ModelMut on " + mismatches[0][0]) if mismatches else pr["file"],
                          "first_mismatch": mismatches[0] if mismatches else None, "coq_log": pr["log"][-1500:]}, no_input=True)
