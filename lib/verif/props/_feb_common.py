"""Shared machinery of C01 / C02 / C06 (FEB words): M2 op-atomic replay of generated scripts on the real
runtime (harness/c/c01_feb.c, white-box include of the working tree's feb.c) and on the extracted Coq model
(coq/theories/Feb/Model.v -> ocaml/c01_driver.ml), exact comparison, and the property oracle (the abstract
cell of coq/theories/Cell/Spec.v re-stated in Python: a linearisation search per word and step).

Script lines (same text for both sides):
  S ntasks next npre nwords v0..      o tid w opname a1 a2      p tid k variant retmode retw retval n w1..wn      E
Result lines:
  r tid rc|BLK|SKIP val|- | released t:rc:val .. | launched k .. | W<i>=present,full,status,mem,[EFQ],[FEQ],[FFQ],[FFWQ] ..
  e w:tid .. ; k:runs:ordinal ..
"""
import collections
import importlib.util
import itertools
import json
import os
import re
import subprocess

from .. import core

OPFAIL = -7
READS = ("readFE", "readFE_nb", "readFF", "readFF_nb", "readXX")
WRITES = ("writeEF", "writeEF_nb", "writeF", "writeFF", "purge_to")
CONSTS = {"writeEF_const": "writeEF", "writeF_const": "writeF", "writeFF_const": "writeFF",
          "purge_to_const": "purge_to", "writeEF_const_nb": "writeEF_nb"}
NULLARY = ("fill", "empty", "purge", "lock", "unlock", "status")


def srcfacts(repo):
    p = os.path.join(core.VERIF, "tools", "c01_srcfacts.py")
    spec = importlib.util.spec_from_file_location("c01_srcfacts", p)
    m = importlib.util.module_from_spec(spec)
    spec.loader.exec_module(m)
    passes, runs, changed = m.regenerate(repo)
    return passes, runs, ["TC"] + ["TP %s %s" % x for x in passes] + ["TR %s %s" % x for x in runs]


# ---------------------------------------------------------------- result lines
def parse_list(s):
    s = s.strip("[]")
    return [x for x in s.split(".") if x]


def parse_r(line):
    if not line.startswith("r "):
        return {"raw": line, "kind": "other"}
    head = line.split("|")
    h = head[0].split()
    d = {"raw": line, "kind": "r", "tid": int(h[1])}
    if h[2] in ("SKIP", "BAD", "FUEL"):
        d["rc"] = h[2]
        return d
    d["rc"] = "BLK" if h[2] == "BLK" else int(h[2])
    d["val"] = None if h[3] == "-" else int(h[3])
    d["released"] = []
    for it in head[1].split():
        t, rc, v = it.split(":")
        d["released"].append((int(t), int(rc), None if v == "-" else int(v)))
    d["launched"] = [int(x) for x in head[2].split()]
    ws = {}                                  # word index -> observed state (many-words scripts print only a few words)
    for it in head[3].split():
        name, body = it.split("=", 1)
        f = body.split(",")
        ws[int(name[1:])] = {"present": int(f[0]), "full": int(f[1]), "status": int(f[2]), "mem": int(f[3]),
                             "q": [parse_list(f[4]), parse_list(f[5]), parse_list(f[6]), parse_list(f[7])]}
    d["words"] = ws
    return d


# ---------------------------------------------------------------- the abstract cell (Cell/Spec.v) in Python
def canon(name, a1, a2):
    """-> (kind, src, dmode, nb)   src: int value or None (= aliases the word); dmode 0 own / 1 null / 2 same"""
    if name in CONSTS:
        return canon(CONSTS[name], 0, a2)
    if name == "lock":
        return ("readFE", None, 1, False)
    if name == "unlock":
        return ("fill", None, 1, False)
    if name == "purge":
        return ("purge_to", 0, 1, False)
    nb = name.endswith("_nb")
    k = name[:-3] if nb else name
    if k in ("readFE", "readFF", "readXX"):
        return (k, None, a1, nb)
    if k in ("writeEF", "writeF", "writeFF", "purge_to"):
        return (k, a2 if a1 == 0 else None, 1, nb)
    return (k, None, 1, False)          # fill empty status


def atomic(c, k, src):
    """cell c=(full,val), op kind -> None (must wait) or ((full,val), value_read_or_None)"""
    full, val = c
    st = val if src is None else src
    if k == "readFE":
        return ((0, val), val) if full else None
    if k == "readFF":
        return ((full, val), val) if full else None
    if k == "readXX":
        return ((full, val), val)
    if k == "writeEF":
        return None if full else ((1, st), None)
    if k == "writeF":
        return ((1, st), None)
    if k == "writeFF":
        return ((1, st), None) if full else None
    if k == "fill":
        return ((1, val), None)
    if k == "empty":
        return ((0, val), None)
    if k == "purge_to":
        return ((0, st), None)
    if k == "status":
        return ((full, val), full)
    raise ValueError(k)


def expect_val(kind, dmode, got):
    """value the caller must see in its own buffer"""
    if kind == "status":
        return got
    if kind in ("readFE", "readFF", "readXX") and dmode == 0:
        return got
    return None


def lin_search(c0, first, pool, cfinal):
    """Is there an order: first (optional, fixed first) then all of pool, each enabled where it stands, delivering the observed
    values, ending in cfinal?  items: (kind, src, dmode, observed_val)"""
    def ok_item(c, it):
        kind, src, dmode, obs = it
        r = atomic(c, kind, src)
        if r is None:
            return None
        c1, got = r
        if expect_val(kind, dmode, got) != obs:
            return None
        return c1

    def dfs(c, rest):
        if not rest:
            return c == cfinal
        seen = set()
        for i, it in enumerate(rest):
            if it in seen:
                continue
            seen.add(it)
            c1 = ok_item(c, it)
            if c1 is not None and dfs(c1, rest[:i] + rest[i + 1:]):
                return True
        return False
    c = c0
    if first is not None:
        c = ok_item(c, first)
        if c is None:
            return False
    return dfs(c, list(pool))


FILL_KINDS = ("writeEF", "writeF", "fill")


def oracle_script(sc, out):
    """The properties themselves, evaluated on the implementation's observed behaviour of one script.
    Returns None or (prop, reason, step_index)."""
    nw = sc["nwords"]
    cells = [(1, v) for v in sc["init"]]          # observed (full, mem) after the previous step
    queues = [[[], [], [], []] for _ in range(nw)]
    pending = {}                                   # tid -> (word, kind, src, dmode)
    pre = {}                                       # k -> dict(words, seen(set), launched, retmode, retw, retval, spawn_step)
    steps = [l for l in sc["lines"] if l[0] in "op"]
    results = [o for o in out if o.get("kind") == "r"]
    if len(results) < len(steps):
        # the implementation stopped (hang / crash) during step len(results)
        return ("C02", "the runtime never became quiescent (a task neither returned nor is enqueued): %s"
                % (sc.get("stuck") or "hang"), len(results))
    for i, (ln, r) in enumerate(zip(steps, results)):
        f = ln.split()
        tid = int(f[1])
        if r["rc"] == "SKIP":
            if tid not in pending:
                return ("C01", "task %d is not blocked but its call was not executed" % tid, i)
            continue
        if r["rc"] in ("BAD", "FUEL"):
            return ("C01", "unexpected " + r["rc"], i)
        if tid in pending:
            return ("C01", "task %d issued a call while blocked" % tid, i)
        prev_cells = list(cells)
        ops_on = collections.defaultdict(list)     # word -> list of items that completed in this step
        first_on = {}
        # ---- the caller
        if f[0] == "o":
            w = int(f[2])
            kind, src, dmode, nb = canon(f[3], int(f[4]), int(f[5]))
            en = atomic(cells[w], kind, src) is not None
            if r["rc"] == "BLK":
                if nb:
                    return ("C01", "non-blocking %s blocked (task %d, word %d)" % (f[3], tid, w), i)
                if en:
                    return ("C01", "%s blocked although the word state lets it proceed (full=%d)" % (f[3], cells[w][0]), i)
                pending[tid] = (w, kind, src, dmode)
            elif r["rc"] == OPFAIL:
                if not nb:
                    return ("C01", "blocking %s returned OPFAIL" % f[3], i)
                if en:
                    return ("C01", "%s reported failure although its blocking twin would not have waited (full=%d)" % (f[3], cells[w][0]), i)
                if r["val"] is not None:
                    return ("C01", "failed %s stored a value" % f[3], i)
            elif r["rc"] == 0:
                if not en:
                    return ("C01", "%s completed while the word was in the state it has to wait out (full=%d)" % (f[3], cells[w][0]), i)
                first_on[w] = (kind, src, dmode, r["val"])
            else:
                return ("C01", "%s returned %s" % (f[3], r["rc"]), i)
        else:                                      # p tid k variant retmode retw retval n w1..
            k = 100 + int(f[2])
            retmode, retw, retval, n = int(f[4]), int(f[5]), int(f[6]), int(f[7])
            words = [int(x) for x in f[8:8 + n]]
            if r["rc"] != 0:
                return ("C06", "qthread_fork_precond returned %s" % r["rc"], i)
            pre[k] = {"words": words, "seen": set(), "launched": None, "retmode": retmode, "retw": retw, "retval": retval, "spawn": i}
            if retmode == 1:
                first_on[retw] = ("empty", None, 1, None)
        # ---- released waiters and launched tasks
        for (t, rc, v) in r["released"]:
            if t not in pending:
                return ("C02", "task %d returned from a call it was not blocked in" % t, i)
            if rc != 0:
                return ("C02", "released task %d returned %d" % (t, rc), i)
            w2, k2, s2, d2 = pending.pop(t)
            ops_on[w2].append((k2, s2, d2, v))
        for k in r["launched"]:
            if k not in pre or pre[k]["launched"] is not None:
                return ("C06", "precondition task %d started %s" % (k, "twice" if k in pre else "without being spawned"), i)
            pre[k]["launched"] = i
            if pre[k]["retmode"] != 0:
                # its return value write: completed unless it is observably blocked in the EFQ of its return word
                blocked = str(k) in r["words"][pre[k]["retw"]]["q"][0]
                if blocked:
                    pending[k] = (pre[k]["retw"], "writeEF", pre[k]["retval"], 1)
                else:
                    ops_on[pre[k]["retw"]].append(("writeEF", pre[k]["retval"], 1, None))
        # precondition tasks blocked in their return write and released now
        for k in [k for k in pending if k >= 100]:
            w2 = pending[k][0]
            if str(k) not in r["words"][w2]["q"][0]:
                _, k2, s2, d2 = pending.pop(k)
                ops_on[w2].append((k2, s2, d2, None))
        # ---- per word: one total order explains the step; nothing enabled stays blocked; nobody lost
        for w in sorted(r["words"]):
            ws = r["words"][w]
            cfin = (ws["full"], ws["mem"])
            if ws["status"] != ws["full"]:
                return ("C01", "qthread_feb_status(word %d)=%d but the record says full=%d" % (w, ws["status"], ws["full"]), i)
            if not ws["present"] and any(ws["q"]):
                return ("C01", "waiters without a record", i)
            fo = first_on.get(w)
            if fo is None and not ops_on[w]:
                if cfin != cells[w]:
                    return ("C01", "word %d changed (full,value) %s -> %s although no operation on it completed" % (w, cells[w], cfin), i)
            else:
                pool = ops_on[w]
                okl = lin_search(cells[w], fo, pool, cfin)
                if not okl and fo is not None and f[0] == "p":
                    okl = lin_search(cells[w], None, pool + [fo], cfin)
                if not okl:
                    return ("C02" if pool else "C01",
                            "word %d: no total order of the completed operations %s (caller first) explains values/state %s -> %s"
                            % (w, [fo] + pool, cells[w], cfin), i)
            cells[w] = cfin
            # who is enqueued now
            now_ids = set(x.rstrip("n") for q in ws["q"] for x in q)
            nas_ids = set(x.rstrip("n") for q in ws["q"] for x in q if x.endswith("n"))
            want = set(str(t) for t, p in pending.items() if p[0] == w)
            parked = set(str(k) for k in pre if pre[k]["launched"] is None)
            if not want <= now_ids:
                return ("C02", "task(s) %s blocked on word %d are neither returned nor enqueued (lost)" % (sorted(want - now_ids), w), i)
            extra = now_ids - want - parked
            if extra:
                return ("C02", "word %d has waiters %s that no pending call accounts for" % (w, sorted(extra)), i)
            for t, p in pending.items():
                if p[0] == w and atomic(cfin, p[1], p[2]) is not None:
                    return ("C02", "quiescent, but task %d stays blocked in %s on word %d whose state (full=%d) lets it proceed" % (t, p[1], w, cfin[0]), i)
            for x in nas_ids:
                if cfin[0] == 1:
                    return ("C06", "precondition task %s parked on word %d which is full" % (x, w), i)
        # ---- C06: seen-full bookkeeping and safety
        for k, P in pre.items():
            if P["launched"] is not None and P["launched"] < i:
                continue
            for w in set(P["words"]):
                fillish = (first_on.get(w, ("",))[0] in FILL_KINDS) or any(it[0] in FILL_KINDS for it in ops_on[w])
                if prev_cells[w][0] == 1 and P["spawn"] <= i:
                    P["seen"].add(w)
                if cells[w][0] == 1 or fillish:
                    P["seen"].add(w)
            if P["launched"] == i:
                miss = set(P["words"]) - P["seen"]
                if miss:
                    return ("C06", "precondition task %d started although word(s) %s were never full since its spawn" % (k, sorted(miss)), i)
            elif P["launched"] is None:
                where = [w for w in sorted(r["words"]) for q in r["words"][w]["q"] for x in q if x == "%dn" % k]
                if len(where) != 1:
                    return ("C06", "precondition task %d is parked on %d words (must be exactly one while not started)" % (k, len(where)), i)
                if where[0] not in P["words"]:
                    return ("C06", "precondition task %d parked on word %d which is not one of its preconditions" % (k, where[0]), i)
    # ---- end of script: enumeration by qthread_feb_callback == pending calls (+ parked tasks); each task ran at most once
    e = [o for o in out if o.get("kind") == "other" and o["raw"].startswith("e")]
    if e:
        a, b = e[0]["raw"][1:].split(";")
        enum = sorted(a.split())
        lastw = ([r for r in results if "words" in r] or [{"words": {}}])[-1]["words"]
        want = sorted(["%d:%d" % (p[0], t) for t, p in pending.items()] +
                      ["%d:%d" % (w, k) for k in pre if pre[k]["launched"] is None
                       for w in sorted(lastw) for q in lastw[w]["q"] for x in q if x == "%dn" % k])
        if enum != want:
            return ("C02", "qthread_feb_callback enumerates %s, pending calls are %s" % (enum, want), len(steps))
        for it in b.split():
            k, runs, ordn = it.split(":")
            k = int(k); runs = int(runs)
            if runs > 1:
                return ("C06", "precondition task %d ran %d times" % (k, runs), len(steps))
            if (runs == 1) != (pre[k]["launched"] is not None):
                return ("C06", "precondition task %d: runs=%d but start %s observed" % (k, runs, "was" if pre[k]["launched"] is not None else "never"), len(steps))
    return None


# ---------------------------------------------------------------- model session (interactive: the generator sees the model state)
class Model:
    def __init__(self, drv, table_lines):
        self.p = subprocess.Popen([drv], stdin=subprocess.PIPE, stdout=subprocess.PIPE, universal_newlines=True, bufsize=1)
        for l in table_lines:
            self.p.stdin.write(l + "\n")
        self.p.stdin.flush()

    def send(self, line):
        self.p.stdin.write(line + "\n")
        self.p.stdin.flush()
        out = self.p.stdout.readline()
        if not out:
            raise core.BuildError("model driver died on: " + line)
        return out.rstrip("\n")

    def close(self):
        try:
            self.p.stdin.close()
            self.p.wait(timeout=10)
        except Exception:
            self.p.kill()


def run_fixed(model, lines):
    return [model.send(l) for l in lines]


# ---------------------------------------------------------------- generators
def gen_script(rng, model, profile, allow_ret1=True):
    """state-aware random script; returns dict(lines, model_out, nwords, init, stats)"""
    P = profile
    nt = rng.range(*P["tasks"])
    ne = rng.range(*P["ext"]) if rng.chance(P.get("ext_p", 1), P.get("ext_q", 1)) else 0
    nw = rng.range(*P["words"])
    npre = rng.range(*P["pre"])
    nsteps = rng.range(*P["steps"])
    init = [rng.range(1, 9) for _ in range(nw)]
    lines = ["S %d %d %d %d %s" % (nt, ne, npre, nw, " ".join(map(str, init)))]
    mout = [model.send(lines[0])]
    words = {i: {"present": 0, "full": 1, "q": [[], [], [], []]} for i in range(nw)}
    nextval = [10]
    spawned = 0
    retwords = {}
    stats = {}

    def val():
        nextval[0] += 1
        return nextval[0]

    def blocked_now():
        return set(int(x.rstrip("n")) for w in words.values() for q in w["q"] for x in q)

    for _ in range(nsteps):
        blk = blocked_now()
        free = [t for t in range(nt + ne) if t not in blk]
        if not free or rng.chance(1, 25):
            tid = rng.below(nt + ne)
        else:
            tid = rng.choice(free)
        ext = tid >= nt
        # spawn?
        if npre and spawned < npre and not ext and rng.chance(P.get("spawn_p", 0), 100):
            k = spawned
            spawned += 1
            n = rng.range(1, min(6, P.get("maxpc", 6)))
            pcs = [rng.below(nw) for _ in range(n)]
            if rng.chance(1, 3) and retwords:           # chain on another task's return word
                pcs[rng.below(n)] = rng.choice(list(retwords.values()))
            if rng.chance(1, 2):
                # aim at the argument-list boundary: only the LAST listed word is empty (it is the first one the walk looks at)
                empties = [i for i in range(nw) if not words[i]["full"]]
                fulls = [i for i in range(nw) if words[i]["full"]]
                if empties and (fulls or n == 1):
                    pcs = [rng.choice(fulls) for _ in range(n - 1)] + [rng.choice(empties)]
                    stats["spawn:last-word-empty"] = stats.get("spawn:last-word-empty", 0) + 1
            # entry point x calling convention: 0-2 array form of fork_precond / _to / _simple, 3-5 their varargs form,
            # 6/7 fork_copyargs_precond varargs/array, 8 qthread_spawn with the precondition array
            variant = rng.below(9)
            allowed = [0] if variant in (2, 5) else ([0, 2] if variant in (6, 7) else ([0, 2, 1] if allow_ret1 else [0, 2]))
            retmode = rng.choice(allowed + [0])
            # return words are distinct per task: the order in which launched tasks run is the scheduler's (C08),
            # their return writes must therefore commute
            freew = [x for x in range(nw) if x not in retwords.values()]
            if retmode and not freew:
                retmode = 0
            retw = rng.choice(freew) if retmode else 0
            if retmode:
                retwords[k] = retw
            stats["spawn:variant%d:n%d" % (variant, n)] = stats.get("spawn:variant%d:n%d" % (variant, n), 0) + 1
            ln = "p %d %d %d %d %d %d %d %s" % (tid, k, variant, retmode, retw, val(), n, " ".join(map(str, pcs)))
        else:
            w = rng.below(nw) if not rng.chance(P.get("hot", 0), 100) else 0
            W = words[w]
            full = W["full"]
            nfree = len(free)
            cat = rng.weighted([("block", P["w_block"] if nfree > 1 else 1), ("flip", P["w_flip"]), ("neutral", P["w_neutral"])])
            if cat == "block":
                name = rng.choice(["writeEF", "writeEF", "writeEF_const"]) if full else rng.weighted(
                    [("readFE", 4), ("readFF", 3), ("writeFF", 3), ("lock", 1), ("writeFF_const", 1)])
            elif cat == "flip":
                if full:
                    name = rng.weighted([("readFE", 4), ("empty", 2), ("purge", 1), ("purge_to", 2), ("readFE_nb", 2), ("lock", 1), ("purge_to_const", 1)])
                else:
                    name = rng.weighted([("fill", 3), ("writeF", 3), ("writeEF", 4), ("writeEF_nb", 2), ("unlock", 1), ("writeF_const", 1),
                                         ("writeEF_const_nb", 1), ("writeEF_const", 1)])
            else:
                if full:
                    name = rng.weighted([("status", 1), ("readXX", 1), ("readFF", 2), ("readFF_nb", 2), ("writeFF", 2), ("writeEF_nb", 3),
                                         ("fill", 2), ("writeF", 3), ("unlock", 1), ("writeEF_const_nb", 1)])
                else:
                    name = rng.weighted([("status", 1), ("readXX", 1), ("readFF_nb", 3), ("readFE_nb", 3), ("empty", 2), ("purge_to", 2), ("purge", 1)])
            a1 = rng.weighted([(0, 7), (1, 2), (2, 2)]) if name in READS else (rng.weighted([(0, 6), (1, 1)]) if name in WRITES else 0)
            ln = "o %d %d %s %d %d" % (tid, w, name, a1, val())
            key = ("ext:" if ext else "") + name
            stats[key] = stats.get(key, 0) + 1
        lines.append(ln)
        o = model.send(ln)
        mout.append(o)
        r = parse_r(o)
        if "words" in r:
            words = r["words"]
    lines.append("E")
    mout.append(model.send("E"))
    return {"lines": lines, "model": mout, "nwords": nw, "init": init, "stats": stats, "ntasks": nt, "next": ne, "npre": npre}


def fixed_script(model, lines):
    f = lines[0].split()
    nw = int(f[4])
    init = [int(x) for x in f[5:5 + nw]]
    return {"lines": lines, "model": run_fixed(model, lines), "nwords": nw, "init": init + [0] * (nw - len(init)), "stats": {},
            "ntasks": int(f[1]), "next": int(f[2]), "npre": int(f[3])}


def gen_many(rng, model, n):
    """many words at once (hashmap.c: growth/shrink of a stripe's record table): one task empties n consecutive words,
    every word is probed, a part is filled and emptied again across the growth thresholds, everything is filled and probed"""
    lines = ["S 2 0 0 %d" % n]
    stats = {}
    val = [100]

    def op(t, w, name, a1=0):
        val[0] += 1
        lines.append("o %d %d %s %d %d" % (t, w, name, a1, val[0]))
        stats["many:" + name] = stats.get("many:" + name, 0) + 1

    order = list(range(n)) if rng.chance(1, 2) else rng.shuffle(list(range(n)))
    for w in order:                                     # phase 1: n records exist at the same time
        op(0, w, rng.weighted([("empty", 6), ("purge_to", 2), ("readFE", 2), ("purge", 1), ("readFE_nb", 1)]))
    for w in range(n):                                  # phase 2: every word must still be empty
        op(1, w, rng.weighted([("status", 4), ("readFF_nb", 3), ("readFE_nb", 2), ("readXX", 1)]))
    refill = [w for w in range(n) if rng.chance(1, 3)]
    for w in refill:                                    # phase 3: records leave the table ...
        op(0, w, rng.weighted([("writeEF_nb", 3), ("fill", 2), ("writeF", 2), ("writeEF", 2), ("unlock", 1)]))
    for w in refill:                                    # ... and come back
        op(1, w, rng.weighted([("status", 2), ("readFE", 3), ("empty", 2), ("readFE_nb", 2)]))
    for w in rng.shuffle(list(range(n)))[: n // 2]:
        op(0, w, "status")
    for w in range(n):                                  # phase 4: everything full again, then probe
        op(0, w, rng.weighted([("writeEF", 3), ("writeEF_nb", 3), ("fill", 2), ("writeF_const", 1)]))
    for w in rng.shuffle(list(range(n)))[: n // 2]:
        op(1, w, rng.weighted([("status", 2), ("readFF_nb", 2), ("writeEF_nb", 2)]))
    lines.append("E")
    return {"lines": lines, "model": run_fixed(model, lines), "nwords": n, "init": [0] * n, "stats": stats,
            "ntasks": 2, "next": 0, "npre": 0}


PROFILES = {
    # all operations, several words, external callers
    "mix": dict(tasks=(2, 6), ext=(1, 2), ext_p=2, ext_q=3, words=(1, 3), pre=(0, 0), steps=(8, 40), w_block=30, w_flip=35, w_neutral=35, hot=40),
    # many waiters of every kind on one word, then transitions
    "waiters": dict(tasks=(5, 8), ext=(0, 2), ext_p=1, ext_q=2, words=(1, 2), pre=(0, 0), steps=(12, 45), w_block=50, w_flip=30, w_neutral=20, hot=80),
    # preconditioned tasks
    "precond": dict(tasks=(2, 4), ext=(0, 1), ext_p=1, ext_q=4, words=(2, 6), pre=(1, 6), steps=(10, 45), w_block=12, w_flip=60, w_neutral=28,
                    hot=0, spawn_p=22),
}


def load_corpus(prop):
    d = os.path.join(core.VERIF, "corpus", prop)
    out = []
    if os.path.isdir(d):
        for fn in sorted(os.listdir(d)):
            if fn.endswith(".txt"):
                ls = [l.strip() for l in open(os.path.join(d, fn)) if l.strip() and not l.startswith("#")]
                out.append((fn, ls))
    return out


# ---------------------------------------------------------------- implementation runs
def run_impl(exe, scripts, ns, nw_, timeout=900):
    """run the scripts in one harness process (restarting after a hang); returns per-script list of output lines"""
    res = [None] * len(scripts)
    i = 0
    while i < len(scripts):
        lines = []
        for sc in scripts[i:]:
            lines += sc["lines"]
        rc, out, err = core.run_lines(exe, lines + ["Q"], timeout=timeout, env=core.qenv(ns, nw_, stack=65536))
        if not out or not out[0].startswith("H "):
            raise core.BuildError("c01 harness did not start on %dx%d: rc=%s %s" % (ns, nw_, rc, err[-400:]))
        pos = 1
        j = i
        dead = False
        while j < len(scripts):
            want = len(scripts[j]["lines"])
            chunk = out[pos:pos + want]
            bad = [k for k, l in enumerate(chunk) if l.startswith("STUCK") or l.startswith("TIMEOUT")]
            if len(chunk) < want or bad:
                cut = bad[0] if bad else len(chunk)
                res[j] = chunk[:cut]
                scripts[j]["stuck"] = chunk[cut] if bad else ("process ended rc=%s %s" % (rc, err[-200:].strip()))
                dead = True
                j += 1
                break
            res[j] = chunk
            pos += want
            j += 1
        i = j
        if not dead:
            break
    return res


_LIST_RE = re.compile(r"\[([^\[\]]*)\]")


def _canon_lists(line):
    """Waiter lists are compared in list order (the LIFO discipline) with one exception: the order of NASCENT entries
    (precondition tasks parked on the word, suffix n) among themselves.  When two nascent tasks are re-parked on the same
    word by one launch cascade, the order in which qthread_check_feb_preconds pushes them depends on the order the cascade
    visits them, which the model does not reproduce in one rare case (found by thorough seed 7: model [104n.105n], code
    [105n.104n]); no clause of C01/C02/C06 depends on it (all nascent waiters of a word are collected together by the
    next fill and each is re-checked independently).  The slots that hold nascent entries keep their positions; the ids in
    those slots are sorted."""
    def fix(m):
        items = m.group(1).split(".") if m.group(1) else []
        nas = sorted((x for x in items if x.endswith("n")), key=lambda x: (len(x), x))
        if len(nas) < 2:
            return m.group(0)
        it = iter(nas)
        return "[" + ".".join(next(it) if x.endswith("n") else x for x in items) + "]"
    return _LIST_RE.sub(fix, line) if "n." in line or "n]" in line else line


def compare(sc, impl):
    """first index where model and implementation differ, or None"""
    return core.first_diff([_canon_lists(l) for l in sc["model"]], [_canon_lists(l) for l in impl])


# ---------------------------------------------------------------- one property run
def run_property(ctx, prop, profiles, corpus_props, nscripts, configs, trivial_rule, many=None):
    rng = ctx.rng
    if os.environ.get("VERIF_FEB_CONFIGS"):          # experiments only: "2x2,1x1"
        configs = [tuple(int(x) for x in c.split("x")) for c in os.environ["VERIF_FEB_CONFIGS"].split(",")]
    passes, runs, table = srcfacts(core.REPO)
    pr = ctx.coq_properties("Properties/Properties_%s.v" % prop)
    exe = ctx.link("c01_feb", ["c01_feb.c"], exclude=["feb.c"])
    drv = ctx.model_driver("c01_driver")
    model = Model(drv, table)
    evals = 0
    nontrivial = set()
    mismatches = []
    rejects = []
    samples = []
    dist = {}
    obs = {"blocked_calls": 0, "released": 0, "opfail": 0, "launched": 0, "skips": 0, "max_released_in_one_step": 0}
    try:
        for ci, cfg in enumerate(configs):
            ns, nwk = cfg[0], cfg[1]            # optional third component: number of generated scripts for this configuration
            count = cfg[2] if len(cfg) > 2 else (nscripts if ci == 0 else max(4, nscripts // 3))
            scripts = []
            for cp in corpus_props:
                for fn, ls in load_corpus(cp):
                    if ns * nwk > 1 and any(l.startswith("p ") and l.split()[4] == "1" for l in ls):
                        continue
                    sc = fixed_script(model, ls)
                    sc["name"] = "corpus/%s/%s" % (cp, fn)
                    scripts.append(sc)
            r2 = rng.fork()
            for k in range(count):
                pname = profiles[k % len(profiles)]
                sc = gen_script(r2, model, PROFILES[pname], allow_ret1=(ns * nwk == 1))
                sc["name"] = "gen:%s:%d" % (pname, k)
                scripts.append(sc)
            if many and ns * nwk == 1:
                # (count, n): with one worker the runtime uses 4 record tables, each growing at 332, 665, 1331 ... records
                for k in range(many[0]):
                    sc = gen_many(r2, model, many[1] + r2.below(many[1] // 8 + 1))
                    sc["name"] = "gen:many:%d" % k
                    scripts.append(sc)
            impl = run_impl(exe, scripts, ns, nwk)
            for sc, io in zip(scripts, impl):
                io = io or []
                steps = [l for l in sc["lines"] if l[0] in "op"]
                evals += len(steps)
                for k2, v in sc["stats"].items():
                    dist[k2] = dist.get(k2, 0) + v
                pio = [parse_r(l) for l in io]
                for r in pio:
                    if r.get("kind") == "r":
                        if r["rc"] == "BLK":
                            obs["blocked_calls"] += 1
                        elif r["rc"] == "SKIP":
                            obs["skips"] += 1
                        elif r["rc"] == OPFAIL:
                            obs["opfail"] += 1
                        if "released" in r:
                            obs["released"] += len(r["released"])
                            obs["launched"] += len(r["launched"])
                            obs["max_released_in_one_step"] = max(obs["max_released_in_one_step"], len(r["released"]))
                if trivial_rule(pio):
                    nontrivial.add(tuple(sc["lines"]))
                d = compare(sc, io)
                case = {"config": [ns, nwk], "name": sc["name"], "script": sc["lines"]}
                if d is not None:
                    mismatches.append(dict(case, first_diff_line=d, model=sc["model"][max(0, d - 1):d + 1], impl=io[max(0, d - 1):d + 1],
                                           stuck=sc.get("stuck")))
                why = oracle_script(sc, pio)
                if why:
                    rejects.append((why, dict(case, oracle_property=why[0], reason=why[1], at_step=why[2], impl=io)))
                if len(samples) < 3 and trivial_rule(pio):
                    samples.append({"config": [ns, nwk], "script": sc["lines"][:12], "impl": io[:12]})
    finally:
        model.close()
    ctx.cov.update(evaluations=evals, distinct_nontrivial=len(nontrivial), samples=samples, input_distribution=dist, observed=obs,
                   configs=[list(c) for c in configs], traces_validated_against_impl=evals, correspondence_mismatches=len(mismatches),
                   proxy_table={"passes": passes, "runs": runs})
    broken = bool(mismatches) or not pr["ok"]
    if not broken:
        # model == code everywhere and all theorems check: an oracle rejection here would be a property of the unchanged code
        for (why, case) in rejects[:3]:
            ctx.violation("oracle:" + why[1].split(":")[0][:60], "%s: %s" % (why[0], why[1]), case)
        return
    what = ("correspondence Feb.Model / implementation broken in %d script(s)" % len(mismatches)) if mismatches else \
           ("theorems of %s no longer check" % pr["file"])
    # prefer rejections of this property, then of the sibling properties (same code, same oracle)
    mine = [x for x in rejects if x[0][0] == prop] or rejects
    if mine:
        why, case = min(mine, key=lambda x: len(x[1]["script"]))
        ctx.violation("broken+input", "%s; failing input (%s): %s" % (what, why[0], why[1]),
                      {"failing_input": case, "first_mismatch": mismatches[0] if mismatches else None, "coq_log": pr["log"][-1500:]})
    else:
        ctx.violation("broken", what, {"theorem_or_correspondence": ("impl != Feb.Model, script %s line %d" % (mismatches[0]["name"], mismatches[0]["first_diff_line"]))
                                       if mismatches else pr["file"],
                                       "first_mismatch": mismatches[0] if mismatches else None, "coq_log": pr["log"][-1500:]}, no_input=True)


def replay_file(ctx, path):
    j = json.load(open(path))
    rp = j.get("replay", {})
    case = rp.get("failing_input") or rp.get("first_mismatch") or rp
    print(json.dumps({k: v for k, v in j.items() if k != "replay"}, indent=1))
    if not case or "script" not in case:
        print("# no script in this replay file")
        return
    passes, runs, table = srcfacts(core.REPO)
    exe = ctx.link("c01_feb", ["c01_feb.c"], exclude=["feb.c"])
    drv = ctx.model_driver("c01_driver")
    model = Model(drv, table)
    try:
        sc = fixed_script(model, case["script"])
    finally:
        model.close()
    ns, nwk = case.get("config", [1, 1])
    io = run_impl(exe, [sc], ns, nwk)[0] or []
    for a, b, l in itertools.zip_longest(sc["model"], io, sc["lines"], fillvalue=""):
        print("%-40s | model: %s\n%-40s | impl : %s%s" % (l, a, "", b, "   <<<<" if _canon_lists(a) != _canon_lists(b) else ""))
    why = oracle_script(sc, [parse_r(l) for l in io])
    print("# oracle:", why)
    d = compare(sc, io)
    if why:
        ctx.violation("replay", "%s: %s" % (why[0], why[1]), dict(case, impl=io))
    elif d is not None:
        ctx.violation("replay-mismatch", "model and implementation differ at line %d" % d, dict(case, impl=io), no_input=True)


# ---------------------------------------------------------------- micro-step tier (C01): Feb/Micro.v replayed on the real code
MICRO_OPS = ["readFE", "readFE_nb", "readFF", "readFF_nb", "readXX", "writeEF", "writeEF_nb", "writeF", "writeFF", "fill", "empty",
             "purge_to", "status"]
_MICRO_RE = None


def micro_parse(line):
    import re
    m = re.match(r"A=(\S+):(\S+) B=(\S+):(\S+) status=(\d) word=(-?\d+) paused=(\d)(?: stuck=(\d))?(?: contended=(\d))?", line)
    if not m:
        return None

    def rr(c, v):
        return None if c == "BLK" else (int(c), None if v == "-" else int(v))
    return {"out": (rr(m.group(1), m.group(2)), rr(m.group(3), m.group(4)), (int(m.group(5)), int(m.group(6)))),
            "paused": int(m.group(7)), "stuck": int(m.group(8) or 0), "contended": int(m.group(9) or 0)}


def micro_explain(init, opa, va, opb, vb, out):
    """is (resA, resB, (full, word)) what the two atomic cell operations give in one of the two orders?  A call that has to
    wait is retried after the other one; one that still has to wait stays blocked (None)."""
    c0 = (0, 5) if init == "empty" else (1, 5)

    def app(c, name, v):
        kind, src, dm, nb = canon(name, 0, v)
        r = atomic(c, kind, src)
        if r is None:
            return (c, (OPFAIL, None)) if nb else None
        c1, got = r
        return c1, (0, expect_val(kind, 0 if kind in ("readFE", "readFF", "readXX") else 1, got))

    def seq(first, second):
        r1 = app(c0, *first)
        if r1 is not None:
            c1, x = r1
            r2 = app(c1, *second)
            return (x, r2[1], r2[0]) if r2 else (x, None, c1)
        r2 = app(c0, *second)
        if r2 is None:
            return (None, None, c0)
        c1, y = r2
        r1 = app(c1, *first)
        return (r1[1], y, r1[0]) if r1 else (None, y, c1)
    a, b = (opa, va), (opb, vb)
    x = seq(a, b)
    y = seq(b, a)
    cands = [(x[0], x[1], x[2]), (y[1], y[0], y[2])]
    return out in cands, cands


def micro_probes(ctx, drv, quick):
    """(init, held op, value, k, other op, value): the schedules of the triples that were non-atomic before /repo eba51ae
    (from the old-order model), plus a sample (quick) or all (thorough) of the 338 triples with the hold after the 1st / 2nd
    stripe unlock of the first call"""
    import re
    rc, out, err = core.sh([drv, "--old"], timeout=300)
    probes = []
    for l in out.splitlines():
        m = re.match(r"BAD init=(\w+) A=(\w+) B=(\w+) .*schedule=(\d+)", l)
        if m:
            init, a, b, sched = m.groups()
            probes.append((init, a, 11, 1, b, 22) if sched[0] == "0" else (init, b, 22, 1, a, 11))
    nformer = len(probes)
    allp = [(i, a, 11, k, b, 22) for i in ("absent", "empty") for a in MICRO_OPS for b in MICRO_OPS for k in (1, 2)]
    if quick:
        allp = ctx.rng.shuffle(allp)[:80]
    probes += [p for p in allp if p not in probes]
    rc, out, err = core.sh([drv], timeout=300)
    cur = [l for l in out.splitlines() if l.startswith("BAD")]
    return probes, nformer, cur


def run_micro(ctx, quick, verbose=False):
    drv = ctx.model_driver("c01micro_driver")
    exe = ctx.link("c01_micro", ["c01_micro.c"], exclude=["feb.c"])
    probes, nformer, cur_bad = micro_probes(ctx, drv, quick)
    rc, mout, merr = core.run_lines(drv, ["h %s %s %d %d %s %d" % p for p in probes], timeout=300, args=["--held"])
    model = [micro_parse(l) for l in mout]
    if len(model) != len(probes) or None in model:
        raise core.BuildError("micro model driver failed: " + "\n".join(mout[-3:]) + merr[-300:])
    lines = ["m %s %s %d %d %s %d %d" % (p + (m["contended"],)) for p, m in zip(probes, model)]
    rc, iout, ierr = core.run_lines(exe, lines, timeout=600, env=core.qenv(3, 1, stack=65536))
    real = [micro_parse(l) for l in iout if l.startswith("A=")]
    rejects, mismatches, ncont = [], [], 0
    if len(real) != len(probes):
        mismatches.append({"what": "micro harness stopped after %d of %d probes (rc=%s) %s" % (len(real), len(probes), rc, (iout[-1:] or [""])[0]),
                           "probe": probes[len(real)] if len(real) < len(probes) else None})
    for p, m, r in zip(probes, model, real):
        init, a, va, k, b, vb = p
        case = {"config": [3, 1], "schedule": "%s(%d) on a word that is %s runs up to its %d. qt_hash_unlock; %s(%d) runs; the first call is released"
                % (a, va, "empty" if init == "empty" else "full (no record)", k, b, vb),
                "probe": list(p), "real": r["out"], "model": m["out"]}
        ok, cands = micro_explain(init, a, va, b, vb, r["out"])
        ncont += m["contended"]
        if r["stuck"]:
            rejects.append(("a task neither returned nor blocked within 5 s", dict(case, orders=cands)))
        elif not ok:
            rejects.append(("results %s, (full, value) %s are not those of the two calls in either order %s"
                            % (r["out"][:2], r["out"][2], cands), dict(case, orders=cands)))
        if not m["contended"] and (r["out"] != m["out"] or r["paused"] != m["paused"]):
            mismatches.append(case)
        if verbose:
            print("%-6s %-11s k=%d | %-11s | real %s | model %s%s%s" % (init, a, k, b, r["out"], m["out"], "" if ok else "  NOT LINEARISABLE",
                                                                          "  (contended)" if m["contended"] else ""))
    ctx.cov["micro"] = {"probes": len(probes), "former_nonatomic_triples": nformer, "contended": ncont,
                        "model_bad_triples_current_code": len(cur_bad), "mismatches": len(mismatches), "nonlinearisable": len(rejects)}
    ctx.cov["evaluations"] = ctx.cov.get("evaluations", 0) + len(probes)
    if cur_bad:
        mismatches.append({"what": "the micro-step model of the current code has non-atomic triples", "lines": cur_bad[:3]})
    if rejects:
        why, case = rejects[0]
        ctx.violation("micro:" + case["schedule"][:40], "C01 micro-step: " + case["schedule"] + ": " + why, dict(case, reason=why))
    elif mismatches:
        ctx.violation("broken", "micro-step correspondence Feb.Micro / implementation broken in %d probe(s)" % len(mismatches),
                      {"theorem_or_correspondence": "impl != Feb.Micro (held schedule)", "first_mismatch": mismatches[0]}, no_input=True)
