"""qt_hash (src/hashmap.c), the record table behind FEB words (C01) and syncvars (C03), inside the model.

Coq: coq/theories/Hashmap/{Model,Proofs*}.v, theorems in Properties/Properties_Hashmap.v.
Tie (mode M1, white-box): harness/c/hashmap_m1.c includes the working tree's hashmap.c and prints, after every
operation, the return value and the complete internal state (mask, num_entries, population, deletes, the three
thresholds, the reserved-key cells, a checksum over every (index, key, value), and the whole entry array in
index order at dump points / after every operation on the small configurations); ocaml/hashmap_driver.ml prints
the same from the extracted model.  Exact comparison.  qt_hash needs no live runtime: it reads two machine
parameters (cache line -> bucket size, page size -> minimum table size) that the harness sets per script, so
that the small-table configurations cross every threshold within a few hundred operations; needSync tables use
the table's own fastlock (no runtime needed either).

On disagreement an independent finite-map oracle (a Python dict) decides whether the IMPLEMENTATION's observed
return values violate map semantics (-> failing input) or only the layout differs (-> no-failing-input-found).
"""
import json
import os
import subprocess

from .. import core
from . import _gen

M64 = (1 << 64) - 1
# (cache line, page size): bucket size = line/16, min_entries = page/8
CONFIGS = [(64, 4096), (64, 64), (32, 128), (16, 64), (128, 1024), (64, 256)]
SIG_SEM = "hashmap-map-semantics"
SIG_SPECIAL = "hashmap-reserved-key-rehash-loss"
SIG_EXISTING = "hashmap-put-existing-key-duplicate"


# ---------------------------------------------------------------- generator aiming only (never used for checking)
def qt_hash64(key):
    g = 0x9e3779b97f4a7c13
    a = (g + key + (0xFFFFFFFF00000000 if key & (1 << 31) else 0)) & M64
    b = g
    c = (0xdeadbeefcafebabe + 8) & M64

    def mr(x, y, z, k):
        return ((x - y - z) & M64) ^ (z >> k)

    def ml(x, y, z, k):
        return ((x - y - z) & M64) ^ ((z << k) & M64)
    a = mr(a, b, c, 43); b = ml(b, c, a, 9); c = mr(c, a, b, 8)
    a = mr(a, b, c, 38); b = ml(b, c, a, 23); c = mr(c, a, b, 5)
    a = mr(a, b, c, 35); b = ml(b, c, a, 49); c = mr(c, a, b, 11)
    a = mr(a, b, c, 12); b = ml(b, c, a, 18); c = mr(c, a, b, 22)
    return c


def grow_of(n):
    return max(0, (10905190 * n) // 16777216 - 1)


def tidy_of(n):
    return max(0, (13421773 * n) // 16777216 - 1)


def n0_of(cfg):
    me = cfg[1] // 8
    e = 100 if 100 % me == 0 else 100 + (me - 100 % me)
    z = 1
    while z < e:
        z <<= 1
    return z


class Keys:
    """fresh regular keys: word addresses, some with bit 31 set (the sign-extended byte of qt_hash64), some huge"""

    def __init__(self, rng):
        self.rng = rng
        self.used = set()

    def fresh(self):
        r = self.rng
        while True:
            c = r.below(10)
            if c < 6:
                k = 0x7f0000000000 + 8 * r.below(1 << 24)
            elif c < 8:
                k = (r.below(1 << 16) << 32) | (1 << 31) | (8 * r.below(1 << 20))
            elif c == 8:
                k = r.range(2, 4096)
            else:
                k = r.below(1 << 64)
            if k >= 2 and k not in self.used:
                self.used.add(k)
                return k

    def colliding(self, nmax, bs, count, same_step=False):
        """`count` fresh keys with the same home bucket in every table of at most nmax entries"""
        msk = (nmax - 1) & ~(bs - 1)
        smsk = msk & (32 * bs - 1)             # same first steps in tables of at most 32 buckets (pure-Python search: keep it cheap)
        want = None
        out = []
        tries = 0
        while len(out) < count and tries < 400000:
            tries += 1
            k = 0x7f0000000000 + 8 * self.rng.below(1 << 30)
            if k in self.used:
                continue
            h = qt_hash64(k)
            sig = (h & msk, (((h >> 16) | (h << 16)) & smsk) if same_step else 0)
            if want is None:
                want = sig
            if sig == want:
                self.used.add(k)
                out.append(k)
        return out


class Steer:
    """the extracted model answering line by line: lets a profile aim at a state (generated against the model)"""

    def __init__(self, drv):
        self.p = subprocess.Popen([drv, "-i"], stdin=subprocess.PIPE, stdout=subprocess.PIPE, universal_newlines=True, bufsize=1)

    def cmd(self, line):
        self.p.stdin.write(line + "\n")
        self.p.stdin.flush()
        return parse_state(self.p.stdout.readline())

    def query(self, k):
        """where a put of k would land: N never-used slot, D deleted slot, C/R present, X nowhere"""
        self.p.stdin.write("q %d\n" % k)
        self.p.stdin.flush()
        return self.p.stdout.readline().split()[-1]

    def close(self):
        try:
            self.p.stdin.close()
            self.p.wait(timeout=10)
        except Exception:
            self.p.kill()


def parse_state(line):
    """'<ret...> | H mask nent pop dels grow shrink tidy has0 has1 val0 val1 C cs [E ...]' -> dict (None if no state)"""
    if " | H " not in line:
        return None
    ret, st = line.split(" | H ", 1)
    f = st.split()
    try:
        return {"ret": ret, "mask": int(f[0]), "nent": int(f[1]), "pop": int(f[2]), "dels": int(f[3]), "grow": int(f[4]),
                "shrink": int(f[5]), "tidy": int(f[6]), "has": (int(f[7]), int(f[8]))}
    except (ValueError, IndexError):
        return None


class Script:
    def __init__(self, rng, cfg, profile, sync=None, dump=None):
        self.rng = rng
        self.cfg = cfg
        self.profile = profile
        self.keys = Keys(rng)
        self.live = {}           # generator's own expectation, for choosing operations only
        dump = (1 if cfg[1] <= 256 and rng.chance(1, 5) else 0) if dump is None else dump
        self.lines = ["N %d %d %d %d" % (cfg[0], cfg[1], rng.below(2) if sync is None else sync, dump)]
        self.val = 1000

    def v(self):
        self.val += 1 + self.rng.below(3)
        return self.val

    def op(self, c, *a):
        if self.rng.chance(1, 4) and c in "pgr":
            c = c.upper()                       # the *_locked entry point between qt_hash_lock / qt_hash_unlock
        self.lines.append(" ".join([c] + [str(x) for x in a]))

    def put(self, k, track=True):
        v = self.v()
        self.op("p", k, v)
        if track and k not in self.live:
            self.live[k] = v

    def rem(self, k):
        self.op("r", k)
        self.live.pop(k, None)

    def get(self, k):
        self.op("g", k)

    def sprinkle(self):
        r = self.rng
        if r.chance(1, 12):
            if self.live and r.chance(2, 3):
                self.get(r.choice(sorted(self.live)[:64] if len(self.live) > 64 else sorted(self.live)))
            else:
                self.get(self.keys.fresh())
        if r.chance(1, 25):
            self.lines.append("c")
        if r.chance(1, 120):
            self.lines.append("b")

    def finish(self):
        self.lines += ["c", "d", "b"]
        for k in self.rng.shuffle(sorted(self.live))[:40]:
            self.lines.append("g %d" % k)
        self.lines.append("D" if self.rng.chance(1, 2) else "c")
        return self.lines


def prof_cycles(s, quick):
    """cross the grow thresholds upward, empty the table (shrink where the stale shrink_size is non-zero), refill"""
    r = s.rng
    n0 = n0_of(s.cfg)
    big = s.cfg[1] >= 1024
    levels = r.range(1, 2) if big else r.range(1, 3)
    if big and not quick and r.chance(1, 3):
        levels = 3
    for rnd in range(r.range(2, 3) if not big else r.range(1, 2)):
        target = grow_of(n0 << (levels - 1)) + r.range(1, 6)
        while len(s.live) < target:
            s.put(s.keys.fresh())
            s.sprinkle()
        order = r.shuffle(sorted(s.live))
        keep = r.choice([0, 0, 1, 2, 3, 5])
        for k in order[:len(order) - keep]:
            s.rem(k)
            s.sprinkle()
        levels = r.range(1, levels)
    return s.finish()


def prof_churn(s, quick, drv):
    """steered by the model: hold the population under the grow threshold and churn with keys that land on never-used
    slots: pop + deletes climbs to the tidy-up threshold (rehash at the same size, from put or from remove)"""
    r = s.rng
    m = Steer(drv)
    try:
        def do(line):
            s.lines.append(line)
            return m.cmd(line)
        st = m.cmd(s.lines[0])
        base = max(1, st["grow"] - r.range(1, max(2, st["grow"] // 3)))
        while len(s.live) < base:
            k = s.keys.fresh(); v = s.v(); st = do("p %d %d" % (k, v)); s.live[k] = v
        want = r.range(1, 3)
        seen = 0
        put_first = r.chance(1, 2)
        for i in range(900 if quick else 3000):
            if r.chance(1, 40):
                put_first = not put_first
            for ph in (0, 1):
                if (ph == 0) == put_first:
                    if st["pop"] < st["grow"] - 1:
                        k = s.keys.fresh()
                        for _ in range(6):
                            if m.query(k) == "N" or r.chance(1, 5):
                                break
                            k = s.keys.fresh()
                        v = s.v(); st0 = st; st = do("p %d %d" % (k, v)); s.live[k] = v
                        if st0["dels"] > 1 and st["dels"] == 0:
                            seen += 1
                elif s.live:
                    k = r.choice(sorted(s.live)); st0 = st; st = do("r %d" % k); s.live.pop(k, None)
                    if st["dels"] == 0:
                        seen += 1
                    elif r.chance(1, 4):
                        v = s.v(); st = do("p %d %d" % (k, v)); s.live[k] = v      # remove-then-reinsert of the same key
            if r.chance(1, 15):
                s.lines.append("g %d" % (r.choice(sorted(s.live)) if s.live and r.chance(2, 3) else s.keys.fresh()))
            if seen >= want:
                break
    finally:
        m.close()
    return s.finish()


def prof_chain(s, quick):
    """keys with one home bucket: long probe chains, holes in the middle, reinsertion"""
    r = s.rng
    bs = s.cfg[0] // 16
    nmax = n0_of(s.cfg) * (2 if r.chance(1, 2) else 1)
    pools = [s.keys.colliding(nmax, bs, r.range(2 * bs + 1, 6 * bs + 2), same_step=r.chance(1, 2)) for _ in range(r.range(1, 3))]
    allk = [k for p in pools for k in p]
    for _ in range(r.below(30)):
        s.put(s.keys.fresh())
    for k in r.shuffle(allk):
        s.put(k)
    for rnd in range(r.range(3, 12)):
        some = r.shuffle(allk)[:r.range(1, len(allk))]
        for k in some:
            if k in s.live:
                s.rem(k)
        for k in r.shuffle(allk):
            s.get(k)
        for k in r.shuffle(some)[:r.range(0, len(some))]:
            if k not in s.live:
                s.put(k)
        if r.chance(1, 2):
            s.put(s.keys.fresh())
        if r.chance(1, 3):
            s.lines.append("d")
    for k in allk:
        s.get(k)
    return s.finish()


def prof_pile(s, quick, drv):
    """steered by the model: pile up DELETED slots until pop + deletes = tidy_up_size, refill DELETED slots (keys chosen
    so that they land on one) until the population has passed grow_size without growing, then remove: the same-size
    rehash has to grow the new table while it is filling it (put -> brehash inside brehash)"""
    r = s.rng
    m = Steer(drv)
    try:
        def do(line):
            s.lines.append(line)
            return m.cmd(line)

        def put_landing(kind, tries=60):
            for _ in range(tries):
                k = s.keys.fresh()
                if m.query(k) == kind:
                    break
            v = s.v(); s.live[k] = v
            return do("p %d %d" % (k, v))
        st = m.cmd(s.lines[0])
        n_start = st["nent"]
        lowpop = r.range(max(1, st["grow"] // 4), st["grow"] - 2)
        while st["pop"] < st["grow"] - 1:
            k = s.keys.fresh(); v = s.v(); st = do("p %d %d" % (k, v)); s.live[k] = v
        guard = 0
        # raise pop + dels to tidy - 1 (removes do not change the sum; puts on never-used slots raise it)
        while st["nent"] == n_start and st["pop"] + st["dels"] < st["tidy"] - 1 and guard < 3000:
            guard += 1
            if st["pop"] >= st["grow"] - 1 or (st["pop"] > lowpop and r.chance(2, 3)):
                k = r.choice(sorted(s.live)); st = do("r %d" % k); s.live.pop(k, None)
            else:
                st = put_landing("N")
        while st["nent"] == n_start and st["pop"] > lowpop and s.live:
            k = r.choice(sorted(s.live)); st = do("r %d" % k); s.live.pop(k, None)
        if r.chance(1, 3):
            # put-side tidy-up instead: three puts in a row on never-used slots take the sum past tidy_up_size
            for _ in range(r.range(3, 5)):
                if st["pop"] < st["grow"] - 1:
                    st = put_landing("N")
        top = r.range(0, 2)                     # final sum: tidy - 1 + top
        for _ in range(top):
            if st["pop"] < st["grow"] and st["nent"] == n_start:
                st = put_landing("N")
        extra = r.range(0, max(1, st["tidy"] - st["grow"] - 2))
        while st["nent"] == n_start and st["dels"] > 0 and st["pop"] < st["grow"] + extra and guard < 6000:
            guard += 1
            st = put_landing("D")
        for _ in range(r.range(1, 4)):
            if s.live:
                k = r.choice(sorted(s.live)); st = do("r %d" % k); s.live.pop(k, None)
        for k in r.shuffle(sorted(s.live))[:30]:
            s.lines.append("g %d" % k)
        for _ in range(r.range(0, 30)):
            k = s.keys.fresh(); v = s.v(); st = do("p %d %d" % (k, v)); s.live[k] = v
    finally:
        m.close()
    return s.finish()


def prof_special(s, quick):
    """the two reserved key values 0 and 1 (side cells), alone and across a rehash"""
    r = s.rng
    n0 = n0_of(s.cfg)
    for _ in range(r.range(4, 14)):
        k = r.below(2)
        c = r.below(3)
        if c == 0:
            s.put(k, track=False)
        elif c == 1:
            s.op("r", k)
        else:
            s.get(k)
        s.lines.append("c")
    if r.chance(2, 3):
        # across a growth
        for k in range(2):
            if r.chance(2, 3):
                s.put(k, track=False)
        target = grow_of(n0) + r.range(1, 4)
        while len(s.live) < target:
            s.put(s.keys.fresh())
        s.lines += ["c", "b"]
        for k in sorted(s.live)[:50]:
            s.get(k)
    for k in range(2):
        s.get(k)
    return s.finish()


def prof_existing(s, quick):
    """puts of keys that are present: PUT_COLLISION in the home bucket, value replaced further down the chain"""
    r = s.rng
    bs = s.cfg[0] // 16
    pool = s.keys.colliding(n0_of(s.cfg), bs, r.range(bs + 1, 4 * bs))
    for k in pool:
        s.put(k)
    for _ in range(r.range(5, 40)):
        k = r.choice(pool)
        c = r.below(4)
        if c <= 1:
            s.put(k)
            s.get(k)
        elif c == 2:
            s.rem(k)
            s.get(k)
        else:
            s.get(k)
        if r.chance(1, 5):
            s.lines.append("c")
    return s.finish()


def prof_random(s, quick):
    r = s.rng
    uni = [s.keys.fresh() for _ in range(r.range(3, 200))]
    for _ in range(r.range(50, 600)):
        k = r.choice(uni)
        c = r.below(10)
        if c < 4:
            if k not in s.live:
                s.put(k)
            else:
                s.get(k)
        elif c < 8:
            s.rem(k)
        else:
            s.get(k)
        s.sprinkle()
    return s.finish()


PROFILES = [("cycles", 5), ("churn", 4), ("chain", 4), ("pile", 3), ("random", 2), ("special", 2), ("existing", 2)]


def gen_script(rng, quick, drv):
    prof = rng.weighted(PROFILES)
    if prof in ("cycles", "churn"):
        cfg = rng.weighted([(CONFIGS[0], 2), (CONFIGS[1], 4), (CONFIGS[2], 3), (CONFIGS[3], 3), (CONFIGS[4], 1), (CONFIGS[5], 2)])
    elif prof == "pile":
        cfg = rng.weighted([(CONFIGS[0], 1), (CONFIGS[1], 4), (CONFIGS[2], 3), (CONFIGS[3], 3), (CONFIGS[5], 2)])
    else:
        cfg = rng.choice(CONFIGS)
    s = Script(rng.fork(), cfg, prof)
    if prof in ("pile", "churn"):
        lines = (prof_pile if prof == "pile" else prof_churn)(s, quick, drv)
    else:
        lines = {"cycles": prof_cycles, "chain": prof_chain, "special": prof_special,
                 "existing": prof_existing, "random": prof_random}[prof](s, quick)
    return {"profile": prof, "cfg": list(cfg), "lines": lines}


# ---------------------------------------------------------------- independent finite-map oracle
def oracle(lines, outs):
    """dict semantics on the observed RETURN values only.  None if accepted, else (line index, why)."""
    d = {}
    for i, ln in enumerate(lines):
        f = ln.split()
        c = f[0].lower() if f[0] in "pPgGrR" else f[0]
        if i >= len(outs):
            return (i, "no answer (the run stopped: crash or watchdog)")
        o = outs[i]
        if o in ("TIMEOUT", "ERR", ""):
            return (i, "answer %r" % o)
        ret = o.split(" | ")[0].split()
        if c == "N":
            d = {}
        elif c == "p":
            k, v = int(f[1]), int(f[2])
            if k in d:
                if ret == ["1"]:
                    d[k] = v
                elif ret != ["0"]:
                    return (i, "put of a present key returned %s" % " ".join(ret))
            else:
                if ret != ["1"]:
                    return (i, "put of an absent key returned %s (expected 1)" % " ".join(ret))
                d[k] = v
        elif c == "g":
            k = int(f[1])
            if ret != [str(d.get(k, 0))]:
                return (i, "get(%d) returned %s, the latest binding is %s" % (k, " ".join(ret), d.get(k, "none (0)")))
        elif c == "r":
            k = int(f[1])
            exp = "1" if k in d else "0"
            if ret != [exp]:
                return (i, "remove(%d) returned %s, expected %s" % (k, " ".join(ret), exp))
            d.pop(k, None)
        elif c == "c":
            if ret != [str(len(d))]:
                return (i, "count returned %s, %d keys are bound" % (" ".join(ret), len(d)))
        elif c in ("b", "D"):
            got = sorted(ret[1:])
            exp = sorted("%d:%d" % kv for kv in d.items()) if c == "b" else sorted(str(v) for v in d.values())
            if got != exp:
                return (i, "%s visited %d bindings, %d are bound (first difference: %s)" % (
                    "callback" if c == "b" else "destroy_deallocate", len(got), len(exp),
                    sorted(set(got) ^ set(exp))[:3]))
            if c == "D":
                d = {}
    return None


def latent_class(lines, upto):
    """class of a script on which model == implementation and the oracle rejects both"""
    present = set()
    special = existing = False
    for ln in lines[:upto + 1]:
        f = ln.split()
        c = f[0].lower()
        if c == "p":
            k = int(f[1])
            if k < 2:
                special = True
            elif k in present:
                existing = True
            present.add(k)
        elif c == "r":
            present.discard(int(f[1]))
    return SIG_EXISTING if existing else SIG_SPECIAL if special else SIG_SEM


# ---------------------------------------------------------------- running
def run_batch(exe, scripts, timeout, env=None):
    lines = [ln for sc in scripts for ln in sc["lines"]]
    rc, out, err = core.run_lines(exe, lines, timeout=timeout, env=env)
    res = []
    pos = 0
    for sc in scripts:
        n = len(sc["lines"])
        res.append(out[pos:pos + n])
        pos += n
    return rc, res, err


def events(lines, outs, ev):
    prev = None
    for ln, o in zip(lines, outs):
        st = parse_state(o)
        c = ln[0].lower()
        if st and prev and c in "pr":
            if c == "p":
                if st["nent"] > prev["nent"]:
                    ev["grow"] += 1
                elif prev["dels"] > 0 and st["dels"] == 0 and st["pop"] == prev["pop"] + 1 and st["nent"] == prev["nent"] and prev["dels"] > 1:
                    ev["tidy_in_put"] += 1
                elif st["dels"] == prev["dels"] - 1 and st["pop"] == prev["pop"] + 1:
                    ev["put_into_deleted"] += 1
                    if st["pop"] > st["grow"]:
                        ev["pop_above_grow"] += 1
                elif st["ret"] == "0" and int(ln.split()[1]) >= 2:
                    ev["put_collision"] += 1
                elif st["ret"] == "1" and st["pop"] == prev["pop"] and int(ln.split()[1]) >= 2:
                    ev["put_replace"] += 1
            else:
                if st["ret"] == "1" and int(ln.split()[1]) >= 2:
                    if st["nent"] > prev["nent"]:
                        ev["nested_grow_in_tidy"] += 1
                    elif st["nent"] < prev["nent"]:
                        ev["shrink"] += 1
                    elif st["dels"] == 0 and prev["dels"] + 1 >= 1 and prev["pop"] + prev["dels"] >= prev["tidy"]:
                        ev["tidy_in_remove"] += 1
                    elif st["dels"] == 0 and st["pop"] < st["shrink"]:
                        ev["shrink_at_min_size"] += 1
        if st:
            prev = st
        if ln[0] == "N":
            prev = st


def load_corpus():
    d = os.path.join(core.VERIF, "corpus", "Hashmap")
    out = []
    if os.path.isdir(d):
        for fn in sorted(os.listdir(d)):
            if fn.endswith(".txt"):
                lines = [l.strip() for l in open(os.path.join(d, fn)) if l.strip() and not l.startswith("#")]
                if lines and lines[0].startswith("N "):
                    f = lines[0].split()
                    out.append({"profile": "corpus:" + fn, "cfg": [int(f[1]), int(f[2])], "lines": lines})
    return out


def minimise(exe, sc, budget=60):
    head, body = sc["lines"][0], sc["lines"][1:]

    def fails(sub):
        rc, outs, err = core.run_lines(exe, [head] + sub, timeout=120)
        return oracle([head] + sub, outs) is not None
    try:
        small = core.ddmin(body, fails, budget=budget)
    except Exception:
        small = body
    return [head] + small


def run_tier(ctx, quick):
    _gen.regen(ctx, ["Hash", "Hashmap"], group="Hashmap")      # Gen/Hash.v, Gen/Hashmap.v regenerated + Properties_Gen_Hashmap.v (tools/ctrans.py)
    pr = ctx.coq_properties("Properties/Properties_Hashmap.v")
    ok, log = ctx.coq_make(["theories/Hashmap/Extract.vo"])
    if not ok:
        raise core.BuildError("Hashmap/Extract.v does not compile:\n" + log[-2000:])
    exe = ctx.link("hashmap_m1", ["hashmap_m1.c"], exclude=["hashmap.c"])
    drv = ctx.model_driver("hashmap_driver")
    rng = ctx.rng.fork()

    # machine parameters + the hash function itself
    probe = ["I"] + ["h %d" % k for k in [0, 1, 2, 3, 1 << 31, (1 << 31) + 5, (1 << 32) - 1, (1 << 40) + (1 << 31), M64, 1 << 63]
                     + [rng.below(1 << 64) for _ in range(200)]]
    rc, io, err = core.run_lines(exe, probe, timeout=60)
    rc2, mo, err2 = core.run_lines(drv, probe, timeout=60)
    hash_ok = rc == 0 and rc2 == 0 and io[1:] == mo[1:] and all(o == "h %d" % qt_hash64(int(l.split()[1])) for l, o in zip(probe[1:], io[1:]))
    machine = io[0].split()[1:] if io else []

    scripts = load_corpus()
    ncorpus = len(scripts)
    nscripts = 40 if quick else 700
    for _ in range(nscripts):
        scripts.append(gen_script(rng, quick, drv))
    tmo = 300 if quick else 1200
    # implementation in one process, the (slower: binary-number arithmetic) extracted model in three, side by side
    from concurrent.futures import ThreadPoolExecutor
    order = sorted(range(len(scripts)), key=lambda i: -len(scripts[i]["lines"]))
    parts = [[i for j, i in enumerate(order) if j % 3 == p] for p in range(3)]
    with ThreadPoolExecutor(max_workers=4) as ex:
        fi = ex.submit(run_batch, exe, scripts, tmo)
        fm = [ex.submit(run_batch, drv, [scripts[i] for i in part], tmo) for part in parts]
        rc_i, impl, err_i = fi.result()
        model = [None] * len(scripts)
        for part, f in zip(parts, fm):
            rc_m, res, err_m = f.result()
            if rc_m != 0:
                raise core.BuildError("model driver failed: rc=%s %s" % (rc_m, err_m[-500:]))
            for i, r in zip(part, res):
                model[i] = r

    ev = {k: 0 for k in ("grow", "shrink", "shrink_at_min_size", "tidy_in_put", "tidy_in_remove", "nested_grow_in_tidy",
                         "put_into_deleted", "pop_above_grow", "put_collision", "put_replace")}
    mismatches = []
    latent = {}
    nops = 0
    nontrivial = 0
    for sc, il, ml in zip(scripts, impl, model):
        nops += len(sc["lines"])
        before = dict(ev)
        events(sc["lines"], ml, ev)
        if any(ev[k] > before[k] for k in ("grow", "shrink", "tidy_in_put", "tidy_in_remove", "nested_grow_in_tidy", "shrink_at_min_size")):
            nontrivial += 1
        k = core.first_diff(il, ml)
        if k is not None:
            mismatches.append((sc, il, ml, k))
        else:
            rej = oracle(sc["lines"], ml)
            if rej:
                sig = latent_class(sc["lines"], rej[0])
                latent.setdefault(sig, []).append((sc, rej))

    cov = {
        "coq": {"file": pr["file"], "ok": pr["ok"], "theorems": len(pr["theorems"])},
        "mode": "M1 white-box (hashmap.c included by harness/c/hashmap_m1.c), exact comparison of return value + full internal state after every operation",
        "machine_line_page": machine, "hash_function_agrees_on": len(probe) - 1 if hash_ok else 0,
        "configs_line_page": [list(c) for c in CONFIGS],
        "scripts": len(scripts), "corpus_scripts": ncorpus, "operations": nops,
        "scripts_crossing_a_rehash": nontrivial, "events_in_model_runs": ev,
        "profiles": {p: sum(1 for s in scripts if s["profile"] == p) for p in sorted(set(s["profile"] for s in scripts))},
        "mismatching_scripts": len(mismatches),
        "latent_classes_reproduced (model == implementation, dict oracle rejects; outside the keys C01/C03 use)":
            {k: len(v) for k, v in latent.items()},
    }
    ctx.cov["hashmap"] = cov
    ctx.cov["evaluations"] = ctx.cov.get("evaluations", 0) + nops
    ctx.cov["traces_validated_against_impl"] = ctx.cov.get("traces_validated_against_impl", 0) + len(scripts) - len(mismatches)
    ctx.assumptions.append("hashmap: the record table is exercised sequentially (its callers hold the table lock or the stripe lock around "
                           "every call; need_sync tables take the table's own lock inside each call); keys 0 and 1 (reserved values) and "
                           "put of a present key are outside what feb.c / syncvar.c do (they look a word up under the lock before inserting)")

    # latent classes: reported as findings only when the lead has registered the signature
    for sig, items in latent.items():
        sc, rej = items[0]
        if sig == SIG_SEM:
            # the model itself (== implementation) breaks map semantics on a script inside the proved guard
            ctx.violation(sig, "qt_hash: %s (line %d of a %s script; model agrees with the implementation)" % (rej[1], rej[0], sc["profile"]),
                          {"script": minimise(exe, sc), "config": sc["cfg"], "oracle": rej[1]})
        elif core.match_known(ctx.prop, sig) is not None:
            ctx.violation(sig, "qt_hash: %s" % rej[1], {"script": sc["lines"], "config": sc["cfg"], "oracle": rej[1]})
        else:
            ctx.notes.append("hashmap latent class %s reproduced on %d scripts (model == implementation): %s" % (sig, len(items), rej[1]))

    if not hash_ok:
        ctx.violation("broken", "qt_hash64: implementation, model and generator copy disagree",
                      {"theorem_or_correspondence": "qt_hash64 vs Hashmap.Model.qt_hash64", "impl": io[:6], "model": mo[:6]}, no_input=True)

    if mismatches or not pr["ok"]:
        # property oracle on the IMPLEMENTATION's observed behaviour over every script
        found = None
        for sc, il, ml in zip(scripts, impl, model):
            ri = oracle(sc["lines"], il)
            if ri is None:
                continue
            rm = oracle(sc["lines"], ml)
            if rm is None or ri[0] < rm[0]:
                found = (sc, ri)
                break
        if found:
            sc, ri = found
            small = minimise(exe, sc)
            rc, outs, err = core.run_lines(exe, small, timeout=120)
            ctx.violation(SIG_SEM, "qt_hash breaks finite-map semantics: %s (%s script, config line/page %s)" % (ri[1], sc["profile"], sc["cfg"]),
                          {"script": small, "config": sc["cfg"], "oracle": ri[1], "impl_output": outs[:80]})
        elif mismatches:
            sc, il, ml, k = mismatches[0]
            ctx.violation("broken", "qt_hash implementation != Hashmap.Model on %d of %d scripts (first at line %d of a %s script); "
                          "the finite-map oracle accepts every observed return value" % (len(mismatches), len(scripts), k, sc["profile"]),
                          {"theorem_or_correspondence": "harness/c/hashmap_m1.c vs Hashmap.Model (M1)", "config": sc["cfg"],
                           "script": sc["lines"][:k + 1], "impl_line": il[k] if k < len(il) else None,
                           "model_line": ml[k] if k < len(ml) else None, "stderr": err_i[-300:]}, no_input=True)
        else:
            ctx.violation("broken", "theorems in %s no longer check" % pr["file"],
                          {"theorem_or_correspondence": pr["file"], "coq_log": pr["log"][-2000:]}, no_input=True)
    return cov


def replay_script(ctx, lines):
    exe = ctx.link("hashmap_m1", ["hashmap_m1.c"], exclude=["hashmap.c"])
    drv = ctx.model_driver("hashmap_driver")
    rc, il, err = core.run_lines(exe, lines, timeout=120)
    rc2, ml, err2 = core.run_lines(drv, lines, timeout=120)
    for c, a, b in zip(lines, il + [""] * len(lines), ml):
        print("%-24s impl : %s\n%-24s model: %s" % (c, a[:160], "", b[:160]))
    why = oracle(lines, il)
    print("oracle:", why[1] if why else "accepts")
    return why, core.first_diff(il, ml)
