"""C19: read the teardown-registration table out of the library sources (DESIGN 4.5 / 6 C19).

Every translation unit of the configured build is preprocessed with the repo's flags.  For every call site
`qthread_internal_cleanup{,_early,_late}(f)` we extract: the registering function, the stage, the cleanup function,
whether the registration happens on the qthread_initialize path (else: lazily, on first use of the subsystem), which
file-level static the cleanup destroys and whether the cleanup leaves the subsystem's statics the way the registering
code expects to find them in the next incarnation (destroyed pointer reset to NULL; flags it sets re-initialised by the
registering function).  Lazily created static pools that no function ever destroys are listed as unregistered rows.
Result: coq/theories/Lifecycle/GenSubsystems.v (written only when it changes) + a name map for the check.
"""
import os
import re
from .. import core

GEN_PATH = os.path.join(core.COQ, "theories", "Lifecycle", "GenSubsystems.v")
STAGE = {"qthread_internal_cleanup_early": "Early", "qthread_internal_cleanup": "Normal", "qthread_internal_cleanup_late": "Late"}
KEYWORDS = {"if", "while", "for", "switch", "return", "sizeof", "do", "else", "case", "__attribute__", "__asm__", "asm", "typeof", "__typeof__"}


def preprocess_tu(repo, tu):
    flags = [f.replace(core.REPO, repo) for f in core.CPPFLAGS]
    rc, out, err = core.sh(["gcc", "-E", "-P", "-std=gnu99"] + flags + [os.path.join(repo, "src", tu)], timeout=120)
    if rc != 0:
        raise core.BuildError("%s does not preprocess: %s" % (tu, err[-1500:]))
    return out


def blank_strings(s):
    return re.sub(r'"(?:[^"\\]|\\.)*"|\'(?:[^\'\\]|\\.)*\'', lambda m: '"' + " " * (len(m.group(0)) - 2) + '"', s)


def func_head(head):
    """name of the function whose definition header `head` is (text between the previous ';'/'}' and the '{'), or None"""
    h = head.rstrip()
    while True:           # trailing __attribute__((...))
        m = re.search(r"__attribute__\s*\(\(.*\)\)\s*$", h, re.S)
        if m and h[:m.start()].rstrip().endswith(")"):
            h = h[:m.start()].rstrip()
        else:
            break
    if not h.endswith(")"):
        return None
    d = 0
    for k in range(len(h) - 1, -1, -1):
        if h[k] == ")":
            d += 1
        elif h[k] == "(":
            d -= 1
            if d == 0:
                break
    else:
        return None
    m = re.search(r"([A-Za-z_]\w*)\s*$", h[:k])
    if not m or m.group(1) in KEYWORDS:
        return None
    pre = h[:m.start()]
    if "=" in pre or re.search(r"\b(struct|union|enum)\s*$", pre):
        return None
    return m.group(1)


def scan_tu(text):
    """-> (functions {name: body}, statics set) of one preprocessed TU"""
    s = blank_strings(text)
    funcs, statics = {}, set()
    depth, i, n, stmt_start = 0, 0, len(s), 0
    while i < n:
        ch = s[i]
        if ch == "{":
            if depth == 0:
                head = s[stmt_start:i]
                m = func_head(head)
                # find matching close
                d, j = 1, i + 1
                while j < n and d:
                    if s[j] == "{":
                        d += 1
                    elif s[j] == "}":
                        d -= 1
                    j += 1
                if m:
                    funcs[m] = s[i + 1:j - 1]
                    i = j
                    stmt_start = j
                    continue
                # struct/union/enum/initializer: skip the braces, statement continues to ';'
                i = j
                continue
            depth += 1
        elif ch == "}":
            depth -= 1
        elif ch == ";" and depth == 0:
            stmt = s[stmt_start:i].strip()
            if re.match(r"static\b", stmt) and "(" not in stmt.split("=")[0]:
                decl = stmt.split("=")[0]
                decl = re.sub(r"\{.*\}", "", decl, flags=re.S)
                for part in decl.split(","):
                    mm = re.search(r"([A-Za-z_]\w*)\s*(?:\[[^\]]*\])?\s*$", part.strip())
                    if mm:
                        statics.add(mm.group(1))
            stmt_start = i + 1
        i += 1
    return funcs, statics


DESTROY = r"\b(qt_mpool_destroy|qpool_destroy|qt_hash_destroy|qt_free|free|hwloc_topology_destroy)\s*\(\s*([A-Za-z_][\w\.\->]*)"
CREATE = r"([A-Za-z_][\w\.]*)\s*=\s*(?:\([^()]*\)\s*)?(qpool_create\w*|qt_mpool_create\w*)\s*\("


def extract(repo=None):
    repo = repo or core.REPO
    tus = {}
    for tu in core.LIB_TUS:
        if tu.endswith(".S"):
            continue
        tus[tu] = scan_tu(preprocess_tu(repo, tu))
    where = {}
    for tu, (fs, _) in tus.items():
        for f in fs:
            where.setdefault(f, []).append(tu)
    # ---- call order from qthread_initialize (textual order, depth first): which registrations happen at initialize
    order, seen = [], set()

    def visit(tu, f, depth):
        if (tu, f) in seen or depth > 6:
            return
        seen.add((tu, f))
        body = tus[tu][0][f]
        for m in re.finditer(r"\b([A-Za-z_]\w*)\s*\(", body):
            g = m.group(1)
            if g in STAGE:
                arg = re.match(r"\s*([A-Za-z_]\w*)\s*\)", body[m.end():])
                if arg:
                    order.append((tu, f, g, arg.group(1)))
                continue
            if g in KEYWORDS or g not in where:
                continue
            t2 = tu if tu in where[g] else where[g][0]
            visit(t2, g, depth + 1)
    if "qthread_initialize" not in tus.get("qthread.c", ({}, set()))[0]:
        raise core.BuildError("qthread_initialize not found in qthread.c")
    visit("qthread.c", "qthread_initialize", 0)
    init_sites = {(tu, f, g, a) for (tu, f, g, a) in order}
    rows = []
    # all registration sites
    for tu in core.LIB_TUS:
        if tu not in tus:
            continue
        fs, statics = tus[tu]
        for f, body in fs.items():
            if f in STAGE:
                continue
            for m in re.finditer(r"\b(qthread_internal_cleanup(?:_early|_late)?)\s*\(\s*([A-Za-z_]\w*)\s*\)", body):
                g, cf = m.group(1), m.group(2)
                cbody = fs.get(cf)
                row = dict(tu=tu, by=f, stage=STAGE[g], fn=cf, lazy=(tu, f, g, cf) not in init_sites, registers=True,
                           resource=None, resets=True, why="", io=False)
                if cbody is None:
                    row["resets"], row["why"] = False, "cleanup function body not found in the same file"
                else:
                    destroyed = [d.group(2) for d in re.finditer(DESTROY, cbody) if d.group(2).split(".")[0].split("->")[0] in statics]
                    assigned = {a.group(1) for a in re.finditer(r"([A-Za-z_][\w\.]*)\s*=(?!=)", cbody)}
                    row["resource"] = destroyed[0] if destroyed else None
                    rbody = body
                    problems = []
                    for d in destroyed:
                        guarded = re.search(r"%s\s*==\s*(?:NULL|\(\(void\s*\*\)\s*0\)|0)" % re.escape(d), rbody) is not None
                        recreated = re.search(r"%s\s*=(?!=)|&\s*%s\b" % (re.escape(d), re.escape(d)), rbody) is not None
                        if d not in assigned and (guarded or not recreated):
                            problems.append("destroys %s without resetting it (creation is guarded by %s == NULL)" % (d, d)
                                            if guarded else "destroys %s, neither reset here nor re-created by %s" % (d, f))
                    for a in assigned:
                        base = a.split(".")[0]
                        if base in statics and a not in destroyed and not re.search(r"\b%s\s*=(?!=)" % re.escape(a), rbody) \
                                and not re.search(r"=\s*(?:NULL|\(\(void\s*\*\)\s*0\)|0)\s*$", cbody[cbody.find(a):].split(";")[0]):
                            problems.append("sets static %s, which %s never re-initialises" % (a, f))
                    if problems:
                        row["resets"], row["why"] = False, "; ".join(problems)
                    row["io"] = bool(re.search(r"\bio_worker_count\b|\bproxy_exit\b", cbody)) and row["stage"] == "Early"
                rows.append(row)
    # order: init-time rows in registration order, then lazy rows in TU order
    key = {(tu, f, g, a): k for k, (tu, f, g, a) in enumerate(order)}
    inv = {v: k for k, v in STAGE.items()}
    rows.sort(key=lambda r: (r["lazy"], key.get((r["tu"], r["by"], inv[r["stage"]], r["fn"]), 0), r["tu"], r["fn"]))
    # ---- lazily created static pools nobody destroys
    for tu in core.LIB_TUS:
        if tu not in tus:
            continue
        fs, statics = tus[tu]
        alltext = "\n".join(fs.values())
        for f, body in fs.items():
            for m in re.finditer(CREATE, body):
                x = m.group(1)
                if x.split(".")[0] not in statics:
                    continue
                if re.search(r"\b(qt_mpool_destroy|qpool_destroy)\s*\(\s*%s\s*\)" % re.escape(x), alltext):
                    continue
                if not any(r["tu"] == tu and r["resource"] == x for r in rows):
                    rows.append(dict(tu=tu, by=f, stage="Late", fn="-", lazy=True, registers=False, resource=x, resets=True,
                                     why="created on first use, never destroyed, no cleanup registered", io=False))
    # qarray's shepherd tracker: freed by an atexit handler only
    for tu in core.LIB_TUS:
        if tu not in tus:
            continue
        fs, statics = tus[tu]
        for f, body in fs.items():
            for m in re.finditer(r"\batexit\s*\(\s*([A-Za-z_]\w*)\s*\)", body):
                if m.group(1) == "qthread_finalize":
                    continue
                cb = fs.get(m.group(1), "")
                d = [x.group(2) for x in re.finditer(DESTROY, cb) if x.group(2) in statics]
                rows.append(dict(tu=tu, by=f, stage="Late", fn="atexit:" + m.group(1), lazy=True, registers=False,
                                 resource=d[0] if d else None, resets=True, why="released by an atexit handler, not by qthread_finalize", io=False))
    # ---- atexit(qthread_finalize): once per initialize, unconditionally?
    ibody = tus["qthread.c"][0]["qthread_initialize"]
    m = re.search(r"\batexit\s*\(\s*qthread_finalize\s*\)", ibody)
    atexit_each = False
    if m:
        # unconditional = at brace depth 0 of the function body
        pre = ibody[:m.start()]
        atexit_each = pre.count("{") == pre.count("}")
    return rows, dict(atexit_every_initialize=atexit_each, n_init=sum(1 for r in rows if not r["lazy"]))


def to_coq(rows, facts):
    L = ["(* GENERATED on every run by lib/verif/props/c19_subsystems.py from the preprocessed library sources -- do not edit.",
         "   row id = position.  Source facts:"]
    for k, r in enumerate(rows):
        L.append("     %2d  %-34s %-44s %-6s cleanup=%s%s%s" % (
            k, r["tu"], r["by"], r["stage"], r["fn"], "  LAZY" if r["lazy"] else "",
            ("  !! " + r["why"]) if r["why"] else ""))
    L += ["*)", "From Coq Require Import List.", "From QV Require Import Lifecycle.Model.", "Import ListNotations.", "",
          "Definition gen_table : table :=", "  ["]
    body = []
    for r in rows:
        body.append("    mkRow %s %s %s %s %s" % (r["stage"], "true" if r["lazy"] else "false", "true" if r["registers"] else "false",
                                                  "true" if r["resets"] else "false", "true" if r["io"] else "false"))
    L.append(";\n".join(body))
    L += ["  ].", "", "Definition gen_atexit_every_initialize : bool := %s." % ("true" if facts["atexit_every_initialize"] else "false"), ""]
    return "\n".join(L)


def regenerate(repo=None):
    rows, facts = extract(repo)
    txt = to_coq(rows, facts)
    old = open(GEN_PATH).read() if os.path.exists(GEN_PATH) else None
    if old != txt:
        os.makedirs(os.path.dirname(GEN_PATH), exist_ok=True)
        tmp = GEN_PATH + ".tmp%d" % os.getpid()
        with open(tmp, "w") as f:
            f.write(txt)
        os.replace(tmp, GEN_PATH)
    return rows, facts, old != txt


if __name__ == "__main__":
    import sys
    rows, facts = extract(sys.argv[1] if len(sys.argv) > 1 else None)
    print(to_coq(rows, facts))
    print(facts)
