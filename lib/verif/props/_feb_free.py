"""Mode M4 for FEB words (C02 no lost wake-ups, C01 atomic cells under REAL concurrency): free-running programs on the
real runtime (harness/c/c02_free.c, white-box include of the working tree's feb.c, no controller between the calls), every
call logged with two tickets of one global __sync_fetch_and_add (just before the call / just after it returned); the logged
per-word histories are run through the acceptor extracted from coq/theories/Feb/History.v (ocaml/c02hist_driver.ml), whose
soundness (accept => a linearisation exists in which every call is enabled in the atomic cell of Cell/Spec.v and returns the
spec's result, and no call left pending is enabled in the final state) and completeness (reject => none exists) are the
theorems of coq/theories/Properties/Properties_C02_hist.v.

Programs are generated so that EVERY schedule terminates (see gen_script: words are ranked, every task touches the words
in rank order, and each word follows a discipline whose token count excludes a single-word deadlock); a run that does not
finish is therefore a disagreement with the model.  Nothing here depends on timing: only the logged ticket order is used.
"""
import json
import os
import time

from .. import core
from . import _feb_common as fc

OPFAIL = -7
FUEL = 4000
READS = ("readFE", "readFE_nb", "readFF", "readFF_nb", "readXX", "lock")
VALW = ("writeEF", "writeEF_nb", "writeF", "writeFF", "purge_to")
# API name -> (cell operation of Cell/Spec.v, is non-blocking twin)
CELLOP = {"readFE": ("readFE", 0), "readFE_nb": ("readFE", 1), "lock": ("readFE", 0), "readFF": ("readFF", 0), "readFF_nb": ("readFF", 1),
          "readXX": ("readXX", 0), "writeEF": ("writeEF", 0), "writeEF_nb": ("writeEF", 1), "writeF": ("writeF", 0), "writeFF": ("writeFF", 0),
          "purge_to": ("purge_to", 0), "purge": ("purge_to", 0), "fill": ("fill", 0), "unlock": ("fill", 0), "empty": ("empty", 0),
          "status": ("status", 0)}
BLOCKING = ("readFE", "lock", "readFF", "writeEF", "writeFF", "readFE_nbf", "writeEF_nbf")


# ---------------------------------------------------------------- generator
class Gen:
    """One script.  Words 0..K-1; the index is the rank.  Every task's program is the concatenation, in rank order, of its
    segment on each word (plus state-preserving non-blocking noise anywhere), so that a task that waits on word i has issued
    every state-changing call it will ever issue on the words below i.  A deadlock would therefore have to be a deadlock of
    the lowest-ranked word with a waiter, taken alone, and the discipline of each kind excludes that:
      CH  channel: pure producers (writeEF) and pure consumers (readFE), #prod - #cons = final_full - init_full
      CH1 channel with a single consumer, who may also consume by readFF followed by empty/purge/purge_to/readFE_nb
      BC  broadcast: one owner toggles the word without ever blocking on it and ends with a filling call; everybody else
          only waits for full (readFF, writeFF) or fills
      MU  mutex: lock ... unlock pairs with nothing blocking in between
    Waiters for full (readFF / writeFF / precondition tasks) are put only on words that end full (final_full = 1) and only
    in tasks that are neither producer nor consumer of that word.  A precondition task is spawned at a segment boundary s of
    its parent, its state-changing calls are on words >= s and its precondition words are below its first such word."""

    def __init__(self, rng, ntasks, nwords, profile, nsheps):
        self.rng = rng
        self.nt = ntasks
        self.K = nwords
        self.profile = profile
        self.ns = nsheps
        self.val = 100
        self.words = []
        self.seg = [[[] for _ in range(nwords)] for _ in range(ntasks)]     # seg[t][w] = list of ops (name, w, dm, val, tag)
        self.needed = [[False] * nwords for _ in range(ntasks)]
        self.role = [[None] * nwords for _ in range(ntasks)]

    def v(self):
        self.val += 1
        return self.val

    def produce(self, w):
        r = self.rng
        name = r.weighted([("writeEF", 6), ("writeEF_nbf", 3)])
        return (name, w, r.weighted([(0, 3), (3, 2)]), self.v(), "tok")

    def consume(self, w, single):
        r = self.rng
        k = r.weighted([("readFE", 6), ("readFE_nbf", 3), ("lock", 1), ("combo", 5 if single else 0)])
        if k == "combo":
            e = r.weighted([("empty", 3), ("purge", 2), ("purge_to", 2), ("readFE_nb", 2)])
            return [("readFF", w, r.below(2), 0, "tok"), (e, w, 0 if e != "purge_to" else r.weighted([(0, 1), (3, 1)]),
                                                          self.v() if e == "purge_to" else 0, "tok")]
        return [(k, w, 1 if k == "lock" else r.below(2), 0, "tok")]

    def waiter(self, w):
        r = self.rng
        k = r.weighted([("readFF", 5), ("writeFF", 4)])
        if k == "readFF":
            return ("readFF", w, r.below(2), 0, "x")
        return ("writeFF", w, r.weighted([(0, 3), (3, 2)]), self.v(), "x")

    def noise(self):
        r = self.rng
        w = r.below(self.K)
        k = r.weighted([("status", 3), ("readXX", 2), ("readFF_nb", 3), ("yield", 2)])
        return (k, w, 0 if k != "readFF_nb" else r.below(2), 0, "x")

    def build(self):
        r = self.rng
        nt, K = self.nt, self.K
        waitersy = self.profile == "C02"
        for w in range(K):
            kind = r.weighted([("CH", 4), ("CH1", 3), ("BC", 5 if waitersy else 3), ("MU", 2 if waitersy else 3)])
            if nt < 3 and kind in ("CH", "CH1"):
                kind = "BC"
            init_full = r.below(2)
            init_val = self.v()
            W = {"kind": kind, "init_full": init_full, "init_val": init_val, "final_full": 1}
            part = r.shuffle(list(range(nt)))[: max(2, r.range(2, max(2, min(nt, 4 + nt // 2))))]
            if kind in ("CH", "CH1"):
                final_full = r.weighted([(1, 3), (0, 2)]) if waitersy else r.below(2)
                W["final_full"] = final_full
                ncons = 1 if kind == "CH1" else max(1, r.range(1, max(1, len(part) // 2)))
                cons = part[:ncons]
                rest = part[ncons:]
                nprod = max(1, r.range(1, max(1, len(rest) - (1 if final_full else 0))))
                prod = rest[:nprod]
                wait = rest[nprod:] if final_full else []
                d = final_full - init_full                      # #prod - #cons
                ncons_tok = r.range(max(1, -d), max(2, min(60, 3 * len(part))))
                nprod_tok = ncons_tok + d
                for _ in range(nprod_tok):
                    t = r.choice(prod)
                    self.seg[t][w].append(self.produce(w))
                for _ in range(ncons_tok):
                    t = r.choice(cons)
                    self.seg[t][w] += self.consume(w, kind == "CH1")
                for t in prod + cons:
                    self.needed[t][w] = True
                    self.role[t][w] = "pc"
                for t in wait:
                    for _ in range(r.range(1, 2)):
                        self.seg[t][w].append(self.waiter(w))
                    self.role[t][w] = "wait"
            elif kind == "BC":
                W["init_full"] = init_full = r.weighted([(0, 3), (1, 1)])
                owner = part[0]
                for _ in range(r.range(0, 5)):
                    k = r.weighted([("empty", 4), ("purge", 2), ("purge_to", 2), ("fill", 2), ("writeF", 2), ("writeEF_nb", 2), ("readFE_nb", 2)])
                    self.seg[owner][w].append((k, w, r.below(2) if k == "readFE_nb" else (r.weighted([(0, 1), (3, 1)]) if k in VALW else 0),
                                               self.v() if k in VALW else 0, "own"))
                k = r.weighted([("fill", 2), ("writeF", 3), ("unlock", 1)])
                self.seg[owner][w].append((k, w, r.weighted([(0, 1), (3, 1)]) if k == "writeF" else 0, self.v() if k == "writeF" else 0, "ownfinal"))
                self.needed[owner][w] = True
                self.role[owner][w] = "own"
                for t in part[1:]:
                    for _ in range(r.range(1, 3)):
                        if r.chance(1, 8):
                            k = r.choice(["fill", "writeF"])
                            self.seg[t][w].append((k, w, 0, self.v() if k == "writeF" else 0, "x"))
                        else:
                            self.seg[t][w].append(self.waiter(w))
                    self.role[t][w] = "wait"
            else:  # MU
                W["init_full"] = 1
                for t in part:
                    for _ in range(r.range(1, 3)):
                        lk = r.weighted([("lock", 3), ("readFE", 3), ("readFE_nbf", 2)])
                        ul = r.weighted([("unlock", 3), ("fill", 2), ("writeF", 2), ("writeEF", 2), ("writeEF_nb", 1)])
                        ops = [(lk, w, 1 if lk == "lock" else r.below(2), 0, "mu")]
                        if r.chance(1, 3):
                            ops.append(("status", w, 0, 0, "x"))
                        ops.append((ul, w, r.weighted([(0, 1), (3, 1)]) if ul in VALW else 0, self.v() if ul in VALW else 0, "mu"))
                        self.seg[t][w] += ops
                    self.needed[t][w] = True
                    self.role[t][w] = "mu"
            if W["final_full"] == 1 and kind != "MU":
                # more tasks waiting for full on a word that ends full: they are neither producer, consumer nor owner of it
                for t in range(nt):
                    if self.role[t][w] is None and r.chance(2 if waitersy else 1, 6):
                        for _ in range(r.range(1, 2)):
                            self.seg[t][w].append(self.waiter(w))
                        self.role[t][w] = "wait"
            self.words.append(W)
        # programs: segments in rank order with noise sprinkled in; cap the length
        progs = []
        bounds = []                  # bounds[t][s] = index in prog where segment s starts
        for t in range(nt):
            p, b = [], []
            for w in range(K):
                b.append(len(p))
                for op in self.seg[t][w]:
                    if r.chance(1, 6):
                        p.append(self.noise())
                    p.append(op)
            b.append(len(p))
            if not p:
                p.append(self.noise())
            progs.append(p)
            bounds.append(b)
        # precondition tasks
        children = {}
        fullw = [w for w in range(K) if self.words[w]["final_full"] == 1]
        cands = r.shuffle(list(range(nt)))
        maxch = r.range(0, max(1, nt // 4))
        for t in cands:
            if len(children) >= maxch or len(progs[t]) > 40:
                continue
            r0 = min([w for w in range(K) if self.needed[t][w]] + [K])
            # a child must not be owner/producer/consumer of a word it waits for; its program must not touch (blocking)
            # words below the precondition words in a way that matters: its segments are rank ordered already
            pcw = [w for w in fullw if w < r0 and self.role[t][w] is None]
            if not pcw:
                continue
            parents = [p for p in range(nt) if p != t and p not in children and len(progs[p]) < 44]
            if not parents:
                continue
            par = r.choice(parents)
            if any(c["parent"] == t for c in children.values()):
                continue
            s = r.range(0, r0)
            n = r.range(1, min(3, len(pcw)))
            pcs = [r.choice(pcw) for _ in range(n)] if r.chance(1, 4) else r.shuffle(pcw)[:n]
            children[t] = {"parent": par, "at": s, "pcs": pcs, "variant": r.below(2), "shep": r.below(self.ns)}
        # number tasks: top-level first, children after; insert the spawn calls
        top = [t for t in range(nt) if t not in children]
        order = top + sorted(children)
        newid = {t: i for i, t in enumerate(order)}
        for t, c in sorted(children.items(), key=lambda x: -x[1]["at"]):
            par = c["parent"]
            pos = bounds[par][c["at"]]
            progs[par].insert(pos, ("spawn", newid[t], 0, 0, "spawn"))
            for s in range(c["at"] + 1, K + 1):
                bounds[par][s] += 1
        tasks = []
        for t in order:
            T = {"id": newid[t], "shep": (-1 if r.chance(1, 3) else r.below(self.ns)), "prog": progs[t][:48]}
            if t in children:
                c = children[t]
                T["child"] = {"pcs": c["pcs"], "variant": c["variant"], "shep": c["shep"], "parent": newid[c["parent"]]}
            tasks.append(T)
        return {"words": self.words, "tasks": tasks, "ntop": len(top)}


def gen_script(rng, ntasks, nwords, profile, nsheps):
    for _ in range(50):
        sc = Gen(rng, ntasks, nwords, profile, nsheps).build()
        if all(len(t["prog"]) < 48 for t in sc["tasks"]):
            return sc
    raise core.BuildError("free-running generator: no script within the size limits")


def script_lines(sc, runid):
    nt = sc["ntop"]
    out = ["R %d %d %d %d" % (runid, nt, len(sc["tasks"]) - nt, len(sc["words"]))]
    for w, W in enumerate(sc["words"]):
        out.append("W %d %d %d" % (w, W["init_full"], W["init_val"]))
    for T in sc["tasks"]:
        if "child" in T:
            c = T["child"]
            out.append("K %d %d %d %d %s %d" % (T["id"], c["variant"], c["shep"], len(c["pcs"]), " ".join(map(str, c["pcs"])), len(T["prog"])))
        else:
            out.append("T %d %d %d" % (T["id"], T["shep"], len(T["prog"])))
        for op in T["prog"]:
            out.append("o %s %d %d %d" % (op[0], op[1], op[2], op[3]))
    out.append("G")
    return out


def parse_script(lines):
    """inverse of script_lines (corpus files, replays); tags are unknown ('?')"""
    words, tasks, ntop = [], [], 0
    cur = None
    for l in lines:
        f = l.split()
        if not f or f[0] in ("G", "Q"):
            continue
        if f[0] == "R":
            ntop = int(f[2])
        elif f[0] == "W":
            words.append({"kind": "?", "init_full": int(f[2]), "init_val": int(f[3]), "final_full": None})
        elif f[0] == "T":
            cur = {"id": int(f[1]), "shep": int(f[2]), "prog": []}
            tasks.append(cur)
        elif f[0] == "K":
            n = int(f[4])
            cur = {"id": int(f[1]), "shep": 0, "prog": [], "child": {"variant": int(f[2]), "shep": int(f[3]), "pcs": [int(x) for x in f[5:5 + n]], "parent": None}}
            tasks.append(cur)
        elif f[0] == "o":
            cur["prog"].append((f[1], int(f[2]), int(f[3]), int(f[4]), "?"))
    for T in tasks:
        for op in T["prog"]:
            if op[0] == "spawn":
                tasks[op[1]]["child"]["parent"] = T["id"]
    return {"words": words, "tasks": tasks, "ntop": ntop}


# ---------------------------------------------------------------- the model says: every schedule terminates (self-check of the generator)
def simulate(sc, rng, mode):
    """run the programs on the atomic cells of Cell/Spec.v under one sequential schedule; returns None or a description of the
    deadlock.  Used only to validate generated / shrunk scripts (the argument for all schedules is in Gen's docstring)."""
    cells = [(W["init_full"], W["init_val"]) for W in sc["words"]]
    tasks = sc["tasks"]
    pc = [0] * len(tasks)
    sub = [0] * len(tasks)        # nbf: 0 = try the nb call, 1 = fall back to the blocking call
    alive = [("child" not in T) for T in tasks]
    pend = {T["id"]: list(T["child"]["pcs"]) for T in tasks if "child" in T}
    spawned = set()
    steps = 0
    while True:
        steps += 1
        if steps > 100000:
            return "simulation did not end"
        run = []
        for i, T in enumerate(tasks):
            if "child" in T and i in spawned and not alive[i]:
                while pend[i] and cells[pend[i][-1]][0]:
                    pend[i].pop()
                if not pend[i]:
                    alive[i] = True
            if not alive[i] or pc[i] >= len(T["prog"]):
                continue
            name, w, dm, val, _ = T["prog"][pc[i]]
            if name in ("spawn", "yield"):
                run.append(i)
                continue
            base = name[:-1] if name.endswith("_nbf") else name
            if name.endswith("_nbf") and sub[i] == 1:
                base = name[:-4]
            k, nb = CELLOP[base]
            if nb or fc.atomic(cells[w], k, val if base in VALW else (0 if base == "purge" else None)) is not None:
                run.append(i)
        if not run:
            left = [(T["id"], T["prog"][pc[i]][:2] if alive[i] else ("parked", pend.get(i))) for i, T in enumerate(tasks)
                    if pc[i] < len(T["prog"]) or not alive[i]]
            return None if not left else "deadlock: %s cells %s" % (left[:6], cells)
        i = run[0] if mode == "low" else (run[-1] if mode == "high" else rng.choice(run))
        T = tasks[i]
        name, w, dm, val, _ = T["prog"][pc[i]]
        if name == "spawn":
            spawned.add(w)
        elif name != "yield":
            base = name[:-1] if name.endswith("_nbf") else name
            if name.endswith("_nbf") and sub[i] == 1:
                base = name[:-4]
            k, nb = CELLOP[base]
            r = fc.atomic(cells[w], k, val if base in VALW else (0 if base == "purge" else None))
            if r is None:
                if name.endswith("_nbf") and sub[i] == 0:
                    sub[i] = 1
                    continue
                # a failed plain nb call: nothing happens
            else:
                cells[w] = r[0]
            sub[i] = 0
        pc[i] += 1


def terminates(sc, rng):
    for mode in ("low", "high", "rand", "rand"):
        why = simulate(sc, rng, mode)
        if why:
            return why
    return None


# ---------------------------------------------------------------- running the real code
def parse_runs(out):
    """harness output -> {runid: {"ops": [...], "starts": {task: ticket}, "audit": {w: {...}}, "cb": n, "end": "ok"|"HANG..", "raw": [...]}}"""
    runs, cur = {}, None
    for l in out:
        f = l.split()
        if not f:
            continue
        if f[0] == "B":
            cur = {"ops": [], "starts": {}, "audit": {}, "mem": {}, "cb": None, "end": None, "raw": []}
            runs[int(f[1])] = cur
        if cur is None:
            continue
        cur["raw"].append(l)
        if f[0] == "o":
            cur["ops"].append({"task": int(f[1]), "k": int(f[2]), "name": f[3], "w": int(f[4]), "dm": int(f[5]), "wval": int(f[6]),
                               "inv": int(f[7]), "ret": int(f[8]), "rc": int(f[9]), "rval": None if f[10] == "-" else int(f[10])})
        elif f[0] == "s":
            cur["starts"][int(f[1])] = int(f[2])
        elif f[0] == "w":
            cur["audit"][int(f[1])] = {"present": int(f[2]), "full": int(f[3]), "status": int(f[4]), "mem": int(f[5]),
                                       "q": [int(x) for x in f[6:10]]}
        elif f[0] == "m":
            cur["mem"][int(f[1])] = int(f[2])
        elif f[0] == "c":
            cur["cb"] = int(f[1])
        elif f[0] == "E":
            cur["end"] = " ".join(f[1:])
            cur = None
    return runs


def run_batch(exe, scripts, ns, nwk, timeout=None):
    """scripts: list of (runid, lines).  One harness process runs them one after the other; after a hang (the harness dumps its
    log and exits) the remaining scripts go to a fresh process.  Returns {runid: run}"""
    res = {}
    todo = list(scripts)
    while todo:
        lines = []
        for _, ls in todo:
            lines += ls
        rc, out, err = core.run_lines(exe, lines + ["Q"], timeout=timeout or (150 + 2 * len(todo)), env=core.qenv(ns, nwk, stack=65536))
        if not out or not out[0].startswith("H "):
            raise core.BuildError("c02_free harness did not start on %dx%d: rc=%s %s" % (ns, nwk, rc, err[-400:]))
        got = parse_runs(out)
        progressed = False
        nxt = []
        for rid, ls in todo:
            if rid in got and got[rid]["end"] is not None:
                res[rid] = got[rid]
                progressed = True
            else:
                nxt.append((rid, ls))
        if nxt and (rc == 0 or not progressed):
            # the process died without a log for the next script (crash / external timeout): that script is a failure
            rid, ls = nxt.pop(0)
            res[rid] = {"ops": [], "starts": {}, "audit": {}, "mem": {}, "cb": None, "raw": out[-5:],
                        "end": "CRASH rc=%s %s" % (rc, err[-300:].strip())}
        todo = nxt
        if any(r["end"] != "ok" for r in res.values()):
            break           # a run hung or crashed: it is judged (and reported) first; every further hang would cost a watchdog period
    return res


# ---------------------------------------------------------------- histories and the acceptor
def histories(sc, run):
    """per word: (c0, list of history lines for the driver, pending descriptions); plus problems found while converting"""
    K = len(sc["words"])
    H = [[] for _ in range(K)]
    desc = {}
    problems = []
    nid = [0]

    def add(w, cop, src, nb, inv, ret, out, what):
        nid[0] += 1
        H[w].append("%d %s %s %d %d %d %s" % (nid[0], cop, "-" if src is None else src, nb, inv, ret, out))
        desc[nid[0]] = what

    for o in run["ops"]:
        what = "task %d call %d %s(word %d)" % (o["task"], o["k"], o["name"], o["w"])
        if o["name"] == "spawn":
            T = sc["tasks"][o["w"]]
            st = run["starts"].get(o["w"], -1)
            if o["ret"] >= 0 and o["rc"] != 0:
                problems.append(("C06", "%s returned %d" % (what, o["rc"])))
            if st >= 0 and st < o["inv"]:
                problems.append(("C06", "precondition task %d started before it was spawned" % o["w"]))
            for w in T["child"]["pcs"]:
                # the task may start only after each of its words was seen full at some moment after the spawn was invoked
                add(w, "readFF", None, 0, o["inv"], st, "D-", "precondition of task %d on word %d" % (o["w"], w))
            continue
        cop, nb = CELLOP[o["name"]]
        src = o["wval"] if o["name"] in VALW else (0 if o["name"] == "purge" else None)
        if o["ret"] < 0:
            out = "D-"
        elif o["rc"] == OPFAIL:
            out = "F"
        elif o["rc"] != 0:
            problems.append(("C01", "%s returned %d" % (what, o["rc"])))
            continue
        elif o["name"] == "status":
            out = "Db%d" % (1 if o["rval"] else 0)
        elif o["name"] in READS and o["dm"] == 0:
            out = "Dv%d" % o["rval"]
        elif o["name"] in READS:
            out = "D-"
        else:
            out = "Dn"
        add(o["w"], cop, src, nb, o["inv"], o["ret"], out, what)
    return H, desc, problems


def obligations(sc, run):
    """end-of-run obligations on the implementation that need no search (each is implied by acceptance; they give the reason)"""
    bad = []
    if run["end"] != "ok":
        return bad
    ops = run["ops"]
    for w, W in enumerate(sc["words"]):
        a = run["audit"].get(w)
        if a is None:
            bad.append(("C02", "no audit of word %d" % w))
            continue
        if any(a["q"]):
            bad.append(("C02", "every task has returned but word %d still has waiters (EFQ,FEQ,FFQ,FFWQ)=%s" % (w, a["q"])))
        if a["present"] != (0 if a["full"] else 1):
            bad.append(("C01", "word %d: record %s although the word is %s and has no waiters" %
                        (w, "present" if a["present"] else "absent", "full" if a["full"] else "empty")))
        if a["status"] != a["full"]:
            bad.append(("C01", "qthread_feb_status(word %d)=%d, record says %d" % (w, a["status"], a["full"])))
        written = {W["init_val"]: 1}
        for o in ops:
            if o["w"] == w and o["name"] in VALW:
                written[o["wval"]] = written.get(o["wval"], 0) + 1
            if o["w"] == w and o["name"] == "purge":
                written[0] = 1
        took = {}
        for o in ops:
            if o["w"] != w or o["name"] == "spawn" or o["rval"] is None or o["name"] == "status":
                continue
            if o["rval"] not in written:
                bad.append(("C01", "task %d %s(word %d) returned %d, a value never stored in the word" % (o["task"], o["name"], w, o["rval"])))
            if o["name"] in ("readFE", "readFE_nb"):
                took[o["rval"]] = took.get(o["rval"], 0) + 1
        efvals = set(o["wval"] for o in ops if o["w"] == w and o["name"] in ("writeEF", "writeEF_nb") and o["rc"] == 0)
        # a value deposited by writeEF is taken by at most one readFE unless someone re-fills the word without a new value
        refill = any(o["w"] == w and o["name"] in ("fill", "unlock", "writeFF") for o in ops)
        if not refill:
            for v, n in took.items():
                if v in efvals and n > 1:
                    bad.append(("C01", "value %d deposited once by writeEF in word %d was taken by %d readFE calls" % (v, w, n)))
    if run["cb"]:
        bad.append(("C02", "qthread_feb_callback still enumerates %d waiter(s) after every task returned" % run["cb"]))
    return bad


def overlap_degree(run):
    ev = []
    for o in run["ops"]:
        ev.append((o["inv"], 0))
        if o["ret"] >= 0:
            ev.append((o["ret"], 1))
    ev.sort()
    open_, pairs = 0, 0
    for _, k in ev:
        if k == 0:
            pairs += open_
            open_ += 1
        else:
            open_ -= 1
    return pairs


class Acceptor:
    def __init__(self, drv):
        import subprocess
        self.p = subprocess.Popen([drv], stdin=subprocess.PIPE, stdout=subprocess.PIPE, universal_newlines=True, bufsize=1)

    def ask(self, tag, c0, cfin, lines, fuel=FUEL):
        q = "H %s %d %d %d %d %d %d\n%s" % (tag, fuel, c0[0], c0[1], cfin[0], cfin[1], len(lines), "".join(l + "\n" for l in lines))
        if os.environ.get("VERIF_FREE_DUMPQ"):
            open(os.environ["VERIF_FREE_DUMPQ"], "w").write(q)
        self.p.stdin.write(q)
        self.p.stdin.flush()
        a = self.p.stdout.readline().split()
        if not a or a[1] != tag:
            raise core.BuildError("history acceptor died on " + tag)
        return a[0], [int(x) for x in a[2:]]

    def close(self):
        try:
            self.p.stdin.close()
            self.p.wait(timeout=10)
        except Exception:
            self.p.kill()


def judge(acc, sc, run, tag):
    """-> (verdict, reasons) verdict in ok / reject / hang / unknown;  reasons = list of (property, text)"""
    H, desc, problems = histories(sc, run)
    reasons = list(problems)
    unknown = 0
    if run["end"] == "ok":
        reasons += obligations(sc, run)
        for w, W in enumerate(sc["words"]):
            a = run["audit"].get(w)
            if a is None:
                continue
            v, wit = acc.ask("%s.w%d" % (tag, w), (W["init_full"], W["init_val"]), (a["full"], a["mem"]), H[w])
            if v == "R":
                reasons.append(("C01", "word %d: no linearisation of its %d logged calls exists that respects the real-time order, has every call "
                                "enabled in the atomic cell with the observed result and ends in the audited state (full=%d, value=%d)"
                                % (w, len(H[w]), a["full"], a["mem"])))
            elif v == "U":
                unknown += 1
            elif v != "A":
                reasons.append(("C01", "word %d: ill-formed log (%s)" % (w, v)))
        if reasons:
            return "reject", reasons, unknown
        return ("unknown" if unknown else "ok"), reasons, unknown
    # the run did not finish
    pend = [o for o in run["ops"] if o["ret"] < 0]
    parked = [t for t, s in run["starts"].items() if s < 0]
    if run["end"].startswith("CRASH"):
        return "hang", [("C01", "the runtime crashed / was killed during the run: " + run["end"])], 0
    lost = []
    for w, W in enumerate(sc["words"]):
        pw = [l for l in H[w] if l.split()[5] == "-1"]
        if not pw or w not in run["mem"]:
            continue
        verdicts = []
        for full in (0, 1):
            v, _ = acc.ask("%s.w%d.f%d" % (tag, w, full), (W["init_full"], W["init_val"]), (full, run["mem"][w]), H[w])
            verdicts.append(v)
        if all(v == "R" for v in verdicts):
            lost.append(w)
    who = ", ".join("task %d in %s(word %d)" % (o["task"], o["name"], o["w"]) for o in pend[:6])
    txt = "the run never finished (%s): still blocked: %s%s" % (run["end"], who or "-", ("; never started: precondition task(s) %s" % parked) if parked else "")
    if lost:
        txt += "; word(s) %s: in every final state that explains the completed calls a call left pending is enabled (lost wake-up)" % lost
    return "hang", [("C02", txt)], 0


# ---------------------------------------------------------------- corpus
def load_corpus():
    d = os.path.join(core.VERIF, "corpus", "C02")
    out = []
    if os.path.isdir(d):
        for fn in sorted(os.listdir(d)):
            if fn.startswith("free_") and fn.endswith(".fr"):
                ls = [l.strip() for l in open(os.path.join(d, fn)) if l.strip() and not l.startswith("#")]
                out.append((fn, parse_script(ls)))
    return out


# ---------------------------------------------------------------- shrinking (search for a smaller failing input)
def shrink_candidates(sc, rng):
    """smaller scripts: drop one freely removable call ('x'), or a task whose calls are all removable"""
    c = []
    for ti, T in enumerate(sc["tasks"]):
        for k, op in enumerate(T["prog"]):
            if op[4] == "x" and len(T["prog"]) > 1:
                c.append(("call", ti, k))
    return rng.shuffle(c)


def drop_call(sc, ti, k):
    s2 = {"words": sc["words"], "ntop": sc["ntop"], "tasks": []}
    for i, T in enumerate(sc["tasks"]):
        T2 = dict(T)
        if i == ti:
            T2["prog"] = T["prog"][:k] + T["prog"][k + 1:]
        s2["tasks"].append(T2)
    return s2


# ---------------------------------------------------------------- the tier
CONFIGS_QUICK = [(2, 2), (4, 1), (1, 4), (3, 2)]
CONFIGS_THOROUGH = [(2, 2), (4, 1), (1, 4), (3, 2), (8, 1), (2, 4), (1, 1), (5, 1)]


def run_free(ctx, quick, prop_words="C02"):
    rng = ctx.rng.fork()
    ok, log = ctx.coq_make(["theories/Feb/ExtractHist.vo"])
    if not ok:
        raise core.BuildError("Feb/ExtractHist.v does not compile:\n" + log[-2000:])
    exe = ctx.link("c02_free", ["c02_free.c"], exclude=["feb.c"])
    drv = ctx.model_driver("c02hist_driver")
    acc = Acceptor(drv)
    configs = CONFIGS_QUICK if quick else CONFIGS_THOROUGH
    if os.environ.get("VERIF_FREE_CONFIGS"):
        configs = [tuple(int(x) for x in c.split("x")) for c in os.environ["VERIF_FREE_CONFIGS"].split(",")]
    nruns = int(os.environ.get("VERIF_FREE_RUNS", "0")) or (60 if quick else 800)
    per = max(1, nruns // len(configs))
    cov = {"runs": 0, "configs": ["%dx%d" % c for c in configs], "calls": 0, "ops": {}, "blocked_calls": 0, "nb_failed": 0, "overlap_pairs": 0,
           "max_overlap_pairs_in_one_run": 0, "precondition_tasks": 0, "tasks": [10 ** 9, 0], "accepted_words": 0, "unknown_words": 0,
           "hangs": 0, "rejected_runs": 0, "word_kinds": {}, "corpus": 0, "profile": prop_words,
           "wall_runs_s": {}, "wall_acceptor_s": 0.0}
    failures = []
    corpus = load_corpus()
    try:
        for ci, (ns, nwk) in enumerate(configs):
            batch = []
            for fn, sc in corpus:
                batch.append(("corpus/C02/" + fn, sc))
            for k in range(per):
                big = (not quick) and k % 3 == 0
                nt = rng.range(24, 64) if big else rng.range(8, 28)
                sc = gen_script(rng, nt, rng.range(1, 4), prop_words, ns)
                why = terminates(sc, rng)
                if why:
                    raise core.BuildError("free-running generator produced a script the model does not finish: " + why)
                batch.append(("gen:%dx%d:%d" % (ns, nwk, k), sc))
            scripts = [(i, script_lines(sc, i)) for i, (_, sc) in enumerate(batch)]
            t_run = time.time()
            res = run_batch(exe, scripts, ns, nwk)
            cov["wall_runs_s"]["%dx%d" % (ns, nwk)] = round(time.time() - t_run, 2)
            t_acc = time.time()
            for i, (name, sc) in enumerate(batch):
                if i not in res:
                    continue
                run = res[i]
                cov["runs"] += 1
                cov["corpus"] += name.startswith("corpus")
                cov["calls"] += len(run["ops"])
                for o in run["ops"]:
                    cov["ops"][o["name"]] = cov["ops"].get(o["name"], 0) + 1
                    cov["nb_failed"] += (o["rc"] == OPFAIL)
                for W in sc["words"]:
                    cov["word_kinds"][W["kind"]] = cov["word_kinds"].get(W["kind"], 0) + 1
                cov["precondition_tasks"] += len(sc["tasks"]) - sc["ntop"]
                cov["tasks"] = [min(cov["tasks"][0], len(sc["tasks"])), max(cov["tasks"][1], len(sc["tasks"]))]
                od = overlap_degree(run)
                cov["overlap_pairs"] += od
                cov["max_overlap_pairs_in_one_run"] = max(cov["max_overlap_pairs_in_one_run"], od)
                cov["blocked_calls"] += blocked_estimate(run)
                verdict, reasons, unknown = judge(acc, sc, run, "r%d_%d" % (ci, i))
                cov["unknown_words"] += unknown
                if verdict == "ok":
                    cov["accepted_words"] += len(sc["words"])
                elif verdict == "hang":
                    cov["hangs"] += 1
                if verdict in ("reject", "hang"):
                    cov["rejected_runs"] += 1
                    failures.append({"name": name, "config": [ns, nwk], "sc": sc, "run": run, "verdict": verdict, "reasons": reasons})
            cov["wall_acceptor_s"] = round(cov["wall_acceptor_s"] + time.time() - t_acc, 2)
            if failures:
                break
        if failures:
            report(ctx, acc, exe, rng, failures, prop_words)
    finally:
        acc.close()
    ctx.cov["free"] = cov
    ctx.cov["evaluations"] = ctx.cov.get("evaluations", 0) + cov["calls"]
    ctx.cov["traces_validated_against_impl"] = ctx.cov.get("traces_validated_against_impl", 0) + cov["runs"]
    if cov["unknown_words"]:
        ctx.notes.append("free-running tier: %d word histories exhausted the acceptor's fuel (inconclusive, not counted as accepted)" % cov["unknown_words"])
    ctx.assumptions += ["free-running tier (M4): the ticket order is the real-time order (one __sync_fetch_and_add, a full barrier, before and "
                        "after every call); plain readXX is linearised like the other calls; scheduling fairness of the worker pthreads is "
                        "the OS's; only the logged order is used, no timing"]


def blocked_estimate(run):
    """calls that certainly waited: another call on the same word returned inside their interval and they returned after it"""
    n = 0
    byw = {}
    for o in run["ops"]:
        if o["name"] != "spawn":
            byw.setdefault(o["w"], []).append(o)
    for w, ops in byw.items():
        rets = sorted(o["ret"] for o in ops if o["ret"] >= 0)
        import bisect
        for o in ops:
            if o["name"] in BLOCKING[:5] and (o["ret"] < 0 or bisect.bisect_left(rets, o["ret"]) - bisect.bisect_right(rets, o["inv"]) > 0):
                n += 1
    return n


def report(ctx, acc, exe, rng, failures, prop_words):
    """re-run the failing script (up to 3 times), shrink it while it still fails, store the trace as replay"""
    f = failures[0]
    sc, (ns, nwk) = f["sc"], f["config"]
    again = 0
    tries = 3
    for k in range(tries):
        res = run_batch(exe, [(0, script_lines(sc, 0))], ns, nwk)
        v, reasons, _ = judge(acc, sc, res[0], "rr%d" % k)
        if v in ("reject", "hang"):
            again += 1
    # shrink: drop removable calls while some of 3 runs still fails (bounded effort)
    small = sc
    budget = 10
    if f["verdict"] == "reject":
        for kind, ti, k in shrink_candidates(sc, rng):
            if budget <= 0:
                break
            budget -= 1
            try:
                cand = drop_call(small, ti, k)
            except Exception:
                continue
            if ti >= len(cand["tasks"]) or terminates(cand, rng):
                continue
            bad = False
            for _ in range(3):
                res = run_batch(exe, [(0, script_lines(cand, 0))], ns, nwk)
                v, _, _ = judge(acc, cand, res[0], "sh")
                if v == "reject":
                    bad = True
                    break
                if v == "hang":
                    break
            if bad:
                small = cand
                break      # indices shift after a removal: one accepted removal per pass is enough for a bounded effort
    prop, why = f["reasons"][0]
    for p, w in f["reasons"]:
        if p == ctx.prop:
            prop, why = p, w
            break
    sig = "free:" + ("hang" if f["verdict"] == "hang" else why.split(":")[0][:50])
    ctx.violation(sig, "%s (free-running, %dx%d, %s): %s; failed again in %d of %d re-runs of the same script; %d run(s) failed in this tier"
                  % (prop, ns, nwk, f["name"], why, again, tries, len(failures)),
                  {"free": True, "config": [ns, nwk], "name": f["name"], "script": script_lines(sc, 0), "reasons": f["reasons"],
                   "log": f["run"]["raw"], "reproduced": "%d/%d" % (again, tries),
                   "shrunk_script": script_lines(small, 0) if small is not sc else None,
                   "other_failures": [{"name": x["name"], "config": x["config"], "reasons": x["reasons"][:2]} for x in failures[1:4]]})


# ---------------------------------------------------------------- replay
def is_free_replay(path):
    try:
        return bool(json.load(open(path)).get("replay", {}).get("free"))
    except Exception:
        return False


def replay_file(ctx, path, times=10):
    j = json.load(open(path))
    rp = j["replay"]
    print(json.dumps({k: v for k, v in j.items() if k != "replay"}, indent=1))
    ok, log = ctx.coq_make(["theories/Feb/ExtractHist.vo"])
    exe = ctx.link("c02_free", ["c02_free.c"], exclude=["feb.c"])
    acc = Acceptor(ctx.model_driver("c02hist_driver"))
    ns, nwk = rp["config"]
    lines = rp.get("shrunk_script") or rp["script"]
    sc = parse_script(lines)
    bad = 0
    last = None
    try:
        print("# stored log: the acceptor on the stored trace")
        stored = parse_runs(rp["log"])
        for rid, run in stored.items():
            v, reasons, _ = judge(acc, parse_script(rp["script"]), run, "stored")
            print("#   %s %s" % (v, reasons[:2]))
        for k in range(times):
            res = run_batch(exe, [(0, lines)], ns, nwk)
            v, reasons, _ = judge(acc, sc, res[0], "rp%d" % k)
            print("# run %d on %dx%d: %s %s" % (k, ns, nwk, v, reasons[:1]))
            if v in ("reject", "hang"):
                bad += 1
                last = (reasons, res[0]["raw"])
    finally:
        acc.close()
    print("# failed in %d of %d runs" % (bad, times))
    if last:
        ctx.violation("replay", "%s: %s (%d of %d runs)" % (last[0][0][0], last[0][0][1], bad, times),
                      {"free": True, "config": [ns, nwk], "script": lines, "reasons": last[0], "log": last[1]})
