"""C12 extension O: queue loops (qt_loop_queue_run / _run_there / _addworker, CHUNK GUIDED FACTORED TIMED) while shepherds are
disabled and re-enabled during the loop.
Model: coq/theories/Loops/CompletionQDisable.v (event machine of the completion protocol: qqloop_wrapper's disabled branch with
its `break`, the safeexit test, addworker, the caller's wait); theorems: Properties/Properties_C12_disable.v.
Tie (M4, trace acceptance): harness/c/c12_disable.c runs the REAL loops of the working tree's qloop.c (white-box include) on
4x1 / 3x2 / 2x2 runtimes; the user function executes a script (which invocation, by shepherd and ordinal, disables / enables a
shepherd, calls qt_loop_queue_addworker, is held inside the function at OS level, yields or blocks on a FEB gate); every
cursor claim, activesheps / donecount update, qthread_shep_ok() result, addworker fork, disable / enable call is logged in the
same critical section as the operation itself.  The extracted machine (ocaml/bin/c12qdis_driver) must accept every logged
event as an enabled transition with the observed outcome (claim starts at the model's cursor, func gets the claimed range,
shep_ok agrees with the model's active flags, sign-off only after a failed shep_ok, donecount++ only with safeexit, ...), and
the schedule-independent observables must agree: entered == returned when the call returns, activesheps / donecount read
from the handle when the call frees it, number of sign-offs, coverage (exactly once when a worker stayed, else at most once).
Oracle (searches the failing input when the tie or a proof breaks): entered != returned at the moment the call returns, an
index run twice / never although a worker stayed enabled / outside the range, the call never returning (watchdog)."""
import json
import os
import time
from concurrent.futures import ThreadPoolExecutor
from .. import core

QT = ["chunk", "guided", "factored", "timed"]
CONFIGS = [(4, 1), (3, 2), (2, 2)]
PROPS = "Properties/Properties_C12_disable.v"


# ---------------------------------------------------------------- scenarios
def scen(family, cfg, ty, start, n, incr, chunk, mode, barrier, rules, note=""):
    return {"family": family, "config": "%dx%d" % cfg, "type": ty, "start": start, "stop": start + n, "incr": incr, "chunk": chunk,
            "mode": mode, "call": "qt_loop_queue_run" if mode == 0 else "qt_loop_queue_run_there(%d)" % (mode - 1),
            "barrier": barrier, "rules": rules, "note": note}


def script(sc):
    ls = ["Q %s %d %d %d %d %d %d" % (sc["type"], sc["start"], sc["stop"], sc["incr"], sc["chunk"], sc["mode"], sc["barrier"])]
    for (sh, od, ops) in sc["rules"]:
        ls.append("on %d %d %s" % (sh, od, " ".join(ops)))
    return ls + ["go"]


def fam_disable_inside(rng, cfg, ty, targets, trig, reenable=False, gate=False, late_add=False, exact_n=False):
    """all wrappers inside func (barrier); the wrappers of the target shepherds are held there at OS level while the first
    invocation on shepherd `trig` disables the targets; everybody else waits for the disable (and the sign-offs)"""
    ns, nwk = cfg
    w = ns * nwk
    n = w if exact_n else rng.choice([40, 64, 97]) if gate else rng.choice([w + 1, 2 * w + 3, 40, 64, 97])
    start = rng.choice([0, 0, 5, rng.below(1000)])
    chunk = 1 if ty == "chunk" else 0
    rules = []
    fl = 8          # flags 8.. = "wrapper of a target shepherd is inside func"; 2 = disabled, 4 = addworker done, 5 / 7 see below
    inside = []
    for d in targets:
        for j in range(nwk):
            rules.append((d, j, ["S%d" % fl, "W2"]))
            inside.append(fl)
            fl += 1
        if not reenable:
            for j in range(nwk):          # a wrapper that signed off must not come back: if it does, keep it inside until the call returns
                rules.append((d, nwk + j, ["S5", "H15"]))
    nso = len(targets) * nwk
    tops = ["W%d" % f for f in inside] + ["D%d" % d for d in targets] + ["S2"]
    others = ["W2", "Z%d" % nso, "T5"]
    if reenable:
        d = targets[0]
        tops += ["Z%d" % nso, "E%d" % d, "A%d" % d] + (["A%d" % d] if nwk > 1 and rng.chance(1, 2) else []) + ["S4"]
        others = ["W4"]
    elif late_add:
        # everybody else finishes first (donecount != 0), then addworker must undo its increment
        tops += ["Z%d" % nso, "S4", "C%d" % (w - nso - 1), "A%d" % targets[0]]
        others = ["W4"]
    elif gate:
        tops += ["Z%d" % nso]
        others = ["W2", "W7"]
        rules.append((trig, nwk, ["G1", "S7"]))
    else:
        tops += ["Z%d" % nso, "T5"]
    rules.append((trig, 0, tops))
    gated = False
    for x in range(ns):
        for j in range(nwk):
            if x in targets or (x == trig and j == 0):
                continue
            if gate and not gated and x != trig:
                rules.append((x, j, ["W2", "B1"]))
                gated = True
            else:
                rules.append((x, j, list(others)))
    fam = "disable-inside" + ("+enable+addworker" if reenable else "+addworker-after-done" if late_add else "+feb-gate" if gate else "")
    return scen(fam, cfg, ty, start, n, rng.choice([1, 1, 2]), chunk, 0, 1, rules,
                "targets %s disabled by the first invocation on shepherd %d" % (targets, trig))


def fam_migrate(rng, cfg, ty, d, trig, how):
    """the wrapper on the disabled shepherd yields / blocks on a FEB gate inside func: the runtime moves it to an active
    shepherd, where qthread_shep_ok() is true again"""
    ns, nwk = cfg
    w = ns * nwk
    rules = []
    fl = 8
    inside = []
    for j in range(nwk):
        rules.append((d, j, ["S%d" % fl, "W2", "Y" if how == "yield" else "B1"]))
        inside.append(fl)
        fl += 1
    rules.append((trig, 0, ["W%d" % f for f in inside] + ["D%d" % d, "S2"] + (["G1"] if how != "yield" else [])))
    for x in range(ns):
        for j in range(nwk):
            if x == d or (x == trig and j == 0):
                continue
            rules.append((x, j, ["W2"]))
    return scen("disable+" + how, cfg, ty, rng.choice([0, 7]), rng.choice([w + 2, 40, 64]), 1, 1 if ty == "chunk" else 0, 0, 1, rules)


def fam_run_there(rng, cfg, ty, variant):
    ns, nwk = cfg
    s = rng.range(1, ns - 1)
    n = rng.choice([8, 20, 40])
    other = rng.choice([x for x in range(ns) if x != s])
    if ty == "guided" and variant == "addworker+self-disable":
        variant = "addworker"       # activesheps = 1: the first GUIDED claim is the whole range, the added worker gets nothing
    if variant == "self-disable":
        rules = [(s, rng.choice([0, 0, 2]), ["D%d" % s])]
    elif variant == "addworker":
        rules = [(s, 0, ["A%d" % other])]
    elif variant == "addworker+self-disable":
        rules = [(s, 0, ["A%d" % other, "S3", "W6"]), (other, 0, ["S6", "W3"]), (s, 1, ["D%d" % s])]
    else:   # disable of another shepherd: no effect on the loop
        o2 = [x for x in range(1, ns) if x != s]
        rules = [(s, 0, ["D%d" % (o2[0] if o2 else s)])] if o2 else [(s, 0, ["D0"])]
    return scen("run_there:" + variant, cfg, ty, rng.choice([0, 3]), n, 1, 1 if ty == "chunk" else 0, s + 1, 0, rules)


def fam_free(rng, cfg, ty):
    """no handshake: the disable (and later enable) lands wherever the race puts it"""
    ns, nwk = cfg
    d = rng.range(1, ns - 1)
    t = rng.choice([x for x in range(ns) if x != d])
    rules = [(t, rng.below(3), ["D%d" % d]), (t, 3 + rng.below(4), ["E%d" % d])]
    if rng.chance(1, 2):
        rules.append((0, rng.below(3), ["D0"]))          # refused by the library
    return scen("free-running", cfg, ty, rng.choice([0, 11]), rng.choice([64, 200, 500]), rng.choice([1, 2]), rng.choice([0, 1, 3]) if ty == "chunk" else 0, 0, 0, rules)


def generate(rng, quick):
    out = []
    k = 0
    for cfg in CONFIGS:
        ns, nwk = cfg
        reps = 1 if quick else 6
        for _ in range(reps):
            for ty in QT:
                k += 1
                d = rng.range(1, ns - 1)
                trig = rng.choice([x for x in range(ns) if x != d])
                out.append(fam_disable_inside(rng, cfg, ty, [d], trig))
                if ns >= 3 and (not quick or k % 2 == 0):
                    ds = rng.shuffle(list(range(1, ns)))[:2]
                    out.append(fam_disable_inside(rng, cfg, ty, sorted(ds), rng.choice([x for x in range(ns) if x not in ds])))
                if not quick or k % 2 == 1:
                    out.append(fam_disable_inside(rng, cfg, ty, [d], trig, reenable=True))
                if not quick or k % 3 == 0:
                    out.append(fam_disable_inside(rng, cfg, ty, [d], trig, late_add=True))
                if ns >= 3 and (not quick or k % 3 == 1):
                    out.append(fam_disable_inside(rng, cfg, ty, [d], trig, gate=True))
                if not quick or k % 3 == 2:
                    out.append(fam_migrate(rng, cfg, ty, d, trig, rng.choice(["yield", "feb-block"])))
                out.append(fam_run_there(rng, cfg, ty, rng.choice(["self-disable", "self-disable", "addworker", "addworker+self-disable", "other-disable"])))
                if not quick:
                    out.append(fam_run_there(rng, cfg, ty, "self-disable"))
                out.append(fam_free(rng, cfg, ty))
    return out


# ---------------------------------------------------------------- log -> model tokens
def parse(lines):
    r = {"hdr": None, "events": [], "V": {}, "Z": {}, "status": "CRASH", "chunksize": None}
    for l in lines:
        p = l.split()
        if not p:
            continue
        if p[0] == "H":
            r["hdr"] = (int(p[1]), int(p[2]))
        elif p[0] == "K":
            r["chunksize"] = int(p[1])
        elif p[0] == "e" and len(p) == 7:
            r["events"].append((p[1], int(p[2]), int(p[3]), int(p[4]), int(p[5]), int(p[6])))
        elif p[0] == "V":
            r["V"] = {k: int(v) for k, v in (x.split("=") for x in p[1:])}
        elif p[0] == "Z":
            r["status"] = p[1]
            r["Z"] = {k: int(v) for k, v in (x.split("=") for x in p[2:])}
    return r


def tokens(events):
    """translate the event log into the machine's events; worker index = order of first appearance of the task"""
    wid = {}
    toks = []
    nforks = 0
    has_add = False
    ret = None
    signoffs = 0
    adds_path = {}
    for (k, tid, a, b, c, d) in events:
        if k in "FU" and a not in adds_path:
            adds_path[a] = k

    def w(tid):
        if tid not in wid:
            wid[tid] = len(wid)
        return wid[tid]
    for (k, tid, a, b, c, d) in events:
        if k == "f":
            nforks += 1
        elif k == "C":
            toks.append("g:%d:%d:%d" % (w(tid), b - a, a))
        elif k == "I":
            toks.append("i:%d:%d:%d" % (w(tid), a, b))
        elif k == "O":
            toks.append("o:%d" % w(tid))
        elif k == "K":
            toks.append("k:%d:%d:%d" % (w(tid), a, 1 if b else 0))
        elif k == "S":
            toks.append("s:%d" % w(tid))
            signoffs += 1
        elif k == "D":
            toks.append("m:%d" % w(tid))
        elif k == "X":
            if b == 0:
                toks.append("x:%d" % a)
            elif a != 0:
                toks.append("x:0")            # refused although not shepherd 0: not the model's behaviour
        elif k == "N":
            toks.append("n:%d" % a)
        elif k == "A":
            has_add = True
            toks.append("a")
            if adds_path.get(a) == "F":       # donecount was 0 when it was read, hence also here (it never decreases)
                toks.append("tf:%d" % a)
        elif k == "F":
            if not any(e[0] == "A" and e[2] == a for e in events):
                toks.append("tf:%d" % a)
        elif k == "U":
            toks.append("tu:%d" % a)
        elif k == "R":
            toks.append("c")
            ret = (a, b)
        # 'P' (activesheps++ of run_there before its fork) is the initial state of the machine
    return toks, nforks, has_add, ret, signoffs


def judge(sc, res, mo):
    """returns (mismatches, oracle failures, stats) for one scenario; mo = the machine's answer line"""
    mism, ofail = [], []
    V, Z = res["V"], res["Z"]
    toks, nforks, has_add, ret, signoffs = res["tok"]
    stats = {"signoffs": signoffs, "adds": sum(1 for e in res["events"] if e[0] == "A"), "events": len(res["events"]),
             "disables": sum(1 for e in res["events"] if e[0] == "X" and e[3] == 0), "inconclusive": Z.get("inconclusive", 0),
             "migrated_checks": 0, "partial": False}
    d = desc(sc)
    if res["status"] != "OK":
        ofail.append(("%s never returned (watchdog) or crashed: %s" % (sc["call"], res["status"]), d))
        mism.append(("termination", dict(d, impl=res["status"])))
    if ret is not None and ret[0] != ret[1]:
        ofail.append(("%s returned while %d invocation(s) of the user function were still running (entered %d, returned %d)"
                      % (sc["call"], ret[0] - ret[1], ret[0], ret[1]), d))
    if V:
        if V.get("oob"):
            ofail.append(("%d indices outside [start,stop) passed to the user function" % V["oob"], d))
        if V.get("twice"):
            ofail.append(("index %d passed to the user function more than once" % V["first_twice"], d))
    f = dict(x.split("=", 1) for x in mo.split(" | ")[-1].split() if "=" in x) if mo else {}
    if not mo.startswith("ok "):
        p = mo.split(" | ")[0].split(" ", 3)
        idx = int(p[1]) if len(p) > 2 and p[1].isdigit() else -1
        mism.append(("event-not-enabled", dict(d, refused_event_index=idx, token=p[2] if len(p) > 2 else mo[:80],
                                               reason=p[3] if len(p) > 3 else "", machine_state=mo.split(" | ")[-1][:200],
                                               events_before=" ".join(toks[max(0, idx - 12):idx + 1]))))
    else:
        safe = int(f["safe"])
        if res["status"] == "OK":
            if f["returned"] != "1":
                mism.append(("no-return-event", dict(d, machine=mo[:200])))
            if ret is not None and (int(f["ent"]), int(f["ret"])) != ret:
                mism.append(("entered/returned", dict(d, impl=ret, machine=mo[:200])))
            if Z.get("snap_as", -1) != int(f["as"]) or Z.get("snap_dc", -1) != int(f["dc"]):
                mism.append(("final-counters", dict(d, impl_activesheps=Z.get("snap_as"), impl_donecount=Z.get("snap_dc"), machine=mo[:200])))
            if int(f["live"]) != 0:
                mism.append(("workers-left", dict(d, machine=mo[:200])))
            if int(f["dc"]) > 0:
                if V.get("bad"):
                    ofail.append(("index %d passed to the user function %d times although a worker finished normally"
                                  % (V["first_bad"], V["first_bad_count"]), d))
                if f["covered"] != "%d:%d" % (sc["start"], sc["stop"]):
                    mism.append(("coverage", dict(d, machine=mo[:200])))
            else:
                stats["partial"] = True      # every worker signed off: qdis_all_signed_off_uncovered
    stats["migrated_checks"] = sum(1 for e in res["events"] if e[0] == "K" and e[3] == 1 and
                                   any(x[0] == "X" and x[3] == 0 for x in res["events"]))
    return mism, ofail, stats


def desc(sc):
    return {"scenario": sc["family"], "config": sc["config"], "call": sc["call"], "type": sc["type"].upper(), "start": sc["start"],
            "stop": sc["stop"], "incr": sc["incr"], "chunk": sc["chunk"], "note": sc["note"], "qdis_script": script(sc)}


def run_one(exe, sc, wd, setup=15):
    ns, nwk = (int(x) for x in sc["config"].split("x"))
    rc, lines, err = core.run_lines(exe, script(sc), timeout=wd + 60, env=core.qenv(ns, nwk, stack=65536, C12_ALARM=wd, C12_SETUP=setup))
    res = parse(lines)
    if res["hdr"] is None:
        raise core.BuildError("c12_disable harness did not start: rc=%s %s" % (rc, err[-400:]))
    if res["hdr"] != (ns, ns * nwk):
        raise core.BuildError("runtime reports %s, asked %dx%d" % (res["hdr"], ns, nwk))
    if res["status"] == "CRASH":
        res["status"] = "CRASH rc=%s" % rc if rc != -9 else "HANG (no output)"
    if res["status"].startswith("CRASH-"):
        res["status"] = res["status"].replace("CRASH-", "CRASH ")
    res["tok"] = tokens(res["events"])
    return res


def model_line(sc, res):
    toks, nforks, has_add, ret, so = res["tok"]
    ns = int(sc["config"].split("x")[0])
    return "T %d %d %d %d %d %s" % (sc["stop"], 0 if has_add else 1, sc["start"], nforks, ns, " ".join(toks))


def load_corpus():
    d = os.path.join(core.VERIF, "corpus", "C12")
    out = []
    for fn in sorted(os.listdir(d)) if os.path.isdir(d) else []:
        if fn.startswith("disable_") and fn.endswith(".json"):
            out += json.load(open(os.path.join(d, fn)))["scenarios"]
    return out


def build(ctx):
    ok, log = ctx.coq_make(["theories/Loops/ExtractQDisable.vo"])
    if not ok:
        raise core.BuildError("Loops/ExtractQDisable.v does not compile:\n" + log[-2000:])
    exe = ctx.link("c12_disable", ["c12_disable.c"], exclude=["qloop.c"])
    drv = ctx.model_driver("c12qdis_driver")
    return exe, drv


def read_order(ctx):
    """which of the two plain reads of `while (*dc < *as)` the library object built for this run performs first
    (offsets of donecount / activesheps in qqloop_handle_t: 0x18 / 0x20); None when the pattern is not recognised"""
    try:
        rc, out, _ = core.sh(["objdump", "-d", "--no-show-raw-insn", ctx.obj("qloop.c")], timeout=60)
        body = out.split("<qt_loop_queue_run>:", 1)[1].split("\n\n", 1)[0]
        import re
        for m in re.finditer(r"mov\s+0x(18|20)\(%r\w+\),%rax\n\s*\w+:\s+cmp\s+%rax,0x(18|20)\(%r\w+\)", body):
            if m.group(1) != m.group(2):
                return "activesheps first" if m.group(1) == "20" else "donecount first"
    except Exception:
        pass
    return None


def run_disable(ctx, quick):
    t0 = time.time()
    rng = ctx.rng.fork()
    pr = ctx.coq_properties(PROPS)
    exe, drv = build(ctx)
    scs = load_corpus()
    ncorp = len(scs)
    scs += generate(rng, quick)
    wd = 60
    failed = []

    def guarded(sc):
        if len(failed) >= 3:          # enough failing scenarios to report: do not wait for more watchdogs
            return {"hdr": None, "events": [], "V": {}, "Z": {}, "status": "SKIPPED", "chunksize": None, "tok": ([], 0, False, None, 0)}
        r = run_one(exe, sc, wd)
        if r["status"] != "OK" and r["Z"].get("inconclusive"):
            # a set-up handshake timed out (machine load) and the scenario then did not finish: once more, alone-ish, long handshakes
            r2 = run_one(exe, sc, 2 * wd, setup=60)
            r2["first_attempt"] = "%s with handshake time-outs (flags %d)" % (r["status"], r["Z"].get("inconclusive"))
            r = r2
        ret = r["tok"][3]
        if r["status"] != "OK" or (ret and ret[0] != ret[1]):
            failed.append(sc["family"])
        return r
    with ThreadPoolExecutor(max_workers=4) as pool:
        results = list(pool.map(guarded, scs))
    done = [(sc, r) for sc, r in zip(scs, results) if r["status"] != "SKIPPED"]
    if len(done) < len(scs):
        ctx.notes.append("queue loops with disable events: stopped after %d of %d scenarios (3 failing ones found)" % (len(done), len(scs)))
    scs = [x[0] for x in done]
    results = [x[1] for x in done]
    rc, mouts, merr = core.run_lines(drv, [model_line(sc, r) for sc, r in zip(scs, results)], timeout=600)
    if rc != 0 or len(mouts) != len(scs):
        raise core.BuildError("c12qdis model driver failed: rc=%s, %d of %d answers; %s" % (rc, len(mouts), len(scs), merr[-300:]))
    mism, ofail = [], []
    hist, nontrivial, samples = {}, set(), []
    tot = {"events": 0, "signoffs": 0, "adds": 0, "disables": 0, "inconclusive": 0, "partial": 0, "migrated": 0}
    for sc, res, mo in zip(scs, results, mouts):
        m, o, st = judge(sc, res, mo)
        mism += m
        ofail += o
        key = "%s:%s:%s" % (sc["family"], sc["config"], sc["type"])
        hist[key] = hist.get(key, 0) + 1
        tot["events"] += st["events"]
        tot["signoffs"] += st["signoffs"]
        tot["adds"] += st["adds"]
        tot["disables"] += st["disables"]
        tot["inconclusive"] += 1 if st["inconclusive"] else 0
        tot["partial"] += 1 if st["partial"] else 0
        tot["migrated"] += 1 if (st["migrated_checks"] and not st["signoffs"]) else 0
        if st["signoffs"] or st["adds"]:
            nontrivial.add((sc["family"], sc["config"], sc["type"], sc["start"], sc["stop"], st["signoffs"], st["adds"], st["events"]))
        if len(samples) < 5 and st["signoffs"] and len(samples) == len(set(s["scenario"] for s in samples)) and sc["family"] not in [s["scenario"] for s in samples]:
            samples.append({"scenario": sc["family"], "config": sc["config"], "type": sc["type"], "range": [sc["start"], sc["stop"]],
                            "events": st["events"], "signoffs": st["signoffs"], "addworker_calls": st["adds"], "machine": mo[:140]})
    ctx.cov["queue_disable"] = {
        "evaluations": len(scs), "corpus_cases": ncorp, "distinct_nontrivial": len(nontrivial), "events_accepted_by_machine": tot["events"],
        "sign_offs_observed": tot["signoffs"], "successful_disables": tot["disables"], "addworker_calls": tot["adds"],
        "scenarios_where_every_worker_signed_off(partial coverage, as the machine predicts)": tot["partial"],
        "scenarios_with_migration_instead_of_sign_off": tot["migrated"], "handshake_timeouts(inconclusive set-up, no verdict)": tot["inconclusive"],
        "rule": "non-trivial = at least one wrapper signed off (qthread_shep_ok() false after a func call) or qt_loop_queue_addworker ran; "
                "every logged event of every scenario must be an enabled transition of the extracted machine with the observed outcome",
        "input_distribution": hist, "mismatches": len(mism), "samples": samples, "configs": ["%dx%d" % c for c in CONFIGS],
        "caller_wait_read_order_in_this_build": read_order(ctx) or "not recognised",
        "notes_not_verdicts": {
            "qdis:wait-read-order (latent, compiler dependent)": "`while (*dc < *as)` is two plain reads in unspecified order; with activesheps "
            "read first and qt_loop_queue_addworker between the reads the call returns while the added worker is inside the user function "
            "(Coq witness qdis_asfirst_addworker_refuted; not reproducible on the real code without interposing plain loads; proposed patch "
            "docs/proposed_fixes/C12-queue-wait-read-order.diff). donecount first is proved safe for every schedule.",
            "qdis:run_there-all-workers-signed-off (API contract)": "qt_loop_queue_run_there on a shepherd that is disabled during the loop: the "
            "only worker retires, the call returns (nothing hangs, nothing runs twice), the rest of the range is not run; model == implementation "
            "in %d scenario(s) of this run (qdis_all_signed_off_uncovered); qdis_covered_exactly_once keeps the guard 'some worker stays enabled'" % tot["partial"]},
        "seconds": round(time.time() - t0, 1)}
    ctx.cov["evaluations"] = ctx.cov.get("evaluations", 0) + len(scs)
    ctx.cov["distinct_nontrivial"] = ctx.cov.get("distinct_nontrivial", 0) + len(nontrivial)
    ctx.cov["traces_validated_against_impl"] = ctx.cov.get("traces_validated_against_impl", 0) + len(scs)
    ctx.assumptions += [
        "queue loops with disable/enable/addworker (Properties_C12_disable.v): get_iters is one atomic claim of a non-empty prefix of what is "
        "left (claims_tile proves this for the four real cursor functions under a constant activesheps; here the divisor changes between calls, "
        "each call reads it once and qdis_counts_consistent gives activesheps >= 1 at that point); counters are Z without 64-bit wrap",
        "qdis_returns_after_all with activesheps read before donecount (what gcc -O1 emits for `*dc < *as`) holds for schedules without "
        "qt_loop_queue_addworker only (qdis_asfirst_addworker_refuted); with donecount read first (gcc -O0, the repo's build) for every schedule",
        "qt_loop_queue_run_there on a shepherd that gets disabled: the only worker signs off and the call returns with indices left "
        "(qdis_all_signed_off_uncovered; the real code does the same in the run_there:self-disable scenarios); qt_loop_queue_run always "
        "keeps worker 0 on shepherd 0 (qdis_run_covers)"]
    if tot["inconclusive"]:
        ctx.notes.append("queue loops with disable events: %d scenario(s) had a set-up handshake time out (machine load); their logs were still "
                         "checked by the acceptor" % tot["inconclusive"])
    if not mism and pr["ok"]:
        return
    what = ("queue loop with disable events: the real qloop.c made a step the machine Loops/CompletionQDisable does not allow "
            "(%d scenario(s), first: %s%s)" % (len(mism), mism[0][0], (": " + mism[0][1].get("reason", "")) if mism[0][1].get("reason") else "")) \
        if mism else "theorems in %s no longer check" % pr["file"]
    if ofail:
        why, d = ofail[0]
        slug = "returned-early" if "still running" in why else "never-returned" if "never returned" in why else "coverage"
        ctx.violation("qdis:" + slug, what + "; failing input: " + why,
                      {"failing_input": d, "reason": why, "first_mismatch": mism[0] if mism else None, "oracle_failures": len(ofail),
                       "coq_log": pr["log"][-1500:]})
    else:
        ctx.violation("qdis-broken", what, {"theorem_or_correspondence": ("real qloop.c != Loops/CompletionQDisable machine on " + mism[0][0])
                                            if mism else pr["file"], "first_mismatch": mism[0] if mism else None,
                                            "coq_log": pr["log"][-1500:]}, no_input=True)


def replay(ctx, j, case):
    """re-run one recorded scenario on the working tree and show what the real code and the machine do"""
    exe, drv = build(ctx)
    lines = case["qdis_script"]
    ns, nwk = (int(x) for x in case["config"].split("x"))
    ok = True
    for attempt in range(3):
        rc, out, err = core.run_lines(exe, lines, timeout=200, env=core.qenv(ns, nwk, stack=65536, C12_ALARM=90))
        res = parse(out)
        res["tok"] = tokens(res["events"])
        sc = {"stop": case["stop"], "start": case["start"], "config": case["config"]}
        rc2, mo, _ = core.run_lines(drv, [model_line(sc, res)], timeout=100)
        toks, nforks, has_add, ret, so = res["tok"]
        print("# run %d: status %s, %d events, %d sign-offs, entered/returned at return %s, visits %s" % (attempt + 1, res["status"], len(res["events"]), so, ret, res["V"]))
        print("#   machine: " + (mo[0][:300] if mo else "none"))
        if res["status"] != "OK" or (ret and ret[0] != ret[1]) or not (mo and mo[0].startswith("ok ")) or res["V"].get("twice") or res["V"].get("oob"):
            ok = False
            break
    if not ok:
        ctx.violation(j.get("signature", "replay"), "replayed scenario still fails", case)
