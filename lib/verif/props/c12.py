"""C12 parallel loops cover the iteration space exactly once.
Model: coq/theories/Loops/Model.v (split, tree spawn, spawner, micro-step queue-loop cursors);
theorems: coq/theories/Properties/Properties_C12.v; real code: harness/c/c12_loops.c (white-box qloop.c).

Correspondence modes (DESIGN section 4):
  grid : qt_loop_balance_* with an interposed worker count, all len<=70 x workers<=33 + 64-bit ranges: the ranges the
         user function receives and the (id, level, return slot) of every wrapper spawn must equal split/tree of the model
  M4   : every loop flavour on several shepherd x worker configurations, free running with yields; observed ranges
         (= model exactly where the result is schedule independent), spawn events, "still running" counter
  M3   : qqloop_get_iterations_{chunked,guided,factored,timed} executed by 1-4 real pthreads under a baton, one interposed
         atomic access per grant; cursor, phase, pending access (kind, expected, new) and claims compared after every grant
"""
import json
import os
import time
from .. import core
from . import _gen
from . import _c12_disable      # extension O: queue loops while shepherds are disabled / re-enabled

LEVEL = "proof"
EXPLANATION = ("Coq theorems over Loops/Model.v (split, tree spawn, spawner, micro-step queue-loop cursors for every schedule) + "
               "differential correspondence of that model with the working tree's qloop.c: interposed-spawn grid, free-running loops "
               "of every flavour on several configurations, baton-scheduled replay of the four get_iterations functions")

BAL = ["plain", "simple", "sv", "dc", "aligned", "sinc"]
LOOP = ["plain", "simple_sinc", "sv", "dc", "aligned", "sinc"]
QT = ["chunk", "guided", "factored", "timed"]
NLINES = {"B": 3, "L": 4, "Q": 3, "C": 1, "g": 1, "E": 1}
MLINES = {"B": 2, "L": 3, "C": 1, "g": 1, "a": 1, "d": 1}


class Case(object):
    def __init__(self, kind, impl, model, meta, start, stop, exact=True):
        self.kind, self.impl, self.model, self.meta, self.start, self.stop, self.exact = kind, impl, model, meta, start, stop, exact


def run_units(exe, units, env, timeout=900, transient=None):
    """run command units; a unit that hangs/crashes is re-run alone (fresh process) once: a hang that does not repeat is
    recorded in `transient` (reported in the evidence, not a verdict), one that repeats is marked; the rest continues"""
    out = [None] * len(units)
    i, restarts, hdr = 0, 0, None
    while i < len(units):
        cmds = [c for u in units[i:] for c in u]
        rc, lines, err = core.run_lines(exe, cmds + ["X"], timeout=timeout, env=env)
        if not lines or not lines[0].startswith("H "):
            raise core.BuildError("c12 harness did not start: rc=%s %s" % (rc, err[-500:]))
        hdr = lines[0]
        p, j, failed = 1, i, False
        while j < len(units):
            need = sum(NLINES[c[0]] for c in units[j])
            chunk = lines[p:p + need]
            if len(chunk) < need or "TIMEOUT" in chunk:
                status = "HANG" if ("TIMEOUT" in lines[p:] or rc == -9) else "CRASH rc=%s" % rc
                out[j] = (status, chunk)
                for attempt in range(1):
                    rc2, l2, _ = core.run_lines(exe, units[j] + ["X"], timeout=int(env.get("C12_ALARM", 15)) * 2 + 60, env=env)
                    if len(l2) == 1 + need and "TIMEOUT" not in l2:
                        out[j] = ("OK", l2[1:])
                        if transient is not None:
                            transient.append({"unit": units[j][:2], "first_status": status, "passed_on_retry": attempt + 1})
                        break
                failed = True
                break
            out[j] = ("OK", chunk)
            p += need
            j += 1
        if not failed:
            break
        i = j + 1
        if out[j][0] != "OK":
            restarts += 1
        if restarts > 2:
            for k in range(i, len(units)):
                out[k] = ("SKIPPED", [])
            break
    return hdr, out


def run_model(drv, cases):
    cmds = [c for cs in cases for c in cs.model]
    rc, lines, err = core.run_lines(drv, cmds, timeout=900)
    res, p = [], 0
    for cs in cases:
        need = sum(MLINES[c[0]] for c in cs.model)
        res.append(lines[p:p + need])
        p += need
    if p != len(lines) or rc != 0:
        raise core.BuildError("c12 model driver: unexpected output (rc=%s, %d lines for %d expected) %s" % (rc, len(lines), p, err[-300:]))
    return res


def parse_ranges(line):
    return [tuple(int(x) for x in t.split(":")) for t in line.split()[1:]]


def oracle(ranges, start, stop, active, complete=True):
    """the property on observed behaviour: non-empty, pairwise disjoint, union = [start,stop), nothing still running"""
    rs = sorted(ranges)
    pos = start
    for lo, hi in rs:
        if hi <= lo:
            return "empty or inverted range %d:%d passed to the user function" % (lo, hi)
        if lo < start or hi > stop:
            return "range %d:%d outside [%d,%d)" % (lo, hi, start, stop)
        if lo < pos:
            return "index %d passed twice (ranges overlap at %d:%d)" % (lo, lo, hi)
        if lo > pos and complete:
            return "indices %d..%d never passed to the user function" % (pos, lo - 1)
        pos = hi
    if complete and pos != stop:
        return "indices %d..%d never passed to the user function" % (pos, stop - 1)
    if active != 0:
        return "loop call returned while %d invocations were still running" % active
    return None


# ---------------------------------------------------------------- generators
def bcase(kind, fl, start, ln, fake, ye, realw):
    stop = start + ln
    nw = fake if fake else realw
    st = {"plain": "dc", "simple": "dc", "simple_sinc": "sinc"}.get(fl, fl)
    return Case(kind, ["%s %s %d %d %d %d" % (kind, fl, start, stop, fake, ye)],
                ["%s %s %d %d %d" % (kind, st, start, stop, nw)],
                dict(call=("qt_loop_balance" if kind == "B" else "qt_loop") + ("" if fl == "plain" else "_" + fl.replace("simple_sinc", "simple")),
                     start=start, stop=stop, workers=nw, interposed_workers=bool(fake), yield_every=ye), start, stop)


def gen_grid(rng, quick):
    cs = []
    k = 0
    for ln in range(1, 71):
        for nw in range(1, 34):
            fl = BAL[k % 6]
            k += 1
            start = rng.choice([0, 0, 1, 7, rng.below(100000)])
            cs.append(bcase("B", fl, start, ln, nw, 0, 4))
    # 64-bit ranges: the split arithmetic near SIZE_MAX and with huge `each`
    for _ in range(150 if quick else 1500):
        nw = rng.choice([1, 2, 3, 4, 5, 7, 8, 16, 31, 32, 33, 64, 100, 255, 256, 257])
        mode = rng.below(4)
        if mode == 0:
            ln = rng.range(1, 2 ** 40)
        elif mode == 1:
            ln = max(1, nw * rng.range(1, 2 ** 30) + rng.choice([-1, 0, 1]))
        elif mode == 2:
            ln = rng.range(1, 3 * nw)
        else:
            ln = rng.range(1, 2 ** 62)
        start = rng.choice([2 ** 64 - 1 - ln, 2 ** 63 - rng.below(1000), rng.below(2 ** 63), 2 ** 64 - 1 - ln - rng.below(2 ** 20)])
        start = max(0, min(start, 2 ** 64 - 1 - ln))
        cs.append(bcase("B", rng.choice(BAL), start, ln, nw, 0, 4))
    return cs


def qcase(rng, ty, start, ln, incr, chunk, mode, fake, ye, realw):
    stop = start + ln
    nw = fake if fake else realw
    k = chunk if (chunk and ty == "chunk") else max(1, ln // nw // 10)
    sheps = nw if mode == 0 else 1
    # schedule independent results: CHUNK (fetch-add chain), GUIDED (next block is a function of the cursor),
    # anything run by one task (run_there), single worker
    exact = ty in ("chunk", "guided") or (ty == "factored" and (mode != 0 or nw == 1))
    fuel = 6 * ln + 50
    return Case("Q", ["Q %s %d %d %d %d %d %d %d" % (ty, start, stop, incr, chunk, mode, fake, ye)],
                ["C %s %d %d 1 %d %d %d %d 1 -7" % (ty, start, stop, nw, sheps, k, incr), "a %d" % fuel],
                dict(call="qt_loop_queue_%s" % ("run" if mode == 0 else "run_there(%d)" % (mode - 1)), type=ty.upper(), start=start, stop=stop,
                     incr=incr, chunk=k, workers=nw, interposed_workers=bool(fake), yield_every=ye, expect_chunksize=k), start, stop, exact)


def gen_m4(rng, ns, nwk, quick):
    w = ns * nwk
    lens = sorted(set(x for x in [1, 2, w - 1, w, w + 1, 2 * w + 1, 97, 1000] if x > 0))
    cs = []
    for kind, fls in (("B", BAL), ("L", LOOP)):
        for fl in fls:
            for ln in lens:
                if quick and ln == 1000 and kind == "L" and not rng.chance(1, 2):
                    continue
                start = rng.choice([0, 5, rng.below(1000), 2 ** 32 + rng.below(100)])
                cs.append(bcase(kind, fl, start, ln, 0, rng.choice([0, 1, 3]), w))
    for ty in QT:
        for ln in lens:
            start = rng.choice([0, 5, rng.below(1000), 2 ** 32 + rng.below(100)])
            incr = rng.choice([1, 1, 2, 3])
            ye = rng.choice([0, 1, 3])
            cs.append(qcase(rng, ty, start, ln, incr, 0, 0, 0, ye, w))
            if ty == "chunk":
                for ch in sorted(set([1, 3, ln, ln + 5, rng.range(1, ln + 1)])):
                    if quick and ln == 1000 and ch == 1:
                        continue
                    cs.append(qcase(rng, ty, start, ln, incr, ch, 0, 0, ye, w))
            cs.append(qcase(rng, ty, start, ln, incr, 0, 1 + rng.below(ns), 0, ye, w))
            if rng.chance(1, 3):
                cs.append(qcase(rng, ty, start, ln, incr, rng.choice([0, 2]), 0, w + rng.range(1, 3), ye, w))
    return cs


def gen_m3(rng, n):
    cs = []
    for i in range(n):
        ty = QT[i % 4]
        nth = rng.choice([1, 2, 2, 3, 3, 4])
        nw = rng.choice([1, 2]) if nth == 1 else rng.choice([nth, nth, 2, 5])
        sheps = rng.choice([nth, nth, 1, 2, 3, 4, 7])
        start = rng.choice([0, 0, 3, rng.below(1000)])
        ln = rng.choice([1, 2, 3, rng.range(1, 12), rng.range(1, 40), rng.range(20, 90)])
        stop = start + ln
        chunk = rng.choice([1, 1, 2, 3, 7, ln, ln + 3, rng.range(1, ln + 1)])
        step = rng.choice([1, 1, 2, 3]) if ty == "timed" else rng.choice([0, 1, 2])
        nsheps = rng.choice([1, 2, nth])
        impl = ["C %s %d %d %d %d %d %d %d %d -7" % (ty, start, stop, nth, nw, sheps, chunk, step, nsheps)]
        mode = rng.below(4)
        sched = []
        nrand = rng.range(0, 5 * ln + 10)
        if mode == 1:      # bursts: everybody reads the same cursor, then everybody tries its CAS
            while len(sched) < nrand:
                order = rng.shuffle(list(range(nth)))
                for _ in range(rng.range(1, 3)):
                    sched += order
        elif mode == 2:    # one thread much faster than the others
            fast = rng.below(nth)
            sched = [fast if rng.chance(3, 4) else rng.below(nth) for _ in range(nrand)]
        else:
            sched = [rng.below(nth) for _ in range(nrand)]
        rounds = 6 * ln + 24
        sched += [t for _ in range(rounds) for t in range(nth)]
        g = ["g %d %d" % (t, rng.below(2)) for t in sched]
        cs.append(Case("M3", impl + g + ["E"], impl + g + ["d"],
                       dict(function="qqloop_get_iterations_" + ("chunked" if ty == "chunk" else ty), start=start, stop=stop, threads=nth,
                            num_workers=nw, activesheps=sheps, chunksize=chunk, step=step, schedule_len=len(sched),
                            schedule_head=" ".join(g[:60])), start, stop))
    return cs


# ---------------------------------------------------------------- check
def evaluate(cs, status, il, ml, mism, ofail, stats):
    """compare one case, run the oracle on the implementation's output"""
    meta = cs.meta
    if status != "OK":
        if status == "SKIPPED":
            return
        mism.append(("termination", dict(meta, impl=status, model="terminates: " + " | ".join(ml)[:300])))
        ofail.append(("%s: the call never returned (watchdog) or crashed: %s" % (meta.get("call", meta.get("function")), status), dict(meta, impl_output=il[:5])))
        return
    if cs.kind in ("B", "L"):
        n = 3 if cs.kind == "L" else 2
        if il[:n] != ml[:n]:
            d = core.first_diff(il[:n], ml[:n])
            mism.append(("%s line %s" % ("balance" if cs.kind == "B" else "qt_loop", "TWR"[d] if cs.kind == "L" else "TR"[d]),
                         dict(meta, impl=il[d][:400], model=ml[d][:400])))
        rs = parse_ranges(il[n - 1])
        act = int(il[n].split()[1])
        why = oracle(rs, cs.start, cs.stop, act)
        if why is None and cs.kind == "L" and any(hi - lo != 1 for lo, hi in rs):
            why = "qt_loop passed a range that is not a single index"
        if why:
            ofail.append((why, dict(meta, impl=il[n - 1][:400])))
        if len(rs) >= 2:
            stats["nontrivial"].add((cs.kind, meta["call"], cs.start, cs.stop, meta["workers"]))
    elif cs.kind == "Q":
        k = int(il[0].split()[1])
        if k != meta["expect_chunksize"]:
            mism.append(("queue chunksize", dict(meta, impl=k)))
        rs = parse_ranges(il[1])
        if not ml[1].startswith("A "):
            raise core.BuildError("model ran out of fuel: " + ml[1][:100])
        if cs.exact and il[1].split()[1:] != ml[1].split()[1:]:
            mism.append(("queue ranges", dict(meta, impl=il[1][:400], model=ml[1][:400])))
        act = int(il[2].split()[1])
        why = oracle(rs, cs.start, cs.stop, act)
        if why:
            ofail.append((why, dict(meta, impl=il[1][:400])))
        if len(rs) >= 2:
            stats["nontrivial"].add(("Q", meta["call"], meta["type"], cs.start, cs.stop, meta["workers"], meta["chunk"]))
        stats["exact_q" if cs.exact else "oracle_only_q"] += 1
    else:
        mlx = ml[:-1] + ["E " + ml[-1].split()[1]]
        if ml[-1] != "d 1":
            raise core.BuildError("generator: model schedule did not finish the loop: " + json.dumps(meta)[:300])
        d = core.first_diff(il, mlx)
        if d is not None:
            mism.append(("cursor step %d" % d, dict(meta, grant=(cs.impl[d] if d < len(cs.impl) else None), impl=il[d] if d < len(il) else None,
                                                    model=mlx[d] if d < len(mlx) else None, before=il[max(0, d - 3):d])))
        claims = []
        winners = set()
        cur, pha = cs.start, (cs.start + cs.stop) // 2
        pend = {}
        for l in il[1:-1]:
            p = l.split()
            k = pend.get(p[1])
            if k:                       # what happened to the access this thread was blocked at
                kind, a, b = k
                if kind == "1":
                    stats["acc"]["fetch_add"] += 1
                elif kind == "2":
                    stats["acc"]["cas_start_ok" if int(a) == cur else "cas_start_failed"] += 1
                elif kind == "3":
                    stats["acc"]["cas_phase_ok" if int(a) == pha else "cas_phase_failed"] += 1
                    if b == str(cs.stop):
                        stats["acc"]["cas_phase_to_stop"] += 1
            pend[p[1]] = p[4].split(":")
            cur, pha = int(p[2]), int(p[3])
            for t in p[5:]:
                claims.append(tuple(int(x) for x in t.split(":")))
                winners.add(p[1])
        why = oracle(claims, cs.start, cs.stop, 0, complete=(il[-1] == "E 1"))
        if why is None and il[-1] != "E 1":
            why = "workers still claiming after a schedule the model finishes"
        if why:
            ofail.append((why, dict(meta, claims=claims[:50])))
        stats["grants"] += len(il) - 2
        if len(winners) >= 2:
            stats["nontrivial"].add(("M3", meta["function"], cs.start, cs.stop, meta["threads"], meta["activesheps"], meta["chunksize"], meta["schedule_head"]))


def run(ctx):
    rng = ctx.rng
    quick = ctx.tier == "quick"
    _gen.regen(ctx, ["Qloop"])      # Gen/*.v regenerated from the source + Properties_Gen_*.v (tools/ctrans.py)
    pr = ctx.coq_properties("Properties/Properties_C12.v")
    exe = ctx.link("c12_loops", ["c12_loops.c"], exclude=["qloop.c"])
    drv = ctx.model_driver("c12_driver")
    mism, ofail = [], []
    stats = {"nontrivial": set(), "grants": 0, "exact_q": 0, "oracle_only_q": 0,
             "acc": {"fetch_add": 0, "cas_start_ok": 0, "cas_start_failed": 0, "cas_phase_ok": 0, "cas_phase_failed": 0, "cas_phase_to_stop": 0}}
    evals = 0
    kinds = {}
    samples = []
    batches = []
    transient = []
    cj = json.load(open(os.path.join(core.VERIF, "corpus", "C12", "fixed_cases.json")))
    cw = cj["config"][0] * cj["config"][1]
    corpus = []
    for c in cj["cases"]:
        if c["kind"] == "Q":
            corpus.append(qcase(rng, c["type"], c["start"], c["len"], c["incr"], c["chunk"], c["mode"], c["fake"], c["ye"], cw))
        else:
            corpus.append(bcase(c["kind"], c["flavour"], c["start"], c["len"], c["fake"], c["ye"], cw))
    batches.append(("corpus", tuple(cj["config"]), corpus))
    # the split / tree / slot arithmetic does not depend on the configuration: the big grid runs on 1x1 (fast and
    # insensitive to machine load), a sample of it on 2x2 so that the tree's children really run on other workers
    grid = gen_grid(rng.fork(), quick)
    batches.append(("grid", (1, 1), grid))
    batches.append(("grid", (2, 2), [grid[i] for i in range(0, len(grid), 9 if quick else 3)]))
    configs = [(1, 1), (2, 2), (4, 1), (3, 2)] if quick else [(1, 1), (2, 2), (4, 1), (3, 2), (1, 4), (2, 1), (5, 1), (8, 2), (1, 3)]
    for (ns, nwk) in configs:
        m4 = gen_m4(rng.fork(), ns, nwk, quick)
        if quick and nwk > 1:        # several workers per shepherd are slow under machine load: half of the cases in the quick tier
            m4 = [c for i, c in enumerate(m4) if i % 2 == (ctx.seed % 2)]
        batches.append(("M4", (ns, nwk), m4))
    batches.append(("M3", (1, 1), gen_m3(rng.fork(), 400 if quick else 8000)))
    phase = {"coq+build": round(time.time() - ctx.t0, 1)}
    # per-case watchdog scaled to the machine load: 15 s when a small balance loop takes the usual ~3 ms, up to 120 s
    t1 = time.time()
    run_units(exe, [["B dc 0 8 0 1"]] * 100, core.qenv(2, 2, stack=65536, C12_ALARM=120))
    per_case = (time.time() - t1) / 100
    wd = int(min(120, max(15, 2000 * per_case)))
    phase["calibration"] = "%.1f ms per small loop on 2x2 -> watchdog %d s" % (per_case * 1000, wd)
    for (name, (ns, nwk), cases) in batches:
        tb = time.time()
        if len(ofail) >= 6:
            ctx.notes.append("stopped before batch %s %dx%d: %d failing inputs already found" % (name, ns, nwk, len(ofail)))
            break
        hdr, outs = run_units(exe, [c.impl for c in cases], core.qenv(ns, nwk, stack=65536, C12_ALARM=wd), transient=transient)
        _, hs, hw = hdr.split()
        if int(hs) != ns or int(hw) != ns * nwk:
            raise core.BuildError("runtime reports %s shepherds / %s workers, asked %dx%d" % (hs, hw, ns, nwk))
        tm = time.time()
        mouts = run_model(drv, cases)
        phase["%s %dx%d" % (name, ns, nwk)] = "impl %.1fs model %.1fs (%d cases)" % (tm - tb, time.time() - tm, len(cases))
        for cs, (status, il), ml in zip(cases, outs, mouts):
            cs.meta["config"] = "%dx%d" % (ns, nwk)
            cs.meta["mode"] = name
            cs.meta["replay_cmds"] = cs.impl          # ./check C12 --replay <file> feeds these to the harness
            evaluate(cs, status, il, ml, mism, ofail, stats)
            evals += 1
            kk = name + ":" + cs.meta.get("call", cs.meta.get("function", "")) + ((":" + cs.meta["type"]) if "type" in cs.meta else "")
            kinds[kk] = kinds.get(kk, 0) + 1
        for cs, (status, il) in list(zip(cases, outs))[3:40:12]:
            if len(samples) < 8 and status == "OK":
                samples.append(dict({k: v for k, v in cs.meta.items() if k != "replay_cmds"}, impl=[l[:160] for l in il[:4]]))
    ctx.cov.update(
        evaluations=evals, distinct_nontrivial=len(stats["nontrivial"]), samples=samples,
        rule="grid: qt_loop_balance_* for len<=70 x (interposed) workers<=33 (all 2310 pairs on 1x1, a sample "
             "on 2x2) and 64-bit ranges; M4: 12 balance/qt_loop flavours and 4 queue-loop types x lengths {1,2,w-1,w,w+1,2w+1,97,1000} "
             "x non-zero starts x chunk sizes x run/run_there on each configuration; M3: baton schedules (uniform, bursts, one fast thread) over "
             "1-4 pthreads. non-trivial = the user function received >= 2 ranges (grid/M4) or >= 2 threads obtained claims (M3)",
        traces_validated_against_impl=evals, input_distribution=kinds, configs=["%dx%d" % c for c in configs],
        m3_grants_compared=stats["grants"], m3_access_outcomes=stats["acc"], queue_cases_compared_exactly=stats["exact_q"], queue_cases_oracle_only=stats["oracle_only_q"],
        correspondence_mismatches=len(mism), transient_stalls=transient, phase_seconds=phase)
    if transient:
        ctx.notes.append("%d case(s) did not return within the 15 s watchdog once and passed when re-run alone (recorded in coverage.transient_stalls; "
                         "seen under heavy machine load with qt_loop_balance_sv)" % len(transient))
    ctx.assumptions += [
        "values are Z without wrap-around: start, stop, stop + workers*chunk below 2^62 for the queue loops (size_t up to 2^64-1 for the split)",
        "queue loops in the base tiers: no shepherd is disabled during the loop, no qt_loop_queue_addworker (both are covered by the disable tier, Loops/CompletionQDisable.v); iq->step >= 1 for TIMED",
        "sequential consistency; plain reads of iq->start/phase are single accesses",
        "third clause (loop_returns_after_all*): full/empty cells, sinc and donecount are abstract in Loops/Completion.v (readFF passes only a "
        "full cell, the runtime's writeEF fills only an empty cell, qthread_spawn empties the return cell, one signal per task); that the real "
        "primitives behave so is C01/C03/C05/C10; the slot map of that model is the one compared with the real qthread_spawn calls here, and "
        "completion is also observed on the real runtime (watchdog + still-running counter)"]
    ctx.cov["refuted_model_variants"] = ["aligned_slots_refuted (slot rules before 3745911)", "spawner_slots_refuted (slot rules before 1c7a534)"]
    broken = bool(mism) or not pr["ok"]
    if not broken:
        for (w, c) in ofail[:3]:
            ctx.violation("unlisted:" + w.split()[0], w, c)
    else:
        what = ("correspondence Loops.Model / qloop.c broken in %d cases (first: %s)" % (len(mism), mism[0][0])) if mism else \
               "theorems in %s no longer check" % pr["file"]
        if ofail:
            w, c = ofail[0]
            ctx.violation("broken+input", what + "; failing input: " + w,
                          {"failing_input": c, "reason": w, "first_mismatch": mism[0] if mism else None, "coq_log": pr["log"][-1500:],
                           "oracle_failures": len(ofail)})
        else:
            ctx.violation("broken", what, {"theorem_or_correspondence": ("impl != Loops.Model on " + mism[0][0]) if mism else pr["file"],
                                           "first_mismatch": mism[0] if mism else None, "coq_log": pr["log"][-1500:]}, no_input=True)
    # extension O: queue loops with disable / enable / addworker events (event machine, Properties_C12_disable.v)
    _c12_disable.run_disable(ctx, quick)


def replay(ctx, path):
    """re-run the failing input of a replay file on the real code (and the model) and print both"""
    j = json.load(open(path))
    r = j.get("replay", {})
    case = r if "replay_cmds" in r else (r.get("failing_input") or (r.get("first_mismatch") or [None, None])[1])
    print("# %s: %s" % (j.get("signature"), j.get("what")))
    if case and "qdis_script" in case:          # extension O scenario
        return _c12_disable.replay(ctx, j, case)
    if not case or "replay_cmds" not in case:
        print("# no single input recorded (%s): running the whole check" % r.get("theorem_or_correspondence"))
        return run(ctx)
    ns, nwk = (int(x) for x in case["config"].split("x"))
    exe = ctx.link("c12_loops", ["c12_loops.c"], exclude=["qloop.c"])
    hdr, outs = run_units(exe, [case["replay_cmds"]], core.qenv(ns, nwk, stack=65536))
    status, il = outs[0]
    print("# input: " + json.dumps({k: v for k, v in case.items() if k not in ("replay_cmds", "impl", "model", "impl_output", "claims")}))
    print("# real code (%s): %s" % (hdr, status))
    for l in il[:40]:
        print("  " + l[:300])
    if status != "OK":
        ctx.violation("replay", "replayed input: %s" % status, {"failing_input": case, "status": status})
        return
    start, stop = case["start"], case["stop"]
    if case["replay_cmds"][0][0] in "BLQ":
        rl = [l for l in il if l.startswith("R")][0]
        act = int([l for l in il if l.startswith(". ")][0].split()[1])
        why = oracle(parse_ranges(rl), start, stop, act)
    else:
        claims = [tuple(int(x) for x in t.split(":")) for l in il[1:-1] for t in l.split()[5:]]
        why = oracle(claims, start, stop, 0, complete=(il[-1] == "E 1"))
    print("# property oracle: " + (why or "accepts"))
    if why:
        ctx.violation("replay", "replayed input: " + why, {"failing_input": case, "reason": why})
