"""Mode M4 for syncvars (C03 under REAL concurrency; extension I, template: _feb_free.py): free-running programs on the real
runtime (harness/c/c03_free.c, white-box include of the working tree's syncvar.c, no controller between the calls), every call
logged with two tickets of one global __sync_fetch_and_add (just before the call / just after it returned); the logged
per-variable histories are run through the acceptor extracted from coq/theories/Syncvar/History.v (ocaml/c03hist_driver.ml),
whose soundness (accept => a linearisation exists in which every call is enabled in the atomic 60-bit cell and returns the
spec's result, ending in the audited state, no call left pending enabled) and completeness (reject => none exists) are
theorems of coq/theories/Properties/Properties_C03_hist.v.

Programs are generated so that EVERY schedule terminates (see Gen): variables are ranked, every task touches the variables in
rank order, and each variable follows a discipline that excludes a single-variable deadlock; a run that does not finish is
therefore a disagreement with the model.  Nothing here depends on timing: only the logged ticket order is used.
"""
import bisect
import json
import os
import subprocess
import time

from .. import core

M60 = (1 << 60) - 1
M64 = (1 << 64) - 1
FUEL = 6000
READS = ("readFE", "readFE_nb", "readFF", "readFF_nb")
VALW = ("writeEF", "writeEF_nb", "writeF")
# API name -> (cell operation of Syncvar/History.v, is non-blocking twin)
CELLOP = {"readFE": ("readFE", 0), "readFE_nb": ("readFE", 1), "readFF": ("readFF", 0), "readFF_nb": ("readFF", 1),
          "writeEF": ("writeEF", 0), "writeEF_nb": ("writeEF", 1), "writeF": ("writeF", 0), "fill": ("fill", 0), "empty": ("empty", 0),
          "incrF": ("incrF", 0), "status": ("status", 0)}
OVERVALS = [1 << 60, (1 << 60) + 1, 1 << 63, M64, (1 << 61) - 1]


# ---------------------------------------------------------------- the atomic cell (Syncvar/History.v `atomic`), for the generator's self-check
def atomic(cell, op, arg, readers_waiting=False):
    """cell = (full, val) -> None (has to wait) | (cell', result);  'over' for a rejected write"""
    full, val = cell
    if op in ("writeEF", "writeF") and arg > M60:
        return "over"
    if op == "readFE":
        return ((0, val), val) if full else None
    if op == "readFF":
        return ((1, val), val) if full else None
    if op == "writeEF":
        return None if full else ((1, arg), None)
    if op == "writeF":
        return ((1, arg), None)
    if op == "fill":
        return ((1, val), None)
    if op == "empty":
        return ((0, val), None)
    if op == "incrF":
        nv = (val + arg) & M60
        return ((1 if (full or readers_waiting) else 0, nv), nv)
    if op == "status":
        return (cell, full)
    raise ValueError(op)


# ---------------------------------------------------------------- generator
class Gen:
    """One script.  Variables 0..K-1; the index is the rank.  Every task's program is the concatenation, in rank order, of its
    segment on each variable (plus state-preserving non-blocking noise anywhere: status, readFF_nb, writes of values >= 2^60,
    which are rejected), so that a task that waits on variable i has issued every state-changing call it will ever issue on
    the variables below i.  A deadlock would therefore have to be a deadlock of the lowest-ranked variable with a waiter, taken
    alone, and the discipline of each kind excludes that:
      CH  channel: pure producers (writeEF) and pure consumers (readFE), #prod - #cons = final_full - init_full
      CH1 channel with a single consumer, who may also consume by readFF followed by empty / readFE_nb
      BC  broadcast: one owner toggles the variable without ever blocking on it (fill, empty, writeF, incrF, writeEF_nb,
          readFE_nb) and ends with a filling call; everybody else only waits for full (readFF), fills, or incrF's
      MU  mutex: readFE ... fill/writeF/writeEF pairs with nothing blocking in between (no incrF: it would fill the
          variable behind the holder's back when a second locker waits)
      WO  overwrite: starts full, k writers block in writeEF, one owner overwrites (writeF, the variable is full in that phase)
          and then consumes k times
      RC  reader churn: CH1 that starts empty and ends full, one consumer, 1-2 producers, every other task polls with readFF
      CT  counter: everybody incrF's, readers readFF; when the counter starts empty one owner ends with fill (incrF fills an
          empty variable only if a reader already waits, so without that fill readers arriving late would wait for ever)
    Waiters for full are put only on variables that end full and only in tasks that are neither producer nor consumer."""

    def __init__(self, rng, ntasks, nvars, nsheps, force=None):
        self.force = force          # kind of every variable (aimed scripts), else drawn per variable
        self.rng = rng
        self.nt = ntasks
        self.K = nvars
        self.ns = nsheps
        self.val = 100
        self.big = 0
        self.vars = []
        self.seg = [[[] for _ in range(nvars)] for _ in range(ntasks)]     # seg[t][v] = list of ops (name, v, dm, val, tag)
        self.role = [[None] * nvars for _ in range(ntasks)]

    def v(self):
        """a fresh value (unique within the script): mostly small, sometimes just below 2^60"""
        if self.rng.chance(1, 8):
            self.big += 1
            return M60 + 1 - self.big          # 2^60-1, 2^60-2, ...
        self.val += 1
        return self.val

    def wdm(self):
        return self.rng.weighted([(0, 3), (3, 2)])

    def produce(self, w):
        name = self.rng.weighted([("writeEF", 6), ("writeEF_nbf", 3)])
        return (name, w, self.wdm(), self.v(), "tok")

    def consume(self, w, single):
        r = self.rng
        k = r.weighted([("readFE", 6), ("readFE_nbf", 3), ("combo", 5 if single else 0)])
        if k == "combo":
            e = r.weighted([("empty", 3), ("readFE_nb", 2)])
            return [(r.weighted([("readFF", 3), ("readFF_nbf", 1)]), w, r.below(2), 0, "tok"), (e, w, r.below(2) if e == "readFE_nb" else 0, 0, "tok")]
        return [(k, w, r.below(2), 0, "tok")]

    def waiter(self, w):
        r = self.rng
        return (r.weighted([("readFF", 5), ("readFF_nbf", 2)]), w, r.below(2), 0, "x")

    def incr(self, w, wrapish, tag="x"):
        r = self.rng
        if wrapish:
            inc = r.weighted([(1, 3), (2, 2), (3, 1), (7, 1), (1 << 60, 1), (M64, 1), ((1 << 60) + 1, 1)])
        else:
            inc = r.weighted([(1, 5), (2, 2), (3, 1), (5, 1)])
        return ("incrF", w, 0, inc, tag)

    def noise(self):
        r = self.rng
        w = r.below(self.K)
        k = r.weighted([("status", 3), ("readFF_nb", 3), ("over", 3)])
        if k == "over":
            return (r.choice(["writeF", "writeEF", "writeEF_nb"]), w, self.wdm(), r.choice(OVERVALS), "x")
        return (k, w, 0 if k != "readFF_nb" else r.below(2), 0, "x")

    def build(self):
        r = self.rng
        nt, K = self.nt, self.K
        for w in range(K):
            kind = r.weighted([("CH", 4), ("CH1", 3), ("BC", 5), ("MU", 2), ("CT", 5), ("RC", 4), ("WO", 3)])
            if self.force:
                kind = self.force
            if nt < 3 and kind in ("CH", "CH1", "RC", "WO"):
                kind = "BC"
            init_full = r.below(2)
            init_val = self.v()
            W = {"kind": kind, "init_full": init_full, "init_val": init_val, "final_full": 1}
            part = r.shuffle(list(range(nt)))[: max(2, r.range(2, max(2, min(nt, 4 + nt // 2))))]
            if kind == "WO":
                # overwrite under blocked writers: starts full; k writers each deposit once with writeEF (they block: the variable
                # is full); ONE owner first overwrites with writeF / fill / incrF - nobody but the owner ever empties the variable,
                # so it is full during this phase and no token is added - and then consumes exactly k times with readFE (1 + k
                # tokens, k slots): ends full.  writeF meets state "full with waiters" here (the defect repaired by /repo 1091148).
                W["init_full"] = init_full = 1
                order = r.shuffle(list(range(nt)))
                k = r.range(1, max(1, min(6, nt - 1)))
                owner, writers = order[0], order[1:1 + k]
                for _ in range(r.range(0, 3)):
                    self.seg[owner][w].append(("status", w, 0, 0, "own"))
                for _ in range(r.range(1, 4)):
                    c = r.weighted([("writeF", 6), ("fill", 1), ("incrF", 1), ("status", 2)])
                    if c == "incrF":
                        self.seg[owner][w].append(self.incr(w, False, "own"))
                    else:
                        self.seg[owner][w].append((c, w, self.wdm() if c == "writeF" else 0, self.v() if c == "writeF" else 0, "own"))
                for _ in range(len(writers)):
                    self.seg[owner][w].append((r.weighted([("readFE", 4), ("readFE_nbf", 1)]), w, r.below(2), 0, "own"))
                for t in writers:
                    self.seg[t][w].append((r.weighted([("writeEF", 5), ("writeEF_nbf", 1)]), w, self.wdm(), self.v(), "tok"))
                    self.role[t][w] = "pc"
                self.role[owner][w] = "own"
            elif kind == "RC":
                # reader churn (an instance of CH1): starts empty, ends full; ONE consumer (plain readFE), 1-2 producers, and every
                # other task polls with several blocking readFF calls.  Each deposit finds exactly one readFE waiter and many readFF
                # waiters: it publishes 'empty', releases them all and removes the record - while fresh readFF calls arrive.
                W["init_full"] = init_full = 0
                order = r.shuffle(list(range(nt)))
                cons, prod, pollers = order[0], order[1:1 + r.range(1, 2)], order[1 + 2:]
                ntok = r.range(4, 14)
                for _ in range(ntok):
                    self.seg[cons][w].append(("readFE", w, r.below(2), 0, "tok"))
                for _ in range(ntok + 1):
                    self.seg[r.choice(prod)][w].append(("writeEF", w, self.wdm(), self.v(), "tok"))
                for t in [cons] + prod:
                    self.role[t][w] = "pc"
                for t in pollers:
                    for _ in range(r.range(2, 6)):
                        self.seg[t][w].append(("readFF", w, r.below(2), 0, "x"))
                    self.role[t][w] = "wait"
            elif kind in ("CH", "CH1"):
                final_full = r.weighted([(1, 3), (0, 2)])
                W["final_full"] = final_full
                ncons = 1 if kind == "CH1" else max(1, r.range(1, max(1, len(part) // 2)))
                cons = part[:ncons]
                rest = part[ncons:]
                nprod = max(1, r.range(1, max(1, len(rest) - (1 if final_full else 0))))
                prod = rest[:nprod]
                wait = rest[nprod:] if final_full else []
                d = final_full - init_full                      # #prod - #cons
                ncons_tok = r.range(max(1, -d), max(2, min(60, 3 * len(part))))
                nprod_tok = ncons_tok + d
                for _ in range(nprod_tok):
                    self.seg[r.choice(prod)][w].append(self.produce(w))
                for _ in range(ncons_tok):
                    self.seg[r.choice(cons)][w] += self.consume(w, kind == "CH1")
                for t in prod + cons:
                    self.role[t][w] = "pc"
                for t in wait:
                    for _ in range(r.range(1, 2)):
                        self.seg[t][w].append(self.waiter(w))
                    self.role[t][w] = "wait"
            elif kind == "BC":
                W["init_full"] = init_full = r.weighted([(0, 3), (1, 1)])
                owner = part[0]
                for _ in range(r.range(0, 6)):
                    k = r.weighted([("empty", 5), ("fill", 2), ("writeF", 3), ("writeEF_nb", 2), ("readFE_nb", 2), ("incrF", 3)])
                    if k == "incrF":
                        self.seg[owner][w].append(self.incr(w, False, "own"))
                    else:
                        self.seg[owner][w].append((k, w, r.below(2) if k == "readFE_nb" else (self.wdm() if k in VALW else 0),
                                                   self.v() if k in VALW else 0, "own"))
                k = r.weighted([("fill", 2), ("writeF", 3)])
                self.seg[owner][w].append((k, w, self.wdm() if k == "writeF" else 0, self.v() if k == "writeF" else 0, "ownfinal"))
                self.role[owner][w] = "own"
                for t in part[1:]:
                    for _ in range(r.range(1, 3)):
                        c = r.below(10)
                        if c == 0:
                            k = r.choice(["fill", "writeF"])
                            self.seg[t][w].append((k, w, 0, self.v() if k == "writeF" else 0, "x"))
                        elif c <= 2:
                            self.seg[t][w].append(self.incr(w, False))
                        else:
                            self.seg[t][w].append(self.waiter(w))
                    self.role[t][w] = "wait"
            elif kind == "MU":
                W["init_full"] = 1
                for t in part:
                    for _ in range(r.range(1, 3)):
                        lk = r.weighted([("readFE", 4), ("readFE_nbf", 2)])
                        ul = r.weighted([("fill", 3), ("writeF", 2), ("writeEF", 2), ("writeEF_nb", 1)])
                        ops = [(lk, w, r.below(2), 0, "mu")]
                        if r.chance(1, 3):
                            ops.append(("status", w, 0, 0, "x"))
                        ops.append((ul, w, self.wdm() if ul in VALW else 0, self.v() if ul in VALW else 0, "mu"))
                        self.seg[t][w] += ops
                    self.role[t][w] = "mu"
            else:  # CT
                wrapish = r.chance(1, 3)
                if wrapish:
                    W["init_val"] = init_val = M60 - r.below(6)
                part = r.shuffle(list(range(nt)))[: max(2, r.range(2, nt))]     # hammered by (almost) everybody
                owner = part[0]
                final_fill = (not init_full) or r.chance(1, 3)
                for t in part:
                    n = r.range(1, 4)
                    for _ in range(n):
                        c = r.below(10)
                        if c < 6:
                            self.seg[t][w].append(self.incr(w, wrapish))
                        elif c < 9 and not (final_fill and t == owner):
                            self.seg[t][w].append(self.waiter(w))     # (the owner must reach its final fill: it never waits here)
                        else:
                            self.seg[t][w].append(("status", w, 0, 0, "x"))
                    self.role[t][w] = "ct"
                if final_fill:
                    self.seg[owner][w].append(("fill", w, 0, 0, "ownfinal"))
            if W["final_full"] == 1 and kind != "MU":
                # more tasks waiting for full on a variable that ends full: they are neither producer, consumer nor owner of it
                for t in range(nt):
                    if self.role[t][w] is None and r.chance(1, 5):
                        for _ in range(r.range(1, 2)):
                            self.seg[t][w].append(self.waiter(w))
                        self.role[t][w] = "wait"
            self.vars.append(W)
        tasks = []
        for t in range(nt):
            p = []
            for w in range(K):
                for op in self.seg[t][w]:
                    if r.chance(1, 6):
                        p.append(self.noise())
                    p.append(op)
            if not p:
                p.append(self.noise())
            tasks.append({"id": t, "shep": (-1 if r.chance(1, 3) else r.below(self.ns)), "prog": p})
        return {"vars": self.vars, "tasks": tasks}


def gen_script(rng, ntasks, nvars, nsheps, force=None):
    for _ in range(50):
        sc = Gen(rng, ntasks, nvars, nsheps, force).build()
        if all(len(t["prog"]) < 46 for t in sc["tasks"]):
            return sc
    raise core.BuildError("C03 free-running generator: no script within the size limits")


def script_lines(sc, runid):
    out = ["R %d %d %d" % (runid, len(sc["tasks"]), len(sc["vars"]))]
    for w, W in enumerate(sc["vars"]):
        out.append("V %d %d %d" % (w, W["init_full"], W["init_val"]))
    for T in sc["tasks"]:
        out.append("T %d %d %d" % (T["id"], T["shep"], len(T["prog"])))
        for op in T["prog"]:
            out.append("o %s %d %d %d" % (op[0], op[1], op[2], op[3]))
    out.append("G")
    return out


def parse_script(lines):
    """inverse of script_lines (corpus files, replays); tags are unknown ('?')"""
    vars_, tasks, cur = [], [], None
    for l in lines:
        f = l.split()
        if not f or f[0] in ("G", "Q", "R"):
            continue
        if f[0] == "V":
            vars_.append({"kind": "?", "init_full": int(f[2]), "init_val": int(f[3]), "final_full": None})
        elif f[0] == "T":
            cur = {"id": int(f[1]), "shep": int(f[2]), "prog": []}
            tasks.append(cur)
        elif f[0] == "o":
            cur["prog"].append((f[1], int(f[2]), int(f[3]), int(f[4]), "?"))
    return {"vars": vars_, "tasks": tasks}


# ---------------------------------------------------------------- the model says: every schedule terminates (self-check of the generator)
def simulate(sc, rng, mode):
    """run the programs on the atomic cells with explicit waiter sets (the step of Syncvar/CellSpec.v: a call that has to wait
    is parked; a transition to full releases every readFF waiter and one readFE waiter, a transition to empty one writeEF
    waiter; incrF fills an empty variable iff a reader is parked) under one sequential schedule.  Returns None or a description
    of the deadlock.  Used only to validate generated / shrunk scripts (the argument for all schedules is in Gen's docstring)."""
    cells = [(W["init_full"], W["init_val"]) for W in sc["vars"]]
    tasks = sc["tasks"]
    n = len(tasks)
    pc = [0] * n
    sub = [0] * n                 # nbf: 0 = try the nb call, 1 = fall back to the blocking call
    parked = {}                   # task -> (var, op, arg)
    steps = 0

    def settle(w):
        # wake-ups demanded by the property, to a fixpoint
        while True:
            full, val = cells[w]
            if full:
                ff = [t for t, p in parked.items() if p[0] == w and p[1] == "readFF"]
                fe = [t for t, p in parked.items() if p[0] == w and p[1] == "readFE"]
                if not ff and not fe:
                    return
                for t in ff:
                    del parked[t]
                    pc[t] += 1
                    sub[t] = 0
                if fe:
                    t = fe[-1] if mode != "rand" else rng.choice(fe)
                    del parked[t]
                    pc[t] += 1
                    sub[t] = 0
                    cells[w] = (0, val)
                else:
                    return
            else:
                ef = [t for t, p in parked.items() if p[0] == w and p[1] == "writeEF"]
                if not ef:
                    return
                t = ef[-1] if mode != "rand" else rng.choice(ef)
                cells[w] = (1, parked[t][2])
                del parked[t]
                pc[t] += 1
                sub[t] = 0

    while True:
        steps += 1
        if steps > 200000:
            return "simulation did not end"
        run = [i for i in range(n) if i not in parked and pc[i] < len(tasks[i]["prog"])]
        if not run:
            if parked:
                return "deadlock: parked %s cells %s" % (sorted((t, p[:2]) for t, p in parked.items())[:6], cells)
            return None
        i = run[0] if mode == "low" else (run[-1] if mode == "high" else rng.choice(run))
        name, w, dm, val, _ = tasks[i]["prog"][pc[i]]
        nbf = name.endswith("_nbf")
        base = name[:-1] if nbf else name                  # x_nbf -> x_nb
        if nbf and sub[i] == 1:
            base = name[:-4]
        k, nb = CELLOP[base]
        waiting = any(p[0] == w and p[1] in ("readFF", "readFE") for p in parked.values())
        r = atomic(cells[w], k, val, waiting)
        if r == "over":
            pc[i] += 1
            continue
        if r is None:
            if nb:
                if nbf:
                    sub[i] = 1          # falls back to the blocking call
                else:
                    pc[i] += 1          # a failed plain nb call: nothing happens
                continue
            parked[i] = (w, k, val)
            continue
        cells[w] = r[0]
        pc[i] += 1
        sub[i] = 0
        settle(w)


def terminates(sc, rng):
    for mode in ("low", "high", "rand", "rand"):
        why = simulate(sc, rng, mode)
        if why:
            return why
    return None


# ---------------------------------------------------------------- running the real code
def parse_runs(out):
    runs, cur = {}, None
    for l in out:
        f = l.split()
        if not f:
            continue
        if f[0] == "B":
            cur = {"ops": [], "audit": {}, "mem": {}, "end": None, "raw": []}
            runs[int(f[1])] = cur
        if cur is None:
            continue
        cur["raw"].append(l)
        if f[0] == "o":
            cur["ops"].append({"task": int(f[1]), "k": int(f[2]), "name": f[3], "w": int(f[4]), "dm": int(f[5]), "wval": int(f[6]),
                               "inv": int(f[7]), "ret": int(f[8]), "rc": int(f[9]), "rval": None if f[10] == "-" else int(f[10])})
        elif f[0] == "v":
            cur["audit"][int(f[1])] = {"word": int(f[2]), "lock": int(f[3]), "state": int(f[4]), "data": int(f[5]), "status": int(f[6]),
                                       "present": int(f[7]), "q": [int(x) for x in f[8:11]]}
        elif f[0] == "m":
            cur["mem"][int(f[1])] = int(f[2])
        elif f[0] == "E":
            cur["end"] = " ".join(f[1:])
            cur = None
    return runs


class Codes:
    OPFAIL = -7
    OVERFLOW = -8


def run_batch(exe, scripts, ns, nwk, timeout=None):
    """scripts: list of (runid, lines).  One harness process runs them one after the other; after a hang (the harness dumps its
    log and exits) the remaining scripts go to a fresh process.  Returns {runid: run}"""
    res = {}
    todo = list(scripts)
    while todo:
        lines = []
        for _, ls in todo:
            lines += ls
        rc, out, err = core.run_lines(exe, lines + ["Q"], timeout=timeout or (900 + 2 * len(todo)), env=core.qenv(ns, nwk, stack=65536))
        if not out or not out[0].startswith("H "):
            raise core.BuildError("c03_free harness did not start on %dx%d: rc=%s %s" % (ns, nwk, rc, err[-400:]))
        hd = out[0].split()
        Codes.OPFAIL, Codes.OVERFLOW = int(hd[3]), int(hd[4])
        got = parse_runs(out)
        progressed = False
        nxt = []
        for rid, ls in todo:
            if rid in got and got[rid]["end"] is not None:
                res[rid] = got[rid]
                progressed = True
            else:
                nxt.append((rid, ls))
        if nxt and (rc == 0 or not progressed):
            # the process died without a log for the next script (crash / external timeout): that script is a failure
            rid, ls = nxt.pop(0)
            res[rid] = {"ops": [], "audit": {}, "mem": {}, "raw": out[-5:], "end": "CRASH rc=%s %s" % (rc, err[-300:].strip())}
        todo = nxt
        if any(r["end"] != "ok" for r in res.values()):
            break           # a run hung or crashed: it is judged (and reported) first; every further hang would cost a watchdog period
    return res


# ---------------------------------------------------------------- histories and the acceptor
def histories(sc, run):
    """per variable: list of history lines for the driver; descriptions; problems found while converting"""
    K = len(sc["vars"])
    H = [[] for _ in range(K)]
    desc = {}
    problems = []
    nid = 0
    for o in run["ops"]:
        what = "task %d call %d %s(V%d%s)" % (o["task"], o["k"], o["name"], o["w"], (", %d" % o["wval"]) if o["name"] in VALW + ("incrF",) else "")
        cop, nb = CELLOP[o["name"]]
        arg = o["wval"] if o["name"] in VALW or o["name"] == "incrF" else None
        if o["ret"] < 0:
            out = "D-"
        elif o["rc"] == Codes.OPFAIL:
            out = "F"
        elif o["rc"] == Codes.OVERFLOW:
            out = "O"
        elif o["rc"] != 0:
            problems.append("%s returned %d" % (what, o["rc"]))
            continue
        elif o["name"] == "status":
            out = "Db%d" % (1 if o["rval"] else 0)
        elif o["name"] == "incrF":
            out = "Dv%d" % o["rval"]
        elif o["name"] in READS and o["dm"] == 0:
            out = "Dv%d" % o["rval"]
        elif o["name"] in READS:
            out = "D-"
        else:
            out = "Dn"
        nid += 1
        H[o["w"]].append("%d %s %s %d %d %d %s" % (nid, cop, "-" if arg is None else arg, nb, o["inv"], o["ret"], out))
        desc[nid] = what
    return H, desc, problems


def obligations(sc, run):
    """end-of-run obligations on the implementation that need no search (each is implied by acceptance; they give the reason)"""
    bad = []
    if run["end"] != "ok":
        return bad
    ops = run["ops"]
    for w, W in enumerate(sc["vars"]):
        a = run["audit"].get(w)
        if a is None:
            bad.append("no audit of V%d" % w)
            continue
        mine = [o for o in ops if o["w"] == w]
        if any(a["q"]):
            bad.append("every task has returned but V%d still has waiters (EFQ,FEQ,FFQ)=%s" % (w, a["q"]))
        if a["present"]:
            bad.append("every task has returned but V%d still has a waiter record in the syncvars hash" % w)
        if a["lock"]:
            bad.append("V%d was left locked (word %x)" % (w, a["word"]))
        if a["state"] not in (0, 2):
            bad.append("V%d ends in state %d (%s) although nobody waits" % (w, a["state"], "waiter bit set" if a["state"] in (1, 3) else "undefined"))
        if not a["lock"] and a["status"] != (1 if a["state"] < 2 else 0):
            bad.append("qthread_syncvar_status(V%d)=%d, state bits say %d" % (w, a["status"], a["state"]))
        has_incr = any(o["name"] == "incrF" for o in mine)
        if not has_incr:
            written = set([W["init_val"]] + [o["wval"] for o in mine if o["name"] in VALW and o["wval"] <= M60])
            for o in mine:
                if o["name"] in READS and o["rval"] is not None and o["rc"] == 0 and o["rval"] not in written:
                    bad.append("task %d %s(V%d) returned %d, a value never stored in the variable" % (o["task"], o["name"], w, o["rval"]))
            if a["data"] not in written:
                bad.append("V%d ends with payload %d, a value never stored in it" % (w, a["data"]))
            took = {}
            for o in mine:
                if o["name"] in ("readFE", "readFE_nb") and o["rc"] == 0 and o["rval"] is not None:
                    took[o["rval"]] = took.get(o["rval"], 0) + 1
            efvals = set(o["wval"] for o in mine if o["name"] in ("writeEF", "writeEF_nb") and o["rc"] == 0)
            refill = any(o["name"] == "fill" for o in mine)
            if not refill:
                for v, n in took.items():
                    if v in efvals and n > 1:
                        bad.append("value %d deposited once by writeEF in V%d was taken by %d readFE calls" % (v, w, n))
        for o in mine:
            if o["name"] in VALW and o["ret"] >= 0:
                if o["wval"] > M60 and o["rc"] != Codes.OVERFLOW:
                    bad.append("task %d %s(V%d, %d): a value >= 2^60 must be rejected with QTHREAD_OVERFLOW, returned %d" % (o["task"], o["name"], w, o["wval"], o["rc"]))
                if o["wval"] <= M60 and o["rc"] == Codes.OVERFLOW:
                    bad.append("task %d %s(V%d, %d): QTHREAD_OVERFLOW for a value that fits" % (o["task"], o["name"], w, o["wval"]))
        if has_incr and all(o["name"] in ("incrF", "readFF", "readFF_nb", "status", "fill") or (o["name"] in VALW and o["wval"] > M60) for o in mine):
            # a pure counter (the hypothesis of svhist_incrF_total): final payload and distinct partial sums
            incs = [o for o in mine if o["name"] == "incrF"]
            tot = (W["init_val"] + sum(o["wval"] for o in incs)) & M60
            if a["data"] != tot:
                bad.append("counter V%d: final payload %d, but init %d + increments = %d (mod 2^60)" % (w, a["data"], W["init_val"], tot))
            if all(0 < o["wval"] for o in incs) and W["init_val"] + sum(o["wval"] for o in incs) <= M60:
                rv = [o["rval"] for o in incs]
                if len(set(rv)) != len(rv):
                    bad.append("counter V%d: two incrF calls returned the same value (%s)" % (w, sorted(x for x in rv if rv.count(x) > 1)[:4]))
    return bad


def overlap_degree(run):
    ev = []
    for o in run["ops"]:
        ev.append((o["inv"], 0))
        if o["ret"] >= 0:
            ev.append((o["ret"], 1))
    ev.sort()
    open_, pairs = 0, 0
    for _, k in ev:
        if k == 0:
            pairs += open_
            open_ += 1
        else:
            open_ -= 1
    return pairs


def blocked_estimate(run):
    """calls that certainly waited: another call on the same variable returned inside their interval and they returned after it"""
    n = 0
    byw = {}
    for o in run["ops"]:
        byw.setdefault(o["w"], []).append(o)
    for w, ops in byw.items():
        rets = sorted(o["ret"] for o in ops if o["ret"] >= 0)
        for o in ops:
            if o["name"] in ("readFE", "readFF", "writeEF") and (o["ret"] < 0 or bisect.bisect_left(rets, o["ret"]) - bisect.bisect_right(rets, o["inv"]) > 0):
                n += 1
    return n


class Acceptor:
    def __init__(self, drv):
        self.p = subprocess.Popen([drv], stdin=subprocess.PIPE, stdout=subprocess.PIPE, universal_newlines=True, bufsize=1)

    def ask(self, tag, c0, cfin, lines, fuel=FUEL):
        q = "H %s %d %d %d %d %d %d\n%s" % (tag, fuel, c0[0], c0[1], cfin[0], cfin[1], len(lines), "".join(l + "\n" for l in lines))
        if os.environ.get("VERIF_FREE_DUMPQ"):
            open(os.environ["VERIF_FREE_DUMPQ"], "a").write(q)
        self.p.stdin.write(q)
        self.p.stdin.flush()
        a = self.p.stdout.readline().split()
        if not a or a[1] != tag:
            raise core.BuildError("syncvar history acceptor died on " + tag)
        return a[0], [int(x) for x in a[2:]]

    def close(self):
        try:
            self.p.stdin.close()
            self.p.wait(timeout=10)
        except Exception:
            self.p.kill()


LIN_TXT = ("V%d: no linearisation of its %d logged calls exists that respects the real-time order, has every call enabled in the atomic "
           "cell with the observed result and ends in the audited state (full=%d, value=%d) [proved: svhist_reject_complete]")


STATS = {"incrF_filled_for_waiters": 0, "incrF_on_empty_kept_empty": 0}


def count_incr_fills(c0, lines, wit):
    """walk the accepted linearisation (ids in `wit`) over the cell and count the incrF calls on an EMPTY variable, split by
    whether the next call is a waiting reader (blocking read invoked before the incrF returned: the incrF filled the variable)"""
    byid = {}
    for l in lines:
        f = l.split()
        byid[int(f[0])] = f
    full, val = c0
    seq = [byid[i] for i in wit if i in byid]
    for k, f in enumerate(seq):
        op, arg, nb, out = f[1], f[2], f[3], f[6]
        if out in ("F", "O"):
            continue
        if op == "incrF":
            val = (val + int(arg)) & M60
            if not full:
                nxt = seq[k + 1] if k + 1 < len(seq) else None
                if nxt is not None and nxt[1] in ("readFF", "readFE") and nxt[3] == "0" and nxt[6] not in ("F", "O") and int(nxt[4]) < int(f[5]):
                    STATS["incrF_filled_for_waiters"] += 1
                    full = 1
                else:
                    STATS["incrF_on_empty_kept_empty"] += 1
        elif op == "readFE":
            full = 0
        elif op in ("writeEF", "writeF"):
            full, val = 1, int(arg)
        elif op == "fill":
            full = 1
        elif op == "empty":
            full = 0


def judge(acc, sc, run, tag):
    """-> (verdict, reasons, unknown) verdict in ok / reject / hang / unknown"""
    H, desc, problems = histories(sc, run)
    reasons = list(problems)
    unknown = 0
    if run["end"] == "ok":
        reasons += obligations(sc, run)
        for w, W in enumerate(sc["vars"]):
            a = run["audit"].get(w)
            if a is None:
                continue
            full = 1 if a["state"] < 2 else 0
            v, wit = acc.ask("%s.v%d" % (tag, w), (W["init_full"], W["init_val"]), (full, a["data"]), H[w])
            if v == "R":
                reasons.append(LIN_TXT % (w, len(H[w]), full, a["data"]))
            elif v == "U":
                unknown += 1
            elif v != "A":
                reasons.append("V%d: ill-formed log (%s)" % (w, v))
            elif any(" incrF " in l for l in H[w]):
                count_incr_fills((W["init_full"], W["init_val"]), H[w], wit)
        if reasons:
            return "reject", reasons, unknown
        return ("unknown" if unknown else "ok"), reasons, unknown
    # the run did not finish
    pend = [o for o in run["ops"] if o["ret"] < 0]
    if run["end"].startswith("CRASH"):
        return "hang", ["the runtime crashed / was killed during the run: " + run["end"]], 0
    lost, locked = [], []
    for w, W in enumerate(sc["vars"]):
        pw = [l for l in H[w] if l.split()[5] == "-1"]
        if w not in run["mem"]:
            continue
        word = run["mem"][w]
        if word & 1:
            locked.append(w)
        if not pw:
            continue
        fulls = (0, 1) if (word & 1) else ((1 if ((word >> 1) & 7) < 2 else 0),)
        verdicts = []
        for full in fulls:
            v, _ = acc.ask("%s.v%d.f%d" % (tag, w, full), (W["init_full"], W["init_val"]), (full, word >> 4), H[w])
            verdicts.append(v)
        if all(v == "R" for v in verdicts):
            lost.append(w)
    who = ", ".join("task %d in %s(V%d)" % (o["task"], o["name"], o["w"]) for o in pend[:8])
    txt = "the run never finished (%s): still pending: %s" % (run["end"], who or "-")
    if locked:
        txt += "; variable(s) %s left with the lock bit set" % locked
    if lost:
        txt += ("; variable(s) %s: the completed calls and the word as it stands admit no linearisation in which every pending call is "
                "disabled (lost wake-up / stuck call)" % lost)
    return "hang", [txt], 0


# ---------------------------------------------------------------- corpus
def load_corpus():
    d = os.path.join(core.VERIF, "corpus", "C03")
    out = []
    if os.path.isdir(d):
        for fn in sorted(os.listdir(d)):
            if fn.startswith("free_") and fn.endswith(".fr"):
                ls = [l.strip() for l in open(os.path.join(d, fn)) if l.strip() and not l.startswith("#")]
                out.append((fn, parse_script(ls)))
    return out


# ---------------------------------------------------------------- shrinking (search for a smaller failing input)
def shrink_candidates(sc, rng):
    c = []
    for ti, T in enumerate(sc["tasks"]):
        for k, op in enumerate(T["prog"]):
            if op[4] == "x" and len(T["prog"]) > 1:
                c.append((ti, k))
    return rng.shuffle(c)


def drop_call(sc, ti, k):
    s2 = {"vars": sc["vars"], "tasks": []}
    for i, T in enumerate(sc["tasks"]):
        T2 = dict(T)
        if i == ti:
            T2["prog"] = T["prog"][:k] + T["prog"][k + 1:]
        s2["tasks"].append(T2)
    return s2


# ---------------------------------------------------------------- the tier
# (shepherds, workers per shepherd, scripts, repetitions of every aimed script).  The last two of each list have more worker
# pthreads than this machine has free cores: the OS then preempts workers inside the windows the finer tiers can only reach
# with a baton (measured on the mutant that reverts /repo 8cdc001: hit within the first runs on 4x8, once in ~1000 runs on 2x2).
CONFIGS_QUICK = [(2, 2, 24, 4), (4, 1, 24, 4), (1, 4, 24, 4), (3, 2, 24, 4), (4, 8, -6, 6), (8, 4, -10, 6)]
CONFIGS_THOROUGH = [(2, 2, 120, 8), (4, 1, 120, 8), (1, 4, 120, 8), (3, 2, 120, 8), (8, 1, 120, 8), (2, 4, 120, 8), (1, 1, 60, 2),
                    (4, 8, 30, 6), (8, 4, 45, 8), (4, 8, -20, 10), (8, 4, -30, 12)]
# (a negative script count: that many scripts, ALL of them aimed reader-churn scripts)


def build(ctx):
    ok, log = ctx.coq_make(["theories/Syncvar/ExtractHist.vo"])
    if not ok:
        raise core.BuildError("Syncvar/ExtractHist.v does not compile:\n" + log[-2000:])
    exe = ctx.link("c03_free", ["c03_free.c"], exclude=["syncvar.c"])
    drv = ctx.model_driver("c03hist_driver")
    return exe, drv


def run_free(ctx, quick):
    rng = ctx.rng.fork()
    exe, drv = build(ctx)
    acc = Acceptor(drv)
    configs = CONFIGS_QUICK if quick else CONFIGS_THOROUGH
    if os.environ.get("VERIF_FREE_CONFIGS"):         # e.g. 4x8 or 4x8:30:6 (scripts, repetitions of the aimed ones)
        configs = []
        for c in os.environ["VERIF_FREE_CONFIGS"].split(","):
            f = c.split(":")
            a, b = f[0].split("x")
            configs.append((int(a), int(b), int(f[1]) if len(f) > 1 else 24, int(f[2]) if len(f) > 2 else 4))   # scripts < 0: aimed only
    cov = {"runs": 0, "configs": ["%dx%d" % c[:2] for c in configs], "aimed_runs": 0, "calls": 0, "ops": {}, "blocked_calls": 0, "nb_failed": 0, "overflow_rejected": 0,
           "overlap_pairs": 0, "max_overlap_pairs_in_one_run": 0, "tasks": [10 ** 9, 0], "accepted_vars": 0, "unknown_vars": 0,
           "hangs": 0, "rejected_runs": 0, "var_kinds": {}, "corpus": 0,
           "wall_runs_s": {}, "wall_acceptor_s": 0.0}
    failures = []
    corpus = load_corpus()
    try:
        for ci, (ns, nwk, per, areps) in enumerate(configs):
            batch = []
            for fn, sc in corpus:
                batch.append(("corpus/C03/" + fn, sc))
            aimed_only = per < 0
            for k in range(abs(per)):
                big = (not quick) and k % 3 == 0
                nt = rng.range(24, 64) if big else rng.range(8, 28)
                reps = 1
                if aimed_only or k % 3 == 1:
                    # aimed: one reader-churn variable with many pollers (the window of the defect repaired by /repo 8cdc001: a
                    # released poller re-enters readFF while the depositing call is still releasing the others); a run costs about
                    # a millisecond, so the same script is run many times
                    sc = gen_script(rng, rng.range(32, 64), 1, ns, force="RC")
                    reps = areps
                    cov["aimed_runs"] += reps
                else:
                    sc = gen_script(rng, nt, rng.range(1, 4), ns)
                why = terminates(sc, rng)
                if why:
                    raise core.BuildError("C03 free-running generator produced a script the model does not finish: " + why)
                for rep in range(reps):
                    batch.append(("gen:%dx%d:%d%s" % (ns, nwk, k, (".rep%d" % rep) if reps > 1 else ""), sc))
            scripts = [(i, script_lines(sc, i)) for i, (_, sc) in enumerate(batch)]
            t_run = time.time()
            res = run_batch(exe, scripts, ns, nwk)
            cov["wall_runs_s"]["%dx%d" % (ns, nwk)] = round(cov["wall_runs_s"].get("%dx%d" % (ns, nwk), 0) + time.time() - t_run, 2)
            t_acc = time.time()
            for i, (name, sc) in enumerate(batch):
                if i not in res:
                    continue
                run = res[i]
                cov["runs"] += 1
                cov["corpus"] += name.startswith("corpus")
                cov["calls"] += len(run["ops"])
                for o in run["ops"]:
                    cov["ops"][o["name"]] = cov["ops"].get(o["name"], 0) + 1
                    cov["nb_failed"] += (o["rc"] == Codes.OPFAIL)
                    cov["overflow_rejected"] += (o["rc"] == Codes.OVERFLOW)
                for W in sc["vars"]:
                    cov["var_kinds"][W["kind"]] = cov["var_kinds"].get(W["kind"], 0) + 1
                cov["tasks"] = [min(cov["tasks"][0], len(sc["tasks"])), max(cov["tasks"][1], len(sc["tasks"]))]
                od = overlap_degree(run)
                cov["overlap_pairs"] += od
                cov["max_overlap_pairs_in_one_run"] = max(cov["max_overlap_pairs_in_one_run"], od)
                cov["blocked_calls"] += blocked_estimate(run)
                verdict, reasons, unknown = judge(acc, sc, run, "r%d_%d" % (ci, i))
                cov["unknown_vars"] += unknown
                if verdict == "ok":
                    cov["accepted_vars"] += len(sc["vars"])
                elif verdict == "hang":
                    cov["hangs"] += 1
                if verdict in ("reject", "hang"):
                    cov["rejected_runs"] += 1
                    failures.append({"name": name, "config": [ns, nwk], "sc": sc, "run": run, "verdict": verdict, "reasons": reasons})
            cov["wall_acceptor_s"] = round(cov["wall_acceptor_s"] + time.time() - t_acc, 2)
            if failures:
                break
        if failures:
            report(ctx, acc, exe, rng, failures)
    finally:
        acc.close()
    cov.update(STATS)
    ctx.cov["free"] = cov
    ctx.cov["evaluations"] = ctx.cov.get("evaluations", 0) + cov["calls"]
    ctx.cov["traces_validated_against_impl"] = ctx.cov.get("traces_validated_against_impl", 0) + cov["runs"]
    if cov["unknown_vars"]:
        ctx.notes.append("free-running tier: %d variable histories exhausted the acceptor's fuel (inconclusive, not counted as accepted)" % cov["unknown_vars"])
    ctx.assumptions += ["free-running tier (M4): the ticket order is the real-time order (one __sync_fetch_and_add, a full barrier, before and "
                        "after every call); termination of the generated programs under every schedule is by construction of the generator "
                        "(checked per script by simulation under 4 schedules), not a theorem; scheduling fairness of the worker pthreads is "
                        "the OS's; only the logged order is used, no timing"]


def signature_of(verdict, why):
    if verdict == "hang":
        return "free:hang"
    if "no linearisation" in why:
        return "free:non-linearisable"
    for key, sig in (("still has waiters", "free:waiters-left"), ("waiter record", "free:record-left"), ("left locked", "free:left-locked"),
                     ("waiter bit", "free:waiter-bit"), ("OVERFLOW", "free:overflow"), ("counter", "free:incrF-total"),
                     ("never stored", "free:wrong-payload"), ("taken by", "free:value-taken-twice")):
        if key in why:
            return sig
    return "free:cell-semantics"


def report(ctx, acc, exe, rng, failures):
    """re-run the failing script (up to 3 times), shrink it while it still fails, store the trace as replay"""
    f = failures[0]
    sc, (ns, nwk) = f["sc"], f["config"]
    again = 0
    tries = 3
    for k in range(tries):
        res = run_batch(exe, [(0, script_lines(sc, 0))], ns, nwk)
        v, reasons, _ = judge(acc, sc, res[0], "rr%d" % k)
        if v in ("reject", "hang"):
            again += 1
            if v == "hang" and again >= 1 and f["verdict"] == "hang":
                break           # a confirmed hang: every further confirmation costs a watchdog period
    ntries = k + 1
    small = sc
    budget = 8
    hung = False
    if f["verdict"] == "reject":
        for ti, k in shrink_candidates(sc, rng):
            if budget <= 0 or hung:
                break      # (a candidate that hangs costs a whole watchdog period: stop shrinking at the first one)
            budget -= 1
            cand = drop_call(small, ti, k)
            if terminates(cand, rng):
                continue
            bad = False
            for _ in range(3):
                res = run_batch(exe, [(0, script_lines(cand, 0))], ns, nwk)
                v, _, _ = judge(acc, cand, res[0], "sh")
                if v == "reject":
                    bad = True
                    break
                if v == "hang":
                    hung = True
                    break
            if bad:
                small = cand
                break      # indices shift after a removal: one accepted removal per pass is enough for a bounded effort
    why = f["reasons"][0]
    for w in f["reasons"]:
        if "no linearisation" in w:
            why = w
            break
    ctx.violation(signature_of(f["verdict"], why),
                  "C03 (free-running, %dx%d, %s): %s; failed again in %d of %d re-runs of the same script; %d run(s) failed in this tier"
                  % (ns, nwk, f["name"], why, again, ntries, len(failures)),
                  {"free": True, "config": [ns, nwk], "name": f["name"], "script": script_lines(sc, 0), "reasons": f["reasons"],
                   "codes": {"OPFAIL": Codes.OPFAIL, "OVERFLOW": Codes.OVERFLOW},
                   "log": f["run"]["raw"], "reproduced": "%d/%d" % (again, ntries),
                   "shrunk_script": script_lines(small, 0) if small is not sc else None,
                   "other_failures": [{"name": x["name"], "config": x["config"], "reasons": x["reasons"][:2]} for x in failures[1:4]]})


# ---------------------------------------------------------------- replay
def is_free_replay(path):
    try:
        return bool(json.load(open(path)).get("replay", {}).get("free"))
    except Exception:
        return False


def replay_file(ctx, path, times=10):
    j = json.load(open(path))
    rp = j["replay"]
    print(json.dumps({k: v for k, v in j.items() if k != "replay"}, indent=1))
    exe, drv = build(ctx)
    acc = Acceptor(drv)
    ns, nwk = rp["config"]
    lines = rp.get("shrunk_script") or rp["script"]
    sc = parse_script(lines)
    bad = 0
    last = None
    if rp.get("codes"):
        Codes.OPFAIL, Codes.OVERFLOW = rp["codes"]["OPFAIL"], rp["codes"]["OVERFLOW"]
    else:
        run_batch(exe, [(0, ["R 0 1 1", "V 0 1 0", "T 0 0 1", "o status 0 0 0", "G"])], 1, 1)      # reads the codes from the harness banner
    try:
        print("# stored log: the acceptor on the stored trace")
        for rid, run in parse_runs(rp["log"]).items():
            v, reasons, _ = judge(acc, parse_script(rp["script"]), run, "stored")
            print("#   %s %s" % (v, reasons[:2]))
        hangs = 0
        for k in range(times):
            res = run_batch(exe, [(0, lines)], ns, nwk)
            v, reasons, _ = judge(acc, sc, res[0], "rp%d" % k)
            print("# run %d on %dx%d: %s %s" % (k, ns, nwk, v, reasons[:1]))
            if v in ("reject", "hang"):
                bad += 1
                last = (v, reasons, res[0]["raw"])
                hangs += (v == "hang")
                if hangs >= 2:
                    times = k + 1
                    break       # each hang costs a watchdog period
    finally:
        acc.close()
    print("# failed in %d of %d runs" % (bad, times))
    if last:
        ctx.violation("replay", "C03: %s (%d of %d runs)" % (last[1][0], bad, times),
                      {"free": True, "config": [ns, nwk], "script": lines, "reasons": last[1], "log": last[2],
                       "codes": {"OPFAIL": Codes.OPFAIL, "OVERFLOW": Codes.OVERFLOW}})


# ---------------------------------------------------------------- stand-alone entry point (this tier only)
def main(argv):
    """python3 -m verif.props._c03_free [quick|thorough] [--replay file]   (PYTHONPATH=/verif/lib; VERIF_SEED, VERIF_REPO as for ./check).
    Runs ONLY the free-running tier (+ its theorems); evidence / replays go under /var/tmp/verif_out/c03_free_only."""
    import sys
    tier = "thorough" if "thorough" in argv else "quick"
    core.OUT = os.path.join("/var/tmp", "verif_out", "c03_free_only" + ("" if os.path.realpath(core.REPO) == "/repo" else "_" + os.path.basename(os.path.normpath(core.REPO))))
    ctx = core.Ctx("C03", tier, int(os.environ.get("VERIF_SEED", "1") or "1"))
    rc = 2
    try:
        try:
            if "--replay" in argv:
                replay_file(ctx, argv[argv.index("--replay") + 1])
            else:
                if not os.environ.get("VERIF_FREE_NOCOQ"):
                    ctx.coq_properties("Properties/Properties_C03_hist.v")
                run_free(ctx, tier == "quick")
        except core.BuildError as e:
            ctx.violation("build", "build failure: " + str(e)[-600:], {"error": str(e)[-3000:]}, no_input=True)
        fr = ctx.cov.get("free", {})
        print("# free tier: %s" % json.dumps({k: fr.get(k) for k in ("runs", "aimed_runs", "calls", "overlap_pairs", "blocked_calls", "nb_failed", "overflow_rejected", "incrF_filled_for_waiters", "incrF_on_empty_kept_empty",
                                                                       "accepted_vars", "unknown_vars", "hangs", "rejected_runs", "wall_runs_s", "wall_acceptor_s")}))
        rc = ctx.finish()
    finally:
        ctx.cleanup()
    sys.exit(rc)


if __name__ == "__main__":
    import sys
    main(sys.argv[1:])
