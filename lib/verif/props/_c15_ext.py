"""C15 extension H: (1) qlfqueue WITH node reclamation (CQueues/LfqReclaim.v) and (2) the micro-step qdqueue machine
(CQueues/DqMicro.v), both replayed against the real code under the baton (M3).

Theorems: Properties/Properties_C15_ext.v.   Driver: ocaml/c15ext_driver.ml (extraction CQueues/ExtractExt.v).

Line formats (harness c15_queues.c = H, model driver c15ext_driver = D):
  LR cap hi | ops task0 | ops task1 ... | schedule(digits)          (D: LR cap fmax | ...)    ops: e<v>, d, m
       like LF (c15.py) but the dump after every grant is
         | addresses on the chain from head (arena ordinals) | values behind the dummy | T tail | P next-unused : free list (LIFO)
         | W  hz0 hz1 : retired list ;   (one group per worker, worker 0 = the controller's shepherd)
       so the retire / scan / free events and the pool's re-use of addresses are part of the compared trace.
  DM (extension H (DM): M3 replay of the real src/ds/qdqueue.c against CQueues/DqMicro.v)
     H: DM cap ns | <shep>: ops | <shep>: ops ... | schedule        ops: e<v> qdqueue_enqueue, t<there>,<v> qdqueue_enqueue_there, d dequeue
        task k is pinned on shepherd <shep> (1..ns-1, pairwise distinct; the controller sits on shepherd 0); schedule: a digit grants
        that task once (it runs to its next interposed operation of qdqueue.c or to the end of its call); a digit followed by one of
        . M Q D I C P L U grants it repeatedly (<= 64) until it returned from its call (.) or stands before
        qlfqueue_empty / _enqueue / _dequeue / qthread_incr / qthread_cas / qthread_cas_ptr / qthread_lock / qthread_unlock;
        then round-robin up to cap extra grants.
     H prints   C ns | allsheps[0] ; allsheps[1] ; ... | neighbors[0] ; neighbors[1] ; ...     (indices into Qs; also the answer to "DC")
                g <t> <KIND> <target sub-queue> | <dump>     KIND in LFEMPTY LFENQ LFDEQ INCR CASV CASP LOCK UNLOCK
                g <t> END i<rc> | <dump>      g <t> END p<value or 0> | <dump>
                g <t> BLOCKED | <dump>        t stands before qthread_lock of a gateway_lock held by another parked task (not released)
                g <t> - | <dump>              t has finished its program
                F | <stuck task ids>
        dump = per shepherd, separated by " | ":   q <values> ; lc <idx|-> ; ai <last_ad_issued> ac <last_ad_consumed>
                ; h <heap element indices from first along next> ; e <inheap>:<generation>:<prev|->:<next|-> (one per heap element)
     D: DM cap ns | alls0 ; alls1 ; ... | nbrs0 ; nbrs1 ; ... | <shep>: ops | ... | schedule(digits only)
        prints the same g lines, then "P <pc transitions taken>" (statistics only, not compared) and "F | <stuck>".
        The Python side feeds D the configuration the harness printed for that case and, as schedule, the sequence of task ids of
        the harness' g lines (cap 0): the run-until suffixes and the round-robin are resolved by the harness.
"""
import json
import os
import time
from .. import core

P = "C15"
EXCLUDE = ["ds/qswsrqueue.c", "ds/qlfqueue.c", "hazardptrs.c", "ds/qdqueue.c"]


def norm(l):
    return " ".join(l.split())


# ---------------------------------------------------------------------------------------------- LR generator
def gen_lr(rng, nt, fmax, thorough):
    """scripts in which one task retires >= freelist_max nodes (so that hazardous_scan runs and addresses are re-used) while the
    others stand in the middle of an operation: between reading a pointer and publishing / validating the hazard slot, between
    hazardous_ptr(1, next) and the value read, before a CAS."""
    shape = rng.below(6)
    progs = [[] for _ in range(nt)]
    seq = [0] * nt

    def enq(t):
        seq[t] += 1
        return "e%d" % ((t + 1) * (1 << 20) + seq[t])
    big = rng.range(fmax + 2, (4 if thorough else 3) * fmax)
    if shape == 0:            # one drainer retires many; the others enqueue / dequeue / test emptiness
        d = rng.below(nt)
        for t in range(nt):
            n = big if t == d else rng.range(3, big)
            for _ in range(n):
                if t == d:
                    progs[t].append(rng.weighted([("d", 80), ("e", 15), ("m", 5)]))
                else:
                    progs[t].append(rng.weighted([("e", 70), ("d", 20), ("m", 10)]))
    elif shape == 1:          # everybody alternates: enqueue then dequeue (each task recycles its own and the others' nodes)
        for t in range(nt):
            for _ in range(big):
                progs[t] += ["e", "d"] if rng.chance(4, 5) else [rng.choice(["e", "d", "m"])]
    elif shape == 2:          # producer far ahead, consumers race for the head
        for t in range(nt):
            for _ in range(big if t == 0 else rng.range(fmax, big + fmax)):
                progs[t].append(rng.weighted([("e", 90), ("m", 10)]) if t == 0 else rng.weighted([("d", 90), ("m", 5), ("e", 5)]))
    else:                     # random roles
        for t in range(nt):
            we = rng.choice([20, 50, 80])
            for _ in range(rng.range(4, big + fmax)):
                progs[t].append(rng.weighted([("e", we), ("d", 95 - we), ("m", 5)]))
    progs = [[enq(t) if o == "e" else o for o in p] for t, p in enumerate(progs)]
    total = 6 * sum(len(p) for p in progs)
    s = []
    # prefill so that dequeues succeed from the start in most cases
    if rng.chance(2, 3):
        s.extend([str(rng.below(nt))] * rng.range(10, 90))
    while len(s) < total:
        k = rng.below(10)
        t = rng.below(nt)
        if k < 3:             # a stall: t moves 1..4 grants (ends somewhere inside an operation), another task runs for long
            s.extend([str(t)] * rng.range(1, 4))
            u = rng.choice([x for x in range(nt) if x != t] or [t])
            s.extend([str(u)] * rng.choice([30, 60, 120, 200, 300]))
        elif k < 7:
            s.extend([str(t)] * rng.choice([1, 1, 1, 2, 2, 3, 5, 8]))
        else:
            s.extend([str(t)] * rng.choice([13, 21, 40]))
    # hi=1: node addresses with bit 31 set (the class of the comparator defect fixed by e07a9b8)
    return dict(mode="LR", cap=10 * sum(len(p) for p in progs) + 300, hi=1 if rng.chance(1, 3) else 0, progs=progs, sched="".join(s[:total]))


def h_line(c):
    if c["mode"] == "LR":
        return "LR %d %d | %s | %s" % (c["cap"], c["hi"], " | ".join(" ".join(p) for p in c["progs"]), c["sched"])
    if c["mode"] == "DM":
        return "DM %d %d | %s | %s" % (c["cap"], c["ns"], " | ".join("%d: %s" % (sh, " ".join(p)) for sh, p in c["tasks"]), c["sched"])
    raise ValueError(c["mode"])


def d_line(c, fmax, extra=""):
    if c["mode"] == "LR":
        return "LR %d %d | %s | %s" % (c["cap"], fmax, " | ".join(" ".join(p) for p in c["progs"]), c["sched"])
    if c["mode"] == "DM":
        return "DM %d %d %s | %s | %s" % (c["cap"], c["ns"], extra, " | ".join("%d: %s" % (sh, " ".join(p)) for sh, p in c["tasks"]), c["sched"])
    raise ValueError(c["mode"])


def split_cases(cases, lines):
    out, pos = [], 0
    for c in cases:
        if pos >= len(lines):
            out.append(None)
            continue
        j = pos
        while j < len(lines) and not lines[j].startswith("F") and lines[j] != "TIMEOUT":
            j += 1
        if j >= len(lines) or lines[j] == "TIMEOUT":
            out.append(lines[pos:j + 1] + ["INCOMPLETE"])
            pos = len(lines)
        else:
            out.append(lines[pos:j + 1])
            pos = j + 1
    return out


def lr_struct_oracle(lines):
    """memory-safety predicates on the implementation's own dumps: no address on the chain from head, in a hazard-validated
    position or in a retired list is in the pool's free list; no address is retired twice or free twice; a task that stands
    AFTER its hazard validation (about to load / CAS through the validated pointer: kinds HZ1, CASN, CAST, CASH) has its
    slot 0 naming an address that is not free (lfqr_no_use_after_free / lfqr_no_aba read on the implementation's trace)"""
    mid = {}
    for l in lines:
        if not l.startswith("g "):
            continue
        p = [x.strip() for x in l.split("|")]
        if len(p) < 6:
            continue
        g = p[0].split()
        if len(g) >= 3 and g[2] != "-":
            mid[int(g[1])] = g[2]
        slots = [grp.split(":")[0].split() for grp in p[5][1:].split(";") if ":" in grp]
        free_now = p[4].split(":")[1].split()
        for t, k in mid.items():
            if k in ("HZ1", "CASN", "CAST", "CASH") and t + 1 < len(slots) and len(slots[t + 1]) >= 1:
                if slots[t + 1][0] == "0":
                    return "task %d stands at %s after its hazard validation but its hazard slot 0 is empty" % (t, k)
                if slots[t + 1][0] in free_now:
                    return ("task %d stands at %s holding the validated node %s in hazard slot 0, but that node is in the pool's free "
                            "list (freed while protected: use after free / ABA ahead)" % (t, k, slots[t + 1][0]))
        chain = p[1].split()
        if "CYCLE" in chain:
            return "queue chain became cyclic"
        free = p[4].split(":")[1].split()
        if len(set(free)) != len(free):
            return "address freed twice (pool free list %s)" % free
        bad = [a for a in chain if a in free]
        if bad:
            return "node %s is linked in the queue and in the pool's free list (use after free)" % bad[:3]
        if len(set(chain)) != len(chain):
            return "address linked twice in the chain %s" % chain
        retired = []
        for grp in p[5][1:].split(";"):
            if ":" in grp:
                retired += grp.split(":")[1].split()
        if len(set(retired)) != len(retired):
            return "address retired twice %s" % retired
        bad = [a for a in retired if a in free]
        if bad:
            return "retired node %s already in the pool's free list (double free ahead)" % bad[:3]
        tail = p[3].split()[1]
        if tail not in chain:
            return "q->tail (%s) is not on the chain from q->head %s: tail fell behind head" % (tail, chain)
    return None


def lr_features(lines):
    """rare branches reached: scan ran, address re-used, a task stood inside an operation while another one's scan freed nodes"""
    f = set()
    prev_free = None
    mid = {}
    for l in lines:
        if not l.startswith("g "):
            continue
        p = [x.strip() for x in l.split("|")]
        g = p[0].split()
        if len(p) < 6 or g[2] == "-":
            continue
        free = p[4].split(":")[1].split()
        if prev_free is not None:
            if len(free) > len(prev_free):
                f.add("scan-freed")
                if any(m for t, m in mid.items() if t != g[1]):
                    f.add("freed-while-other-inside-op")
                    if any(m in ("HZ0", "HZ1") for t, m in mid.items() if t != g[1]):
                        f.add("freed-while-other-before-hazard-publication")
            if len(free) < len(prev_free):
                f.add("address-reused")
        prev_free = free
        mid[g[1]] = None if g[2] == "END" else g[2]
        kept = [grp for grp in p[5][1:].split(";") if ":" in grp and grp.split(":")[1].split()]
        if "scan-freed" in f and kept and g[2] == "END":
            f.add("scan-kept-some")
    return f


def run_harness(exe, cases, ns, timeout=600):
    rc, out, err = core.run_lines(exe, [h_line(c) for c in cases] + ["Q"], timeout=timeout, env=core.qenv(ns, 1, stack=65536))
    if not out or not out[0].startswith("H "):
        raise core.BuildError("c15 harness did not start on %dx1: rc=%s %s %s" % (ns, rc, out[:2], err[-500:]))
    return out[0].split(), [norm(l) for l in out[1:]], rc


def grants(lines):
    return [l for l in (lines or []) if l.startswith("g ")]


def load_corpus(name):
    path = os.path.join(core.VERIF, "corpus", P, name)
    if not os.path.exists(path):
        return []
    return [dict(c, corpus=c.get("corpus", name)) for c in json.load(open(path))["cases"]]


def run_lr(ctx, exe, drv, quick, acc):
    from . import c15 as base
    rng = ctx.rng
    for ns in (3, 4):
        K = ns - 1
        r = rng.fork()
        hdr0, _, _ = run_harness(exe, [], ns)
        fmax = int(hdr0[3])
        cases = [c for c in load_corpus("ext_lr.json") if len(c["progs"]) == K]
        cases += [gen_lr(r, K, fmax, not quick) for _ in range((40 if ns == 3 else 25) if quick else 300)]
        hdr, hout, rc = run_harness(exe, cases, ns, timeout=900)
        rcm, mout, merr = core.run_lines(drv, [d_line(c, fmax) for c in cases], timeout=900)
        mout = [norm(l) for l in mout]
        himpl, hmod = split_cases(cases, hout), split_cases(cases, mout)
        for c, il, ml in zip(cases, himpl, hmod):
            tag = dict(c, config="%dx1" % ns)
            acc["evals"] += 1
            acc["hist"]["LR"] = acc["hist"].get("LR", 0) + 1
            if il is None or ml is None:
                acc["mismatches"].append(("LR: no output (harness rc=%s)" % rc, tag))
                acc["rejects"].append((None, "hang or crash of the real code (qlfqueue with reclamation under the baton)", tag))
                continue
            ig, mg = grants(il), grants(ml)
            d = core.first_diff(ig, mg)
            inc = il[-1] == "INCOMPLETE"
            istuck = None if inc else il[-1].split("|")[1].split()
            mstuck = ml[-1].split("|")[1].split() if ml[-1].startswith("F") else ["?"]
            agree = d is None and not inc and istuck == mstuck
            why = base.lf_oracle(c, il) or lr_struct_oracle(il)
            if not agree:
                acc["mismatches"].append(("LR micro-step replay with reclamation: first difference at grant %s: impl %r model %r; stuck impl %s model %s" % (
                    d, ig[d] if d is not None and d < len(ig) else None, mg[d] if d is not None and d < len(mg) else None, istuck, mstuck),
                    dict(tag, impl=il[max(0, (d or 0) - 3):(d or 0) + 3], model=ml[max(0, (d or 0) - 3):(d or 0) + 3])))
            if why:
                acc["rejects"].append((None, why, dict(tag, impl_tail=il[-6:])))
            feats = lr_features(il)
            for f in feats:
                acc["stats"]["lr_" + f] = acc["stats"].get("lr_" + f, 0) + 1
            acc["stats"]["lr_grants"] = acc["stats"].get("lr_grants", 0) + len(ig)
            if agree and "address-reused" in feats and "freed-while-other-inside-op" in feats:
                acc["nontriv"].add(("LR", h_line(c)))
            if agree and len(acc["samples"]) < 2 and "address-reused" in feats:
                acc["samples"].append(dict(script=h_line(c)[:240], grants=len(ig), last=il[-2:]))


# ---------------------------------------------------------------------------------------------- extension H (DM)
DM_MACROS = ".MQDICPLU"


def dm_parse_cfg(line):
    """'C ns | a0 ; a1 ; ... | n0 ; n1 ; ...' -> (ns, alls, nbrs)"""
    p = line.split("|")
    ns = int(p[0].split()[1])
    alls = [[int(x) for x in l.split()] for l in p[1].split(";")]
    nbrs = [[int(x) for x in l.split()] for l in p[2].split(";")]
    return ns, alls, nbrs


def dm_cfg_text(alls, nbrs):
    return "| %s | %s" % (" ; ".join(" ".join(map(str, l)) for l in alls), " ; ".join(" ".join(map(str, l)) for l in nbrs))


def gen_dm(rng, K, ns, thorough, nbrs=None):
    """K tasks on pairwise distinct shepherds 1..ns-1 (the controller occupies shepherd 0).  nbrs = neighbour lists of a qdqueue
    on this shepherd count (only the SETS are used: the order changes from create to create); default: everybody.
    An advertisement for sub-queue x is pushed into the heaps of nbrs[x] by the second enqueue on a non-empty x; the templates
    put the dequeuer on such a neighbour.  Schedules use the run-until suffixes of the harness (see the module docstring)."""
    if nbrs is None:
        nbrs = [[j for j in range(ns) if j != i] for i in range(ns)]
    sheps = sorted(rng.shuffle(list(range(1, ns)))[:K])
    if rng.chance(1, 2):
        sheps = rng.shuffle(sheps)
    progs = [[] for _ in range(K)]
    sched = []
    cnt = [0]

    def val():
        cnt[0] += 1
        return cnt[0]

    def op(t, o):                      # o: "e" | ("t", x) | "d"
        if o == "d":
            progs[t].append("d")
        elif o == "e":
            progs[t].append("e%d" % val())
        else:
            progs[t].append("t%d,%d" % (o[1], val()))

    def enq_to(t, x):                  # an enqueue by task t that lands in sub-queue x
        op(t, "e" if sheps[t] == x and rng.chance(1, 2) else ("t", x))

    def fin(t):
        sched.append("%d." % t)

    def upto(t, k):
        sched.append("%d%s" % (t, k))

    def noise(n):
        for _ in range(n):
            sched.append(str(rng.below(K)) * rng.choice([1, 1, 1, 2, 3]))

    # pairs (x, t): task t sits on a neighbour of x other than x itself, so that it receives x's advertisements
    recv = [(x, t) for x in range(ns) for t in range(K) if sheps[t] in nbrs[x] and sheps[t] != x]
    on = {sheps[t]: t for t in range(K)}
    shape = rng.weighted([("random", 3), ("steal", 2), ("cas", 3), ("lcother", 2), ("sweeplc", 2), ("checkads", 2), ("nullmid", 1),
                          ("blocked", 2)])
    if not recv and shape in ("steal", "cas", "lcother", "checkads", "blocked"):
        shape = "random"
    if shape == "steal":
        # X (on x) works on its own queue, enqueues twice more (advertises once); D on a neighbour with an empty own queue pops
        # the ad: lc == ad.shep, generation 1 is not newer than last_ad_consumed -> no CAS, steal
        c = [(x, t) for x, t in recv if x in on]
        if not c:
            shape = "cas"
        else:
            x, d = rng.choice(c)
            X = on[x]
            op(X, "e"); fin(X); op(X, "d"); fin(X)
            for _ in range(rng.range(2, 4)):
                op(X, "e"); fin(X)
            c2 = [x2 for x2, t in recv if t == d and x2 != x]
            if c2 and K >= 2 and rng.chance(1, 2):        # a second advertiser into the same heap: insertion before / after `first`
                x2 = rng.choice(c2)
                E = rng.choice([t for t in range(K) if t != d])
                for _ in range(rng.range(2, 3)):
                    enq_to(E, x2); fin(E)
            for _ in range(rng.range(1, 3)):
                op(d, "d")
                if rng.chance(1, 2):
                    fin(d)
                else:
                    noise(rng.range(2, 8))
    if shape in ("cas", "blocked"):
        # two (three) enqueues into the SAME non-empty sub-queue x stand before qthread_incr together: generations 1, 2(, 3);
        # a dequeuer on a neighbour pops the ad while x works on its own queue: CAS loop on last_ad_consumed
        x, d = rng.choice(recv)
        ts = rng.shuffle(list(range(K)))
        first = on.get(x, ts[0])
        enq_to(first, x); fin(first)
        if x in on:                                  # lc[x] = x: the task on x takes from its own queue
            if rng.chance(1, 4):
                enq_to(first, x); fin(first)
            op(on[x], "d"); fin(on[x])
            if rng.chance(3, 4):
                enq_to(first, x); fin(first)
        over = ts[:rng.range(2, K)]
        for t in over:
            enq_to(t, x); upto(t, "I")
        if shape == "blocked" and len(over) >= 2:
            a, b = over[0], over[1]
            upto(a, "U"); upto(b, "L"); sched.append(str(b)); sched.append(str(b)); fin(a); sched.append(str(b))
        for t in rng.shuffle(over):
            if rng.chance(2, 3):
                fin(t)
            else:
                sched.append(str(t) * rng.range(1, 5))
        for t in rng.shuffle(list(range(K))):
            if t == d or rng.chance(1, 3):
                op(t, "d")
                upto(t, rng.choice(["C", "C", ".", "U", "D"]))
        if rng.chance(1, 2):                          # a second round: consumed moved, so stale-ness may hold again
            for t in over:
                enq_to(t, x); upto(t, rng.choice(["I", "I", "."]))
            for t in rng.shuffle(list(range(K))):
                op(t, "d")
                upto(t, rng.choice(["C", "."]))
        noise(rng.range(0, 10))
    elif shape == "lcother":
        # the task on x took its last element from z != x; then x is advertised: the popper sees lc != NULL && lc != ad.shep ->
        # re-push of z with generation 0 and cas_ptr on x's last_consumed
        c = [(x, t) for x, t in recv if x in on]
        if not c:
            shape = "random"
        else:
            x, d = rng.choice(c)
            X = on[x]
            z = rng.choice([i for i in range(ns) if i != x])
            op(X, ("t", z)); fin(X); op(X, "d"); fin(X)          # lc[x] = z
            if rng.chance(1, 2):
                op(X, ("t", z)); fin(X)
            op(X, "e"); fin(X); op(X, "e")
            if rng.chance(1, 2):
                fin(X)
            else:
                upto(X, rng.choice(["I", "L", "U"]))
            for _ in range(rng.range(1, 3)):
                op(d, "d")
                upto(d, rng.choice([".", "P", "P", "L", "U"]))
                if rng.chance(1, 3):
                    op(X, rng.choice(["d", "e"])); upto(X, rng.choice([".", "D", "Q"]))
            noise(rng.range(0, 8))
    elif shape == "sweeplc":
        # r's task took its last element from l (lc[r] = l, r's own queue empty); a dequeuer whose sweep meets r first
        # dequeues from l through r's hint
        if K < 2:
            shape = "random"
        else:
            ts = rng.shuffle(list(range(K)))
            R, D = ts[0], ts[1]
            l = rng.choice([i for i in range(ns) if i != sheps[R] and i != sheps[D]] or [0])
            op(R, ("t", l)); fin(R); op(R, "d"); fin(R)
            for _ in range(rng.range(1, 2)):
                op(R, ("t", l)); fin(R)
            op(D, "d")
            if rng.chance(1, 2):
                fin(D)
            else:
                sched.append(str(D) * rng.range(1, 4)); op(R, "d"); fin(R); fin(D)
            noise(rng.range(0, 6))
    elif shape == "checkads":
        # the dequeuer stands in the middle of its allsheps sweep while an advertisement arrives in its heap: goto checkads
        x, d = rng.choice(recv)
        E = rng.choice([t for t in range(K) if t != d])
        if x in on and rng.chance(1, 2):
            X = on[x]
            op(X, "e"); fin(X); op(X, "d"); fin(X)
        op(d, "d")
        for _ in range(rng.range(2, ns)):
            upto(d, "D")
        enq_to(E, x); fin(E); enq_to(E, x)
        upto(E, rng.choice([".", ".", "U", "I"]))
        upto(d, rng.choice([".", "L", "U"]))
        fin(E)
        noise(rng.range(0, 8))
    elif shape == "nullmid":
        ts = rng.shuffle(list(range(K)))
        E, D = ts[0], ts[1]
        op(E, rng.choice(["e", ("t", rng.below(ns))]))
        upto(E, rng.choice(["Q", "Q", "M"]))
        op(D, "d"); fin(D)
        fin(E)
        op(D, "d"); fin(D)
    if shape == "random":
        hot = [rng.below(ns) for _ in range(rng.range(1, 2))]
        for t in range(K):
            we = rng.choice([30, 50, 70])
            for _ in range(rng.range(3, 12 if thorough else 8)):
                o = rng.weighted([("e", we // 2), ("t", we - we // 2), ("d", 100 - we)])
                op(t, ("t", rng.choice(hot) if rng.chance(3, 4) else rng.below(ns)) if o == "t" else o)
        total = 8 * sum(len(p) for p in progs)
        while len(sched) < total:
            k = rng.below(10)
            t = rng.below(K)
            if k < 5:
                sched.append(str(t) * rng.choice([1, 1, 1, 2, 2, 3, 5]))
            elif k < 8:
                upto(t, rng.choice(DM_MACROS))
            else:
                sched.append(str(t) * rng.range(6, 14))
    # every task gets a few more operations after the aimed part (hints are now in an interesting state)
    if shape != "random" and rng.chance(2, 3):
        for t in range(K):
            for _ in range(rng.range(0, 3)):
                op(t, rng.weighted([("e", 30), (("t", rng.below(ns)), 20), ("d", 50)]))
        noise(rng.range(4, 20))
    for t in range(K):
        if not progs[t]:
            op(t, "d")
    nops = sum(len(p) for p in progs)
    return dict(mode="DM", shape=shape, cap=(12 + 4 * ns) * nops + 100, ns=ns, tasks=[[sheps[t], progs[t]] for t in range(K)],
                sched="".join(sched))


def dm_parse_grant(l):
    """'g t KIND [x] | dump' -> (t, kind, arg, [per shepherd dict(q=[..], lc, ai, ac, h=[..], e=[..])])"""
    p = [x.strip() for x in l.split("|")]
    g = p[0].split()
    subs = []
    for d in p[1:]:
        f = [x.strip() for x in d.split(";")]
        if len(f) < 5:
            continue
        subs.append(dict(q=f[0].split()[1:], lc=f[1].split()[1], ai=int(f[2].split()[1]), ac=int(f[2].split()[3]),
                         h=f[3].split()[1:], e=f[4].split()[1:]))
    return int(g[1]), g[2], (g[3] if len(g) > 3 else None), subs


def dm_oracle(c, lines):
    """conservation on the IMPLEMENTATION's trace: a dequeue delivers only values whose enqueue has started, each value at most
    once; a NULL result only if every sub-queue was seen empty in some dump during that call; at the end (nobody stuck)
    delivered + remaining contents = enqueued.  Returns a reason or None."""
    K = len(c["tasks"])
    ns = c["ns"]
    ip = [0] * K                        # next operation of task t
    incall = [False] * K
    seen_empty = [set() for _ in range(K)]
    started, delivered = [], []
    last = [dict(q=[]) for _ in range(ns)]
    complete = False
    for l in lines:
        if l.startswith("F"):
            complete = (l.split("|")[1].split() == []) if "|" in l else False
        if not l.startswith("g "):
            continue
        t, kind, arg, subs = dm_parse_grant(l)
        if len(subs) != ns or t >= K:
            return "malformed grant line %r" % l[:80]
        if kind in ("-", "BLOCKED"):
            pass
        else:
            prog = c["tasks"][t][1]
            if not incall[t]:
                if ip[t] >= len(prog):
                    return "task %d moved after the end of its program" % t
                incall[t] = True
                o = prog[ip[t]]
                if o[0] in "et":
                    started.append(int(o.split(",")[-1][1:] if o[0] == "e" else o.split(",")[1]))
                seen_empty[t] = set(i for i in range(ns) if not last[i]["q"])
        for u in range(K):
            if incall[u]:
                seen_empty[u] |= set(i for i in range(ns) if not subs[i]["q"])
        if kind == "END":
            o = c["tasks"][t][1][ip[t]]
            if o == "d":
                if arg is None or not arg.startswith("p"):
                    return "dequeue by task %d returned %r" % (t, arg)
                v = int(arg[1:])
                if v == 0:
                    if len(seen_empty[t]) != ns:
                        return "dequeue by task %d returned NULL although sub-queue(s) %s were never empty during the call" % (
                            t, sorted(set(range(ns)) - seen_empty[t]))
                else:
                    if v not in started:
                        return "dequeue by task %d delivered %d, which no started enqueue put in" % (t, v)
                    if v in delivered:
                        return "value %d delivered twice" % v
                    delivered.append(v)
            elif arg != "i0":
                return "enqueue by task %d returned %r" % (t, arg)
            incall[t] = False
            ip[t] += 1
        last = subs
    for sq in last:
        if len(set(sq["q"])) != len(sq["q"]):
            return "a value is linked twice in a sub-queue: %s" % sq["q"]
    if complete:
        rest = [int(v) for sq in last for v in sq["q"]]
        if sorted(rest + delivered) != sorted(started):
            return "conservation: enqueued %s, delivered %s + remaining %s" % (sorted(started), sorted(delivered), sorted(rest))
    return None


DM_FEATURES = {                       # feature -> pc transition of the model (P line of the driver; "A>" = any transition out of A)
    "ad_issued": "EnqIncr>", "ad_not_stale_skip": "EnqLdConsumed>EnqRet", "ad_popped": "PopCrit>PopUnlock",
    "pop_raced_empty": "PopCrit>PopUnlockEmpty", "cas_loop": "DeqCas>", "cas_retry": "DeqCas>DeqCas", "steal_via_ad": "DeqSteal>DeqStRet",
    "steal_via_ad_empty": "DeqSteal>PopPre", "ad_lc_null": "DeqLdLc>PopPre", "ad_lc_other_repush_casp": "DeqCasP>",
    "sweep_lc_branch": "DeqLcDeq>", "sweep_lc_hit": "DeqLcDeq>DeqStRet", "goto_checkads": "DeqEmptyChk>PopPre", "null_result": "DeqRetNull>",
    "push_first": "push:first", "push_before_first": "push:before", "push_after_first": "push:after", "push_already_inheap": "push:already",
    "push_gen_not_newer": "push:noop", "push_was_first": "push:wasfirst",
}


def dm_features(ml, il):
    f = set()
    for l in ml or []:
        if l.startswith("P "):
            toks = l.split()[1:]
            for name, pat in DM_FEATURES.items():
                if pat.endswith(">"):
                    hit = any(t.startswith(pat) for t in toks)
                elif pat.startswith("push:"):
                    hit = pat in toks or pat + "0" in toks
                else:
                    hit = pat in toks
                if hit:
                    f.add(name)
            if any(t.startswith("push:") and t.endswith("0") for t in toks):
                f.add("push_gen0")
    if any(l.startswith("g ") and l.split()[2] == "BLOCKED" for l in il or []):
        f.add("blocked_grant")
    return f


def dm_run_impl(exe, cases, ns, timeout=600):
    """runs the cases through the harness; a case that ends with parked tasks (or a watchdog) ends the process: restart behind it"""
    res = [["NOTRUN"]] * len(cases)     # NOTRUN: relaunch budget exhausted before the case (only when many cases end with stuck tasks)
    pos, launches, rc = 0, 0, None
    while pos < len(cases) and launches < 200:
        launches += 1
        _, lines, rc = run_harness(exe, cases[pos:], ns, timeout=timeout)
        chunks = split_cases(cases[pos:], lines)
        done = 0
        for i, ch in enumerate(chunks):
            if ch is None:
                break
            res[pos + i] = ch
            done += 1
        if done == 0:
            res[pos] = None             # the process died before printing anything for this case
        pos += max(done, 1)
    return res, rc, launches


def run_dm(ctx, exe, drv, quick, acc):
    """M3 replay of the REAL src/ds/qdqueue.c against CQueues/DqMicro.v.  See the module docstring for the line formats."""
    rng = ctx.rng
    t_start = time.time()
    corpus = load_corpus("ext_dm.json")
    plan = [(2, 3, 60), (2, 4, 50), (3, 4, 70), (3, 5, 50)] if quick else [(2, 3, 1500), (2, 4, 1200), (3, 4, 2000), (3, 5, 1500)]
    by_ns = {}
    for K, ns, n in plan:
        by_ns.setdefault(ns, []).append((K, n))
    for ns in sorted(by_ns):
        r = rng.fork()
        rc0, out0, err0 = core.run_lines(exe, ["DC", "Q"], timeout=120, env=core.qenv(ns, 1, stack=65536))
        cfg = [norm(l) for l in out0 if l.startswith("C ")]
        if not cfg:
            raise core.BuildError("c15 harness gave no qdqueue configuration on %dx1: rc=%s %s %s" % (ns, rc0, out0[:2], err0[-300:]))
        _, alls0, nbrs0 = dm_parse_cfg(cfg[0])
        cases = [c for c in corpus if c["ns"] == ns]
        for K, n in by_ns[ns]:
            cases += [gen_dm(r, K, ns, not quick, nbrs0) for _ in range(n)]
        impl, rc, launches = dm_run_impl(exe, cases, ns, timeout=900)
        mlines = []
        for c, il in zip(cases, impl):
            cl = [l for l in (il or []) if l.startswith("C ")]
            _, alls, nbrs = dm_parse_cfg(cl[0]) if cl else (ns, alls0, nbrs0)
            ig = grants(il)
            # the model replays the grant sequence the harness resolved the schedule (run-until suffixes, round-robin) to
            seq = "".join(l.split()[1] for l in ig) if ig else "".join(ch for ch in c["sched"] if ch.isdigit())
            mlines.append(d_line(dict(c, sched=seq, cap=0 if ig else c["cap"]), 0, dm_cfg_text(alls, nbrs)))
        rcm, mout, merr = core.run_lines(drv, mlines, timeout=900)
        hmod = split_cases(cases, [norm(l) for l in mout])
        for c, il, ml in zip(cases, impl, hmod):
            tag = dict(c, config="%dx1" % ns)
            if il == ["NOTRUN"]:
                acc["stats"]["dm_not_run"] = acc["stats"].get("dm_not_run", 0) + 1
                continue
            acc["evals"] += 1
            acc["hist"]["DM"] = acc["hist"].get("DM", 0) + 1
            acc["stats"]["dm_shape_" + c.get("shape", "corpus")] = acc["stats"].get("dm_shape_" + c.get("shape", "corpus"), 0) + 1
            if il is None or ml is None:
                acc["mismatches"].append(("DM: no output (harness rc=%s, model rc=%s %s)" % (rc, rcm, merr[-200:]), tag))
                acc["rejects"].append((None, "hang or crash of the real code (qdqueue under the baton)", tag))
                continue
            ig, mg = grants(il), grants(ml)
            d = core.first_diff(ig, mg)
            inc = il[-1] == "INCOMPLETE"
            istuck = None if inc else (il[-1].split("|")[1].split() if "|" in il[-1] else [il[-1]])
            mstuck = ml[-1].split("|")[1].split() if ml[-1].startswith("F |") else [ml[-1]]
            agree = d is None and not inc and istuck == mstuck and bool(ig)
            try:
                why = dm_oracle(c, il)
            except (ValueError, IndexError) as e:
                why = "unparsable implementation trace (%s)" % e
            if inc and not why:
                why = "hang of the real code (watchdog) at grant %d" % len(ig)
            if not agree:
                k = d or 0
                acc["mismatches"].append(("DM micro-step replay of qdqueue.c: first difference at grant %s: impl %r model %r; stuck impl %s model %s" % (
                    d, ig[d] if d is not None and d < len(ig) else None, mg[d] if d is not None and d < len(mg) else None, istuck, mstuck),
                    dict(tag, impl=ig[max(0, k - 3):k + 2], model=mg[max(0, k - 3):k + 2])))
            if why:
                acc["rejects"].append((None, "qdqueue: " + why, dict(tag, impl_tail=il[-4:])))
            feats = dm_features(ml, il)
            for f in feats:
                acc["stats"]["dm_" + f] = acc["stats"].get("dm_" + f, 0) + 1
            acc["stats"]["dm_grants"] = acc["stats"].get("dm_grants", 0) + len(ig)
            if istuck:
                acc["stats"]["dm_stuck_cases"] = acc["stats"].get("dm_stuck_cases", 0) + 1
            if agree and feats & {"ad_popped", "goto_checkads", "sweep_lc_branch", "cas_loop", "ad_lc_other_repush_casp", "blocked_grant"}:
                acc["nontriv"].add(("DM", h_line(c)))
            if agree and sum(1 for s in acc["samples"] if s.get("mode") == "DM") < 2 and "steal_via_ad" in feats:
                acc["samples"].append(dict(mode="DM", script=h_line(c)[:240], grants=len(ig), features=sorted(feats), last=il[-2:]))
        acc["stats"]["dm_harness_launches"] = acc["stats"].get("dm_harness_launches", 0) + launches
    acc["stats"]["dm_wall_s"] = round(time.time() - t_start, 1)
# ---------------------------------------------------------------------------------------------- end extension H (DM)


def lf_recheck(ctx, exe, case, ns):
    """For c15.py's LF mode (fresh-id model Lfq.v): the real code's hazard validation `if (tail != q->tail) continue;` compares ADDRESSES,
    so it falls through when the node it loaded has meanwhile been freed, handed out again and become q->tail / q->head again; the
    fresh-id model compares ids and predicts a retry.  That is not a defect (lfqr_refines_lfq: the reclaiming machine's step is matched by
    4 steps of the fresh-id machine) but the LF replay differs at that grant.  Re-run the same case in LR mode against the reclaiming
    model; returns (True, n_grants) when every grant agrees and the oracles accept the implementation's trace."""
    from . import c15 as base
    drv = ctx.model_driver("c15ext_driver")
    c = dict(mode="LR", cap=case["cap"], hi=case.get("hi", 0), progs=case["progs"], sched=case["sched"])
    hdr, hout, rc = run_harness(exe, [c], ns, timeout=300)
    rcm, mout, merr = core.run_lines(drv, [d_line(c, int(hdr[3]))], timeout=300)
    il = split_cases([c], hout)[0]
    ml = split_cases([c], [norm(l) for l in mout])[0]
    if il is None or ml is None or il[-1] == "INCOMPLETE":
        return False, 0
    ig, mg = grants(il), grants(ml)
    ok = core.first_diff(ig, mg) is None and il[-1].split("|")[1].split() == ml[-1].split("|")[1].split()
    ok = ok and not (base.lf_oracle(c, il) or lr_struct_oracle(il))
    return ok, len(ig)


def run_ext(ctx, quick):
    t0 = time.time()
    pr = ctx.coq_properties("Properties/Properties_C15_ext.v")
    ok, log = ctx.coq_make(["theories/CQueues/ExtractExt.vo"])
    if not ok:
        raise core.BuildError("CQueues/ExtractExt.v does not compile:\n" + log[-2000:])
    exe = ctx.link("c15_queues_ext", ["c15_queues.c"], exclude=EXCLUDE)
    drv = ctx.model_driver("c15ext_driver")
    acc = dict(evals=0, hist={}, mismatches=[], rejects=[], stats={}, nontriv=set(), samples=[])
    t1 = time.time()
    run_lr(ctx, exe, drv, quick, acc)
    t2 = time.time()
    run_dm(ctx, exe, drv, quick, acc)          # extension H (DM)
    t3 = time.time()
    ctx.cov["ext_H"] = dict(
        evaluations=acc["evals"], distinct_nontrivial=len(acc["nontriv"]), input_distribution=acc["hist"], stats=acc["stats"],
        samples=acc["samples"], correspondence_mismatches=len(acc["mismatches"]),
        rule="LR: non-trivial = a scan freed nodes while another task stood inside an operation AND a freed address was handed out "
             "again, with every grant's dump (chain addresses, pool, hazard slots, retired lists) equal to the model's",
        timing_s=dict(coq_build=round(t1 - t0, 1), lr=round(t2 - t1, 1), dm=round(t3 - t2, 1)))
    ctx.cov["evaluations"] = ctx.cov.get("evaluations", 0) + acc["evals"]
    ctx.cov["distinct_nontrivial"] = ctx.cov.get("distinct_nontrivial", 0) + len(acc["nontriv"])
    ctx.cov["traces_validated_against_impl"] = ctx.cov.get("traces_validated_against_impl", 0) + acc["evals"]
    ctx.assumptions += [
        "extension H: every caller of qlfqueue / qdqueue is a qthread task running on a worker (hazard slots and retired lists are the "
        "worker's); for plain pthreads the hzptr_list path of hazardptrs.c is defective (CQueues/HazardExt.v scan_x_ignores_external, "
        "docs/proposed_fixes/C15-hazardptrs-external-threads.diff; harness mode XP reproduces crash, protection loss and a duplicate)",
        "extension H: LfqReclaim.v's pool is the harness arena (LIFO free list, else next unused address); qpool's per-thread caches "
        "hand out addresses in another order, the theorems hold for every order only in so far as they quantify over schedules, not pools"]
    ctx.notes += [
        "qlfqueue_empty() is not linearizable once node addresses are re-used (lfqr_empty_never_empty_refuted, machine-checked witness); "
        "the C15 clause about emptiness holds for every schedule (lfqr_empty_sound); qlfqueue_dequeue loads next_ptr->value from a "
        "possibly freed node, result discarded (lfqr_value_read_uaf_refuted): docs/proposed_fixes/C15-lfq-dequeue-revalidate.diff",
        "outside C15's scope (callers that are not workers), recorded only: hazard-release-node-external-null-worker, "
        "hazard-external-thread-slots-ignored, hazard-scan-plist-overflow-one-external (docs/proposed_fixes/"
        "C15-hazardptrs-external-threads.diff). Reproduce with the harness mode XP, one line per process, e.g. "
        "QT_NUM_SHEPHERDS=2 QT_NUM_WORKERS_PER_SHEPHERD=1 <c15_queues> with input `XP 2 3` (crash) or `XP 3 0 0` (protection lost, duplicate)"]
    ctx.cov["ext_H"]["notes_signatures"] = ["lfq-dequeue-unvalidated-next", "lfq-empty-not-linearizable-under-reuse",
                                            "hazard-release-node-external-null-worker", "hazard-external-thread-slots-ignored",
                                            "hazard-scan-plist-overflow-one-external"]
    mismatches, rejects = acc["mismatches"], acc["rejects"]
    broken = bool(mismatches) or not pr["ok"]
    if broken:
        what = ("extension H: correspondence model/implementation broken (%d cases): %s" % (len(mismatches), mismatches[0][0][:300])) if mismatches else \
               "theorems in %s no longer check" % pr["file"]
        if rejects:
            sig, why, case = rejects[0]
            ctx.violation("broken+input", what + "; failing input: " + why,
                          {"failing_input": case, "reason": why, "first_mismatch": mismatches[0] if mismatches else None,
                           "coq_log": pr["log"][-1500:]})
        else:
            ctx.violation("broken", what, {"theorem_or_correspondence": mismatches[0][0] if mismatches else pr["file"],
                                           "first_mismatch": mismatches[0] if mismatches else None, "coq_log": pr["log"][-1500:]}, no_input=True)
    else:
        for sig, why, case in rejects[:3]:
            ctx.violation(sig or ("unlisted:" + why.split()[0]), why, case)
