"""C15 extension H: (1) qlfqueue WITH node reclamation (CQueues/LfqReclaim.v) and (2) the micro-step qdqueue machine
(CQueues/DqMicro.v), both replayed against the real code under the baton (M3).

Theorems: Properties/Properties_C15_ext.v.   Driver: ocaml/c15ext_driver.ml (extraction CQueues/ExtractExt.v).

Line formats (harness c15_queues.c = H, model driver c15ext_driver = D):
  LR cap hi | ops task0 | ops task1 ... | schedule(digits)          (D: LR cap fmax | ...)    ops: e<v>, d, m
       like LF (c15.py) but the dump after every grant is
         | addresses on the chain from head (arena ordinals) | values behind the dummy | T tail | P next-unused : free list (LIFO)
         | W  hz0 hz1 : retired list ;   (one group per worker, worker 0 = the controller's shepherd)
       so the retire / scan / free events and the pool's re-use of addresses are part of the compared trace.
  DM ...  see run_dm below.
"""
import json
import os
import time
from .. import core

P = "C15"
EXCLUDE = ["ds/qswsrqueue.c", "ds/qlfqueue.c", "hazardptrs.c", "ds/qdqueue.c"]


def norm(l):
    return " ".join(l.split())


# ---------------------------------------------------------------------------------------------- LR generator
def gen_lr(rng, nt, fmax, thorough):
    """scripts in which one task retires >= freelist_max nodes (so that hazardous_scan runs and addresses are re-used) while the
    others stand in the middle of an operation: between reading a pointer and publishing / validating the hazard slot, between
    hazardous_ptr(1, next) and the value read, before a CAS."""
    shape = rng.below(6)
    progs = [[] for _ in range(nt)]
    seq = [0] * nt

    def enq(t):
        seq[t] += 1
        return "e%d" % ((t + 1) * (1 << 20) + seq[t])
    big = rng.range(fmax + 2, (4 if thorough else 3) * fmax)
    if shape == 0:            # one drainer retires many; the others enqueue / dequeue / test emptiness
        d = rng.below(nt)
        for t in range(nt):
            n = big if t == d else rng.range(3, big)
            for _ in range(n):
                if t == d:
                    progs[t].append(rng.weighted([("d", 80), ("e", 15), ("m", 5)]))
                else:
                    progs[t].append(rng.weighted([("e", 70), ("d", 20), ("m", 10)]))
    elif shape == 1:          # everybody alternates: enqueue then dequeue (each task recycles its own and the others' nodes)
        for t in range(nt):
            for _ in range(big):
                progs[t] += ["e", "d"] if rng.chance(4, 5) else [rng.choice(["e", "d", "m"])]
    elif shape == 2:          # producer far ahead, consumers race for the head
        for t in range(nt):
            for _ in range(big if t == 0 else rng.range(fmax, big + fmax)):
                progs[t].append(rng.weighted([("e", 90), ("m", 10)]) if t == 0 else rng.weighted([("d", 90), ("m", 5), ("e", 5)]))
    else:                     # random roles
        for t in range(nt):
            we = rng.choice([20, 50, 80])
            for _ in range(rng.range(4, big + fmax)):
                progs[t].append(rng.weighted([("e", we), ("d", 95 - we), ("m", 5)]))
    progs = [[enq(t) if o == "e" else o for o in p] for t, p in enumerate(progs)]
    total = 6 * sum(len(p) for p in progs)
    s = []
    # prefill so that dequeues succeed from the start in most cases
    if rng.chance(2, 3):
        s.extend([str(rng.below(nt))] * rng.range(10, 90))
    while len(s) < total:
        k = rng.below(10)
        t = rng.below(nt)
        if k < 3:             # a stall: t moves 1..4 grants (ends somewhere inside an operation), another task runs for long
            s.extend([str(t)] * rng.range(1, 4))
            u = rng.choice([x for x in range(nt) if x != t] or [t])
            s.extend([str(u)] * rng.choice([30, 60, 120, 200, 300]))
        elif k < 7:
            s.extend([str(t)] * rng.choice([1, 1, 1, 2, 2, 3, 5, 8]))
        else:
            s.extend([str(t)] * rng.choice([13, 21, 40]))
    return dict(mode="LR", cap=10 * sum(len(p) for p in progs) + 300, hi=0, progs=progs, sched="".join(s[:total]))


def h_line(c):
    if c["mode"] == "LR":
        return "LR %d %d | %s | %s" % (c["cap"], c["hi"], " | ".join(" ".join(p) for p in c["progs"]), c["sched"])
    if c["mode"] == "DM":
        return "DM %d %d | %s | %s" % (c["cap"], c["ns"], " | ".join("%d: %s" % (sh, " ".join(p)) for sh, p in c["tasks"]), c["sched"])
    raise ValueError(c["mode"])


def d_line(c, fmax, extra=""):
    if c["mode"] == "LR":
        return "LR %d %d | %s | %s" % (c["cap"], fmax, " | ".join(" ".join(p) for p in c["progs"]), c["sched"])
    if c["mode"] == "DM":
        return "DM %d %d %s | %s | %s" % (c["cap"], c["ns"], extra, " | ".join("%d: %s" % (sh, " ".join(p)) for sh, p in c["tasks"]), c["sched"])
    raise ValueError(c["mode"])


def split_cases(cases, lines):
    out, pos = [], 0
    for c in cases:
        if pos >= len(lines):
            out.append(None)
            continue
        j = pos
        while j < len(lines) and not lines[j].startswith("F") and lines[j] != "TIMEOUT":
            j += 1
        if j >= len(lines) or lines[j] == "TIMEOUT":
            out.append(lines[pos:j + 1] + ["INCOMPLETE"])
            pos = len(lines)
        else:
            out.append(lines[pos:j + 1])
            pos = j + 1
    return out


def lr_struct_oracle(lines):
    """memory-safety predicates on the implementation's own dumps: no address on the chain from head, in a hazard-validated
    position or in a retired list is in the pool's free list; no address is retired twice or free twice"""
    for l in lines:
        if not l.startswith("g "):
            continue
        p = [x.strip() for x in l.split("|")]
        if len(p) < 6:
            continue
        chain = p[1].split()
        if "CYCLE" in chain:
            return "queue chain became cyclic"
        free = p[4].split(":")[1].split()
        if len(set(free)) != len(free):
            return "address freed twice (pool free list %s)" % free
        bad = [a for a in chain if a in free]
        if bad:
            return "node %s is linked in the queue and in the pool's free list (use after free)" % bad[:3]
        if len(set(chain)) != len(chain):
            return "address linked twice in the chain %s" % chain
        retired = []
        for grp in p[5][1:].split(";"):
            if ":" in grp:
                retired += grp.split(":")[1].split()
        if len(set(retired)) != len(retired):
            return "address retired twice %s" % retired
        bad = [a for a in retired if a in free]
        if bad:
            return "retired node %s already in the pool's free list (double free ahead)" % bad[:3]
        tail = p[3].split()[1]
        if tail not in chain:
            return "q->tail (%s) is not on the chain from q->head %s: tail fell behind head" % (tail, chain)
    return None


def lr_features(lines):
    """rare branches reached: scan ran, address re-used, a task stood inside an operation while another one's scan freed nodes"""
    f = set()
    prev_free = None
    mid = {}
    for l in lines:
        if not l.startswith("g "):
            continue
        p = [x.strip() for x in l.split("|")]
        g = p[0].split()
        if len(p) < 6 or g[2] == "-":
            continue
        free = p[4].split(":")[1].split()
        if prev_free is not None:
            if len(free) > len(prev_free):
                f.add("scan-freed")
                if any(m for t, m in mid.items() if t != g[1]):
                    f.add("freed-while-other-inside-op")
                    if any(m in ("HZ0", "HZ1") for t, m in mid.items() if t != g[1]):
                        f.add("freed-while-other-before-hazard-publication")
            if len(free) < len(prev_free):
                f.add("address-reused")
        prev_free = free
        mid[g[1]] = None if g[2] == "END" else g[2]
        kept = [grp for grp in p[5][1:].split(";") if ":" in grp and grp.split(":")[1].split()]
        if "scan-freed" in f and kept and g[2] == "END":
            f.add("scan-kept-some")
    return f


def run_harness(exe, cases, ns, timeout=600):
    rc, out, err = core.run_lines(exe, [h_line(c) for c in cases] + ["Q"], timeout=timeout, env=core.qenv(ns, 1, stack=65536))
    if not out or not out[0].startswith("H "):
        raise core.BuildError("c15 harness did not start on %dx1: rc=%s %s %s" % (ns, rc, out[:2], err[-500:]))
    return out[0].split(), [norm(l) for l in out[1:]], rc


def grants(lines):
    return [l for l in (lines or []) if l.startswith("g ")]


def load_corpus(name):
    path = os.path.join(core.VERIF, "corpus", P, name)
    if not os.path.exists(path):
        return []
    return [dict(c, corpus=c.get("corpus", name)) for c in json.load(open(path))["cases"]]


def run_lr(ctx, exe, drv, quick, acc):
    from . import c15 as base
    rng = ctx.rng
    for ns in (3, 4):
        K = ns - 1
        r = rng.fork()
        hdr0, _, _ = run_harness(exe, [], ns)
        fmax = int(hdr0[3])
        cases = [c for c in load_corpus("ext_lr.json") if len(c["progs"]) == K]
        cases += [gen_lr(r, K, fmax, not quick) for _ in range((14 if ns == 3 else 8) if quick else 250)]
        hdr, hout, rc = run_harness(exe, cases, ns, timeout=900)
        rcm, mout, merr = core.run_lines(drv, [d_line(c, fmax) for c in cases], timeout=900)
        mout = [norm(l) for l in mout]
        himpl, hmod = split_cases(cases, hout), split_cases(cases, mout)
        for c, il, ml in zip(cases, himpl, hmod):
            tag = dict(c, config="%dx1" % ns)
            acc["evals"] += 1
            acc["hist"]["LR"] = acc["hist"].get("LR", 0) + 1
            if il is None or ml is None:
                acc["mismatches"].append(("LR: no output (harness rc=%s)" % rc, tag))
                acc["rejects"].append((None, "hang or crash of the real code (qlfqueue with reclamation under the baton)", tag))
                continue
            ig, mg = grants(il), grants(ml)
            d = core.first_diff(ig, mg)
            inc = il[-1] == "INCOMPLETE"
            istuck = None if inc else il[-1].split("|")[1].split()
            mstuck = ml[-1].split("|")[1].split() if ml[-1].startswith("F") else ["?"]
            agree = d is None and not inc and istuck == mstuck
            why = base.lf_oracle(c, il) or lr_struct_oracle(il)
            if not agree:
                acc["mismatches"].append(("LR micro-step replay with reclamation: first difference at grant %s: impl %r model %r; stuck impl %s model %s" % (
                    d, ig[d] if d is not None and d < len(ig) else None, mg[d] if d is not None and d < len(mg) else None, istuck, mstuck),
                    dict(tag, impl=il[max(0, (d or 0) - 3):(d or 0) + 3], model=ml[max(0, (d or 0) - 3):(d or 0) + 3])))
            if why:
                acc["rejects"].append((None, why, dict(tag, impl_tail=il[-6:])))
            feats = lr_features(il)
            for f in feats:
                acc["stats"]["lr_" + f] = acc["stats"].get("lr_" + f, 0) + 1
            acc["stats"]["lr_grants"] = acc["stats"].get("lr_grants", 0) + len(ig)
            if agree and "address-reused" in feats and "freed-while-other-inside-op" in feats:
                acc["nontriv"].add(("LR", h_line(c)))
            if agree and len(acc["samples"]) < 2 and "address-reused" in feats:
                acc["samples"].append(dict(script=h_line(c)[:240], grants=len(ig), last=il[-2:]))


def run_ext(ctx, quick):
    t0 = time.time()
    pr = ctx.coq_properties("Properties/Properties_C15_ext.v")
    ok, log = ctx.coq_make(["theories/CQueues/ExtractExt.vo"])
    if not ok:
        raise core.BuildError("CQueues/ExtractExt.v does not compile:\n" + log[-2000:])
    exe = ctx.link("c15_queues_ext", ["c15_queues.c"], exclude=EXCLUDE)
    drv = ctx.model_driver("c15ext_driver")
    acc = dict(evals=0, hist={}, mismatches=[], rejects=[], stats={}, nontriv=set(), samples=[])
    t1 = time.time()
    run_lr(ctx, exe, drv, quick, acc)
    t2 = time.time()
    ctx.cov["ext_H"] = dict(
        evaluations=acc["evals"], distinct_nontrivial=len(acc["nontriv"]), input_distribution=acc["hist"], stats=acc["stats"],
        samples=acc["samples"], correspondence_mismatches=len(acc["mismatches"]),
        rule="LR: non-trivial = a scan freed nodes while another task stood inside an operation AND a freed address was handed out "
             "again, with every grant's dump (chain addresses, pool, hazard slots, retired lists) equal to the model's",
        timing_s=dict(coq_build=round(t1 - t0, 1), lr=round(t2 - t1, 1)))
    ctx.cov["evaluations"] = ctx.cov.get("evaluations", 0) + acc["evals"]
    ctx.cov["distinct_nontrivial"] = ctx.cov.get("distinct_nontrivial", 0) + len(acc["nontriv"])
    ctx.cov["traces_validated_against_impl"] = ctx.cov.get("traces_validated_against_impl", 0) + acc["evals"]
    mismatches, rejects = acc["mismatches"], acc["rejects"]
    broken = bool(mismatches) or not pr["ok"]
    if broken:
        what = ("extension H: correspondence model/implementation broken (%d cases): %s" % (len(mismatches), mismatches[0][0][:300])) if mismatches else \
               "theorems in %s no longer check" % pr["file"]
        if rejects:
            sig, why, case = rejects[0]
            ctx.violation("broken+input", what + "; failing input: " + why,
                          {"failing_input": case, "reason": why, "first_mismatch": mismatches[0] if mismatches else None,
                           "coq_log": pr["log"][-1500:]})
        else:
            ctx.violation("broken", what, {"theorem_or_correspondence": mismatches[0][0] if mismatches else pr["file"],
                                           "first_mismatch": mismatches[0] if mismatches else None, "coq_log": pr["log"][-1500:]}, no_input=True)
    else:
        for sig, why, case in rejects[:3]:
            ctx.violation(sig or ("unlisted:" + why.split()[0]), why, case)
