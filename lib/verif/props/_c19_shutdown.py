"""C19 extension U: the worker start-up / shutdown protocol of qthread_initialize / qthread_finalize.

Proof: coq/theories/Lifecycle/Shutdown.v (micro-step machine: S x W workers with per-shepherd / per-worker active flags, one
ready queue per shepherd holding ordinary tasks and terminators, every worker thread's loop, the finalizer's exact sequence of
shared accesses) + ShutdownProofs.v; theorems in Properties/Properties_C19_shutdown.v (for every schedule, every S, W, every flag
assignment: every worker thread exits, one terminator per worker is taken, join after exit, cleanup stages after all joins; the
variant whose re-enabling test reads the shepherd's flag is refuted).
Tie (M4, trace acceptance): harness/c/c19_shutdown.c = white-box qthread.c of the working tree with the flag reads, the
re-enabling CAS, the terminator enqueue, get_thread's result, pthread_create / pthread_join / the worker's exit and the three
cleanup stages logged under one global order; the extracted machine must ACCEPT the logged order of every finalize and end in
its final state (all workers exited, no terminator left); the start-up facts are compared with `init_workers`.
"""
import json
import os
import re
from .. import core

PROPS = "Properties/Properties_C19_shutdown.v"


def _kv(line):
    return dict(p.split("=", 1) for p in line.split()[1:] if "=" in p)


def gen_scenarios(rng, quick):
    sc = []
    add = lambda name, cfg, lines, env=None: sc.append(dict(name=name, cfg=cfg, lines=lines, env=env or {}))
    # corpus (corpus/C19/shutdown_corpus.json): no worker thread at all; plain; individually disabled worker (the seeded
    # C19-3/C19-4 class); disable-then-enable; worker 0 of a shepherd (disables the shepherd too); disabled shepherd with all
    # its workers enabled; tasks left in a queue; QT_HWPAR remainders (the last workers of the grid are created inactive)
    with open(os.path.join(core.VERIF, "corpus", "C19", "shutdown_corpus.json")) as f:
        for c in json.load(f)["scenarios"]:
            add(c["name"], tuple(c["cfg"]), list(c["lines"]), dict(c["env"]))
    # the proviso of the theorems (shutdown_concurrent_disable_hangs): a qthread_disable_worker landing right after the finalizer's
    # test of that worker's flag; the machine predicts a hang, the real finalize must hang too (short watchdog; last line of its process)
    add("proviso-concurrent-disable-2x2", (2, 2), ["C sp", "C sp cd3 al4"])
    if not quick:
        add("proviso-concurrent-disable-1x3", (1, 3), ["C sp cd2 al4"])
    configs = [(2, 2), (3, 2), (2, 3), (4, 1)] if quick else [(1, 2), (1, 4), (2, 1), (2, 2), (2, 3), (3, 2), (3, 3), (4, 1), (4, 2), (5, 2), (8, 1)]
    for rep in range(1 if quick else 4):
        for (ns, nw) in configs:
            env = {}
            hw = ns * nw
            if nw >= 2 and rng.chance(1, 2):
                hw = rng.range(ns * (nw - 1) + 1, ns * nw)        # a remainder that keeps the S x W grid
                env["QT_HWPAR"] = hw
            lines = []
            for c in range(3 if quick else 5):
                ops = []
                if rng.chance(3, 4):
                    ops.append("sp")
                k = rng.range(0, 2)
                for _ in range(k):
                    kind = rng.range(0, 3)
                    wid = rng.range(1, ns * nw - 1) if ns * nw > 1 else 0
                    if wid == 0:
                        continue
                    if kind == 0:
                        ops.append("dw%d" % wid)
                    elif kind == 1:
                        ops += ["dw%d" % wid, "ew%d" % wid]
                    elif kind == 2 and ns > 1:
                        ops.append("ds%d" % rng.range(1, ns - 1))
                    elif ns > 1:
                        i = rng.range(1, ns - 1)
                        ops += ["ds%d" % i, "es%d" % i]
                if rng.chance(1, 2):
                    ops.append("sp")
                if rng.chance(1, 2):
                    ops.append("sl%d" % rng.choice([1, 5, 20]))
                if rng.chance(1, 4):
                    ops.append("lt%d" % rng.range(1, 8))
                lines.append("C " + " ".join(ops))
            add("random-%dx%d-%d" % (ns, nw, rep), (ns, nw), lines, env)
    return sc


def parse(out):
    cyc, cur, tmo, ended = [], None, None, False
    for l in out:
        if l.startswith("Y "):
            cur = {"Y": _kv(l)}
            cyc.append(cur)
        elif l.startswith("I ") and cur is not None:
            cur["I"] = _kv(l)
        elif l.startswith("E ") and cur is not None:
            cur["E"] = _kv(l)
        elif l.startswith("Z ") and cur is not None:
            cur["Z"] = _kv(l)
        elif l.startswith("TIMEOUT"):
            tmo = l
            if cur is not None:
                cur["T"] = l
        elif l.startswith("END"):
            ended = True
    return cyc, tmo, ended


def oracle(c, ns, nw):
    """the property itself on the logged behaviour of one finalize: it returns, every worker thread took one terminator and
    then left qthread_master, each join returned after that exit, normal/late cleanups with no worker thread alive"""
    if "T" in c:
        return "qthread_finalize does not return (%s)" % c["T"]
    if "Z" not in c or "E" not in c:
        return "the incarnation did not complete"
    evs = [e.split(",") for e in c["E"].get("ev", "").split(";") if e]
    n = ns * nw - 1
    got, gone, joined = {}, {}, []
    for pos, e in enumerate(evs):
        k, a, b = e[0], int(e[1]), int(e[2])
        if k == "WG" and b == 1:
            if a in got:
                return "worker thread %d took two terminators" % a
            got[a] = pos
        elif k == "WG" and a in got:
            return "worker thread %d took a task after its terminator" % a
        elif k == "WX":
            if a not in got:
                return "worker thread %d exited without a terminator" % a
            gone[a] = pos
        elif k == "FJ":
            if a not in gone:
                return "pthread_join of worker thread %d returned before its exit" % a
            joined.append(a)
        elif k == "FS" and a >= 1 and (b != 0 or len(joined) != n):
            return "cleanup stage %d started with %d worker threads alive, %d of %d joined" % (a, b, len(joined), n)
    if len(gone) != n or sorted(joined) != list(range(1, n + 1)):
        return "%d of %d worker threads exited, %d joined" % (len(gone), n, len(joined))
    if int(c["Z"]["alive"]) != 0 or c["Z"]["qlib_null"] != "1":
        return "after finalize: %s worker threads alive, qlib NULL=%s" % (c["Z"]["alive"], c["Z"]["qlib_null"])
    return None


def run_shutdown(ctx, quick):
    pr = ctx.coq_properties(PROPS)
    okx, logx = ctx.coq_make(["theories/Lifecycle/ExtractShutdown.vo"])
    if not okx:
        ctx.coq_failed.append("Lifecycle/ExtractShutdown.v")
    exe = ctx.link("c19_shutdown", ["c19_shutdown.c"], exclude=["qthread.c"])
    drv = ctx.model_driver("c19shutdown_driver")
    scen = gen_scenarios(ctx.rng, quick)
    stats = dict(scenarios=len(scen), finalizes=0, accepted=0, events=0, with_inactive_worker=0, with_disabled_shepherd=0, reenabling_cas=0,
                 task_events=0, startup_checked=0, phantom_tasks=0, configs=sorted(set(s["cfg"] for s in scen)))
    rejects, oracle_fail, startup_bad, samples = [], [], [], []
    for sc in scen:
        ns, nw = sc["cfg"]
        env = core.qenv(ns, nw, stack=65536, **sc["env"])
        rc, out, err = core.run_lines(exe, sc["lines"], timeout=120 + 70 * len(sc["lines"]), env=env)
        cyc, tmo, ended = parse(out)
        if not cyc:
            raise core.BuildError("c19_shutdown harness did not start: rc=%s %s" % (rc, err[-400:]))
        for k, line in enumerate(sc["lines"]):
            case = dict(tier="shutdown", scenario=sc["name"], config=[ns, nw], env=sc["env"], lines=sc["lines"], failing_cycle=k + 1)
            if k >= len(cyc) or "I" not in cyc[k]:
                oracle_fail.append(("incarnation %d (%s) did not reach finalize: %s" % (k + 1, line, tmo or "rc=%s %s" % (rc, err[-200:])), case))
                break
            c = cyc[k]
            Y, I = c["Y"], c["I"]
            S, W = int(Y["S"]), int(Y["W"])
            # ---- start-up side
            hw = int(sc["env"].get("QT_HWPAR", S * W))
            m = _kv(core.run_lines(drv, ["INIT %d %d %d" % (S, W, hw)], timeout=60)[1][0])
            stats["startup_checked"] += 1
            if (S, W) != (ns, nw) or int(m["n"]) != int(Y["created"]) or m.get("flags", "") != Y.get("flags", "") or int(m["active"]) != int(Y["nw"]) or int(Y["nw"]) != hw:
                startup_bad.append(("after qthread_initialize (%dx%d, hw_par %d): %s worker threads created, active flags %s, qthread_num_workers() = %s; "
                                    "model (startup_counts_exact): %s threads, flags %s, %s active"
                                    % (S, W, hw, Y["created"], Y.get("flags", ""), Y["nw"], m["n"], m.get("flags", ""), m["active"]), case))
            # ---- the finalize
            stats["finalizes"] += 1
            ev = c.get("E", {}).get("ev", "")
            stats["events"] += ev.count(";")
            stats["reenabling_cas"] += ev.count("FC,")
            stats["task_events"] += len(re.findall(r"WG,\d+,0", ev))
            wact = I.get("wact", "") or "-"
            qlen = I.get("qlen", "") or ","          # advisory queue lengths at the entry (racy: workers may still be dequeuing)
            if "0" in wact:
                stats["with_inactive_worker"] += 1
            if "0" in I["sact"]:
                stats["with_disabled_shepherd"] += 1
            if c.get("E", {}).get("overflow", "0") != "0":
                ctx.notes.append("note (shutdown): event buffer overflow in %s cycle %d (not judged)" % (sc["name"], k + 1))
                continue
            acc = core.run_lines(drv, ["ACC 0 %d %d %s %s %s %s" % (S, W, I["sact"], wact, qlen, ev)], timeout=120)[1]
            res = acc[0] if acc else "ACC error why=no answer"
            r = _kv(res.split(" why=")[0])
            why = res.split(" why=", 1)[1] if " why=" in res else "?"
            complete = "T" not in c and "Z" in c
            if " cd" in line:          # expected: the machine ends stuck at the join of the disabled worker, the runtime hangs
                if res.startswith("ACC ok") and r.get("stuck", "-") != "-" and "T" in c:
                    stats["concurrent_disable_hang_reproduced"] = stats.get("concurrent_disable_hang_reproduced", 0) + 1
                    stats["events"] -= 0
                elif res.startswith("ACC ok") and r.get("stuck", "-") == "-" and r.get("done") == "1" and "T" not in c:
                    # the disable landed while the worker was already past its own flag test (inside get_thread): it still takes
                    # its terminator and exits; the machine accepts this order as a terminating run.  Whether the injected disable
                    # hangs finalize depends on where the worker stands - both outcomes are runs of the machine, and the logged
                    # one must be the one the machine reaches (found by re-running all checks on behaviour-preserving rewrites:
                    # the scenario returned instead of hanging in 5 of 8 runs under a different machine load)
                    stats["concurrent_disable_returned"] = stats.get("concurrent_disable_returned", 0) + 1
                else:
                    rejects.append(("the machine predicts a hang when a qthread_disable_worker lands after the finalizer's test of that worker's flag "
                                    "(shutdown_concurrent_disable_hangs): %s; the real qthread_finalize %s" % (res[:200], "hung" if "T" in c else "returned"),
                                    dict(case, ops=line, acceptor=res)))
                tmo = None
                break
            orc = oracle(c, S, W)
            if res.startswith("ACC ok") and complete and r.get("done") == "1":
                stats["accepted"] += 1
                stats["phantom_tasks"] += int(r.get("phantom", 0))
                if len(samples) < 3 and "0" in wact:
                    samples.append(dict(scenario=sc["name"], cycle=k + 1, ops=line, sact=I["sact"], wact=wact, events=ev.count(";"),
                                        model_steps=int(r["steps"]), measure=r["mu"]))
            else:
                # model-level explanation: where the machine stands; does the variant that reads the shepherd's flag explain the log?
                expl = why if not res.startswith("ACC ok") else "the log ends with the finalizer of the model at %s" % r.get("fin")
                var = core.run_lines(drv, ["ACC 1 %d %d %s %s %s %s" % (S, W, I["sact"], wact, qlen, ev)], timeout=120)[1]
                rv = _kv(var[0].split(" why=")[0]) if var else {}
                stuck = None
                if var and var[0].startswith("ACC ok") and rv.get("stuck", "-") != "-":
                    stuck = rv["stuck"]
                    expl += "; the logged order is accepted by the variant machine whose re-enabling test reads the SHEPHERD's flag " \
                            "(shutdown_shepherd_flag_test_refuted), which ends with worker (%s) inactive and not re-enabled at the finalizer's join" % stuck.replace(":", ",")
                elif r.get("stuck", "-") != "-":
                    stuck = r["stuck"]
                    expl += "; worker (%s) inactive and not re-enabled at the finalizer's join" % stuck.replace(":", ",")
                rejects.append((expl, dict(case, ops=line, sact=I["sact"], wact=wact, acceptor=res, events=ev[:4000])))
            if orc:
                oracle_fail.append((orc, dict(case, ops=line, sact=I["sact"], wact=wact)))
            if "T" in c:
                break
        if tmo:
            ctx.notes.append("note (shutdown): %s: qthread_finalize did not return; remaining shutdown scenarios not run" % sc["name"])
            break
    rejects.sort(key=lambda r: "not re-enabled at the finalizer's join" not in r[0])      # the hang first (stable)
    ctx.cov["shutdown"] = dict(stats, rule="one evaluation = the event order of one qthread_finalize of the real runtime accepted by the extracted "
                               "Shutdown machine and ended in its final state; non-trivial = at least one worker inactive or one shepherd disabled at the entry",
                               samples=samples, rejected=len(rejects), theorems=len(pr["theorems"]))
    ctx.cov["evaluations"] = ctx.cov.get("evaluations", 0) + stats["accepted"]
    ctx.cov["traces_validated_against_impl"] = ctx.cov.get("traces_validated_against_impl", 0) + stats["accepted"]
    ctx.cov["distinct_nontrivial"] = ctx.cov.get("distinct_nontrivial", 0) + stats["with_inactive_worker"]
    if stats.get("concurrent_disable_hang_reproduced"):
        ctx.notes.append("note (shutdown, not counted: outside C19's proviso 'every task spawned and awaited'; docs/proposed_fixes/C19-concurrent-disable.diff): "
                         "a qthread_disable_worker that lands after the finalizer's test of that worker's flag makes qthread_finalize hang, on the machine "
                         "(shutdown_concurrent_disable_hangs) and on the real runtime (%d reproductions)" % stats["concurrent_disable_hang_reproduced"])
    ctx.assumptions += ["shutdown machine: no qthread_disable_worker / disable_shepherd call runs concurrently with qthread_finalize (flags are arbitrary at its entry, "
                        "then only the finalizer writes them); ordinary tasks still queued at finalize do not spawn and carry no target shepherd",
                        "shutdown machine: a shepherd's queue is an abstract bag (the real one is taken from the tail); stealing moves ordinary tasks only"]
    for why, case in startup_bad[:2]:
        ctx.violation("unlisted:shutdown-startup", why, case)
    if pr["ok"] and okx and not rejects:
        for why, case in oracle_fail[:2]:
            ctx.violation("unlisted:shutdown-" + re.sub(r"[^a-z]+", "-", why.lower())[:24], why, case)
        return
    if not (pr["ok"] and okx):
        what = "Properties_C19_shutdown.v / ExtractShutdown.v no longer check"
    else:
        what = "the shutdown machine (Lifecycle/Shutdown.v) does not accept the event order of qthread_finalize on the real runtime (%d finalizes): %s" % (
            len(rejects), rejects[0][0])
    if oracle_fail:
        why, case = oracle_fail[0]
        ctx.violation("broken+input:shutdown", what + "; failing input: " + why,
                      {"failing_input": case, "reason": why, "first_reject": rejects[0] if rejects else None, "coq_log": pr["log"][-1500:]})
    else:
        ctx.violation("broken:shutdown", what, {"theorem_or_correspondence": "impl trace not accepted by Lifecycle.Shutdown" if rejects else PROPS,
                                                "first_reject": rejects[0] if rejects else None, "coq_log": pr["log"][-1500:]}, no_input=True)
