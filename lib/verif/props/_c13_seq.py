"""C13 extension W: the library's OWN sequential sort below the parallel cutoff -- src/qutil.c drf_qsort_dbl / drf_qsort_algt
(iterative quicksort, explicit stack beg[MAX] / end[MAX], MAX = QT_INT_LOG(elements) + 5), used by qutil_qsort,
qutil_aligned_qsort (segments of <= MT_LOOP_CHUNK elements) and qutil_mergesort (presort of the chunks of 10).
Model: coq/theories/Util/SeqSort.v; theorems: Properties/Properties_C13_seq.v (permutation for every comparison, the explicit
stack never overflows, termination, sortedness, and the top-level sort theorems with the cutoff sort instantiated by the model).
Tie (M1): harness/c/c13_seq.c includes the working tree's qutil.c and calls the REAL static functions on explicit arrays
(guard words before and after the segment); the assert macro of qt_asserts.h is turned into a probe (shim header found through
-iquote; `assert(i < MAX)` is the first statement of the outer loop), so besides the final allocation the capacity MAX, the
largest stack index and the number of loop-head visits of the real run are compared with the extracted model
(ocaml/bin/c13seq_driver).  When the probe does not fire (locals renamed) only the arrays are compared.
Oracle (searches the failing input when the tie or a proof breaks): on the implementation's own output -- returned within the
CPU-time watchdog, the explicit stack not overrun, segment sorted, same multiset, guard words untouched."""
import json
import os
import struct
from concurrent.futures import ThreadPoolExecutor
from .. import core

GUARD = 0x4141414141414141
EXT_D = [0x0000000000000000, 0x7FEFFFFFFFFFFFFF, 0xFFEFFFFFFFFFFFFF, 0x0000000000000001, 0x000FFFFFFFFFFFFF, 0x8000000000000001,
         0x3FF0000000000000, 0xBFF0000000000000, 0x7FF0000000000000, 0xFFF0000000000000, 0x3FF0000000000001, 0x3FEFFFFFFFFFFFFF]
EXT_U = [0, 1, 2, (1 << 63) - 1, 1 << 63, (1 << 63) + 1, (1 << 64) - 2, (1 << 64) - 1, 0x4141414141414141, 0x4141414141414140]
PERFECT = [2, 5, 11, 23, 47, 95, 191, 383, 767]      # lengths 3 * 2^k - 1: the depth bound floor(log2 n) can be attained


def word(ty, v):
    """small integer -> 64-bit word of the element type (exactly representable, order preserved)"""
    if ty == "d":
        return struct.unpack("<Q", struct.pack("<d", float(v)))[0]
    return (v + 5000) & 0xFFFFFFFFFFFFFFFF


def balanced(vals):
    """arrangement of the sorted list `vals` on which every split of the first-element-pivot partition is even:
    [pivot] + G_L[1:] + G_L[:1] + G_R is partitioned into G_L, pivot, G_R (the right scan stops at the last element of the
    lower part, moves it into the hole at the front; the left scan then runs up to it)"""
    m = len(vals)
    if m <= 1:
        return list(vals)
    p = m // 2
    gl, gr = balanced(vals[:p]), balanced(vals[p + 1:])
    return [vals[p]] + gl[1:] + gl[:1] + gr


def m3killer(n):
    """Musser's median-of-three killer sequence for 2k elements (k even), cut / padded to n"""
    k = max(2, (n // 2 + 1) // 2 * 2)
    a = [0] * (2 * k + 2)
    for i in range(1, k + 1):
        if i % 2 == 1:
            a[i] = i
            a[i + 1] = k + i
        a[k + i] = 2 * i
    return (a[1:2 * k + 1] + list(range(2 * k + 1, 2 * k + 1 + n)))[:n]


PATS = ["random", "random", "wide", "few", "two", "allequal", "sorted", "reversed", "organpipe", "sawtooth", "nearly", "m3killer",
        "balanced", "balanced", "pivotmax", "pivotmin", "extremes", "dups_of_pivot", "rotated"]


def gen_vals(rng, pat, n):
    if n == 0:
        return []
    if pat == "random":
        return [rng.below(2 * n + 1) for _ in range(n)]
    if pat == "wide":
        return [rng.range(-4000, 4000) for _ in range(n)]
    if pat == "few":
        k = rng.range(2, 5)
        return [rng.below(k) for _ in range(n)]
    if pat == "two":
        return [rng.below(2) for _ in range(n)]
    if pat == "allequal":
        return [rng.range(-3, 3)] * n
    if pat == "sorted":
        return list(range(n))
    if pat == "reversed":
        return list(range(n, 0, -1))
    if pat == "organpipe":
        return [min(i, n - 1 - i) for i in range(n)]
    if pat == "sawtooth":
        k = rng.range(2, 9)
        return [i % k for i in range(n)]
    if pat == "nearly":
        a = list(range(n))
        for _ in range(rng.range(1, 3)):
            i, j = rng.below(n), rng.below(n)
            a[i], a[j] = a[j], a[i]
        return a
    if pat == "m3killer":
        return m3killer(n)
    if pat == "balanced":
        s = sorted(rng.below(4 * n + 1) for _ in range(n)) if rng.chance(1, 3) else list(range(n))
        return balanced(s)
    if pat == "pivotmax":
        return [n] + [rng.below(n) for _ in range(n - 1)]
    if pat == "pivotmin":
        return [-1] + [rng.below(n) for _ in range(n - 1)]
    if pat == "dups_of_pivot":
        p = rng.below(5)
        return [p] + [p if rng.chance(1, 2) else rng.below(5) for _ in range(n - 1)]
    if pat == "rotated":
        r = rng.below(n)
        a = list(range(n))
        return a[r:] + a[:r]
    return [rng.below(2 * n + 1) for _ in range(n)]


def gen_case(rng, ty=None, n=None, pat=None):
    ty = ty or rng.choice(["d", "u"])
    if n is None:
        n = rng.weighted([(rng.range(0, 4), 3), (rng.range(5, 40), 6), (rng.range(41, 300), 4), (rng.choice(PERFECT[:7]), 3),
                          (rng.choice([7, 8, 9, 10, 11, 15, 16, 17, 31, 32, 33, 63, 64, 65, 127, 128, 129, 255, 256, 257]), 3)])
    pat = pat or rng.choice(PATS)
    if pat == "extremes":
        pool = EXT_D if ty == "d" else EXT_U
        ws = [rng.choice(pool) for _ in range(n)]
    else:
        ws = [word(ty, v) for v in gen_vals(rng, pat, n)]
    pre, post = rng.choice([0, 1, 2, 3]), rng.choice([0, 1, 2, 3])
    # guard words: the sentinel, or words that compare below / above everything (an out-of-bounds read would be followed)
    lo, hi = (0xFFF0000000000000, 0x7FF0000000000000) if ty == "d" else (0, (1 << 64) - 1)
    gpre = [rng.choice([GUARD, lo, hi]) for _ in range(pre)]
    gpost = [rng.choice([GUARD, lo, hi]) for _ in range(post)]
    return {"ty": ty, "pre": pre, "n": n, "post": post, "words": gpre + ws + gpost, "pattern": pat}


def cmd_of(c):
    return "seq %s %d %d %d %s" % (c["ty"], c["pre"], c["n"], c["post"], " ".join("%016x" % w for w in c["words"]))


def fields(line):
    return dict(x.split("=", 1) for x in line.split() if "=" in x)


def oracle(c, io):
    """the property on the implementation's own output; None = accepted"""
    if io.startswith("q TIMEOUT"):
        return "no-return: the sort did not return within the CPU-time watchdog"
    if io.startswith("CRASH"):
        return "crash: the sort crashed (%s)" % io
    if io.startswith("q overflow"):
        return "stack-overflow: the loop head was reached with the stack index outside the explicit stack (%s)" % io.split(" arr=")[0].split(" h=")[0]
    if " | " not in io:
        return "no-result: (%s)" % io[:80]
    f = fields(io.split(" | ", 1)[1])
    if f.get("guard") != "1":
        return "outside-write: a word outside the segment was modified"
    if f.get("mset") != "1":
        return "not-permutation: the segment is not a permutation of the input"
    if f.get("sorted") != "1":
        return "not-sorted: the segment is not sorted"
    return None


def desc(c):
    fn = "drf_qsort_dbl" if c["ty"] == "d" else "drf_qsort_algt"
    d = {"function": fn, "elements": c["n"], "guard_words_before": c["pre"], "guard_words_after": c["post"], "pattern": c.get("pattern", "corpus"),
         "words_hex": ["%016x" % w for w in c["words"][:400]], "harness_command": cmd_of(c) if len(c["words"]) <= 2000 else cmd_of(c)[:200] + " ..."}
    if c["ty"] == "d" and c["n"] <= 64:
        d["values"] = [struct.unpack("<d", struct.pack("<Q", w))[0] for w in c["words"][c["pre"]:c["pre"] + c["n"]]]
    return d


def load_corpus():
    p = os.path.join(core.VERIF, "corpus", "C13", "seq_cases.json")
    if os.path.exists(p):
        return json.load(open(p))
    return []


def build(ctx):
    ok, log = ctx.coq_make(["theories/Util/ExtractSeq.vo"])
    if not ok:
        raise core.BuildError("Util/ExtractSeq.v does not compile:\n" + log[-2000:])
    exe = ctx.link("c13_seq", ["c13_seq.c"], exclude=["qutil.c"], cflags=["-iquote", os.path.join(core.HARNESS, "c13seq_shim")])
    drv = ctx.model_driver("c13seq_driver")
    return exe, drv


def run_impl(exe, lines, timeout=1200):
    """a crash or the watchdog ends the process: that command gets its line, the rest runs in a fresh process"""
    iout, pos, restarts = [], 0, 0
    while pos < len(lines) and restarts < 3:
        rc, out, _ = core.run_lines(exe, lines[pos:] + ["Q"], timeout=timeout)
        out = out[:len(lines) - pos]
        timed = bool(out) and out[-1].startswith("q TIMEOUT")
        iout += out
        pos += len(out)
        if pos < len(lines) and not timed:
            iout.append("CRASH rc=%s" % rc)
            pos += 1
        if pos < len(lines) or timed:
            restarts += 1
    while len(iout) < len(lines):
        iout.append("CRASH not-run")
    return iout


def run_seq(ctx, quick):
    rng = ctx.rng.fork()
    pr = ctx.coq_properties("Properties/Properties_C13_seq.v")
    exe, drv = build(ctx)
    cases = [dict(c, words=[int(w, 16) for w in c["words_hex"]]) for c in load_corpus()]
    ncorp = len(cases)
    # fixed boundary cases: every small length, the lengths at which the depth bound is attained, both element types
    for ty in ("d", "u"):
        for n in (0, 1, 2, 3):
            for pat in ("sorted", "reversed", "allequal"):
                cases.append(gen_case(rng, ty, n, pat))
        for n in PERFECT[:7] if quick else PERFECT:
            cases.append(gen_case(rng, ty, n, "balanced"))
        for n in (64, 300):
            for pat in ("sorted", "reversed", "allequal", "organpipe", "m3killer", "two"):
                cases.append(gen_case(rng, ty, n, pat))
    for _ in range(500 if quick else 6000):
        cases.append(gen_case(rng))
    # the segment sizes the callers use: chunks of 10 (qutil_mergesort), and up to MT_LOOP_CHUNK = 10000 (the parallel sorts' cutoff)
    big = [(10000, "random"), (9999, "balanced")] if quick else \
          [(9999, "random"), (10000, "wide"), (10000, "few"), (10000, "random"), (10000, "balanced"), (10000, "two"), (4096, "nearly"),
           (1535, "balanced"), (3071, "balanced"), (6143, "balanced"), (2000, "sorted"), (2000, "reversed"), (2000, "allequal"),
           (2000, "organpipe"), (2000, "m3killer"), (2000, "rotated")]
    for (n, pat) in big:
        cases.append(gen_case(rng, rng.choice(["d", "u"]), n, pat))
    lines = [cmd_of(c) for c in cases]
    pool = ThreadPoolExecutor(max_workers=1)
    mfut = pool.submit(core.run_lines, drv, lines, 1800)
    iout = run_impl(exe, lines)
    rc2, mout, merr = mfut.result()
    if len(mout) != len(lines):
        raise core.BuildError("c13seq model driver failed: rc=%s, %d of %d answers; %s" % (rc2, len(mout), len(lines), merr[-300:]))
    mism, ofail = [], []
    nontrivial = set()
    hist, dhist = {}, {}
    probe_missing = 0
    attained = 0
    samples = []
    visits = 0
    for k, c in enumerate(cases):
        io, mo = iout[k], mout[k]
        hist[c["ty"] + ":" + c["pattern"]] = hist.get(c["ty"] + ":" + c["pattern"], 0) + 1
        ihead = io.split(" | ", 1)[0]
        fi, fm = fields(ihead), fields(mo)
        bad = None
        if not ihead.startswith("q cap=") or not mo.startswith("q cap="):
            bad = "result" if ihead != mo else None
        else:
            if fi.get("cap") == "-":
                probe_missing += 1
                cmp_fields = ("arr", "h")
            else:
                cmp_fields = ("cap", "depth", "it", "arr", "h")
            bad = next((f for f in cmp_fields if fi.get(f) != fm.get(f)), None)
        if bad:
            mism.append(("seq-" + bad, dict(desc(c), impl=io[:1500], model=mo[:1500],
                                            impl_probe={f: fi.get(f) for f in ("cap", "depth", "it")}, model_probe={f: fm.get(f) for f in ("cap", "depth", "it")})))
        why = oracle(c, io)
        if why:
            ofail.append((why, desc(c)))
        if mo.startswith("q cap="):
            d, it = int(fm["depth"]), int(fm["it"])
            visits += it
            dhist[d] = dhist.get(d, 0) + 1
            if c["n"] >= 2 and d == c["n"].bit_length() - 1:
                attained += 1
            if c["n"] >= 4 and it >= 5:
                nontrivial.add((c["ty"], c["pre"], tuple(c["words"])))
            if len(samples) < 4 and c["n"] >= 20 and d >= 3:
                samples.append({"function": desc(c)["function"], "elements": c["n"], "pattern": c["pattern"], "capacity": int(fm["cap"]),
                                "largest_stack_index": d, "loop_head_visits": it})
    ctx.cov["seq_sort"] = {
        "evaluations": len(cases), "corpus_cases": ncorp, "distinct_nontrivial": len(nontrivial),
        "rule": "non-trivial = segment of >= 4 elements sorted with >= 5 loop-head visits (at least two splits); compared per case: the whole "
                "allocation (segment + guard words), the capacity MAX, the largest stack index and the number of loop-head visits",
        "input_distribution": hist, "largest_stack_index_histogram": {str(k): v for k, v in sorted(dhist.items())},
        "cases_attaining_depth_bound_floor_log2_n": attained, "loop_head_visits_compared": visits,
        "probe_unavailable_cases": probe_missing, "mismatches": len(mism), "samples": samples,
        "lengths": "0..300, 3*2^k-1 (depth bound attainable), powers of two +-1, 9..11 (mergesort chunks), 9999/10000 (MT_LOOP_CHUNK)"}
    ctx.cov["evaluations"] = ctx.cov.get("evaluations", 0) + len(cases)
    ctx.cov["distinct_nontrivial"] = ctx.cov.get("distinct_nontrivial", 0) + len(nontrivial)
    ctx.cov["traces_validated_against_impl"] = ctx.cov.get("traces_validated_against_impl", 0) + len(cases)
    ctx.assumptions += ["sequential sort below the cutoff (drf_qsort_dbl/_algt): proved for the model Util/SeqSort.v (sorted permutation, explicit "
                        "stack never overrun, termination) for segments of fewer than 2^32 elements (QT_INT_LOG truncates to 32 bits; the callers "
                        "pass <= 10000); the model is compared with the real static functions on every run (array, capacity, largest stack "
                        "index, loop-head visits); qt_qsort's libc qsort stays an assumption"]
    if probe_missing:
        ctx.notes.append("c13 seq: the assert probe did not fire in %d cases (locals of drf_qsort_* renamed?): arrays compared only" % probe_missing)
    if not mism and pr["ok"] and not ofail:
        return
    what = ("sequential sort: real drf_qsort_* and model Util/SeqSort disagree (%d cases, first: %s)" % (len(mism), mism[0][0])) if mism else \
           ("theorems in %s no longer check" % pr["file"]) if not pr["ok"] else "sequential sort: the implementation's result violates the property"
    if ofail:
        why, d = ofail[0]
        ctx.violation("seq:" + why.split(":")[0], what + "; failing input: " + why,
                      {"failing_input": d, "reason": why, "first_mismatch": mism[0] if mism else None, "coq_log": pr["log"][-1500:]})
    else:
        ctx.violation("seq-broken", what, {"theorem_or_correspondence": ("real drf_qsort_* != Util/SeqSort model on " + mism[0][0]) if mism else pr["file"],
                                           "first_mismatch": mism[0] if mism else None, "coq_log": pr["log"][-1500:],
                                           "oracle": "every case of the batch (%d) satisfies the property on the implementation's output" % len(cases)},
                      no_input=True)


def replay(ctx, j, case):
    """re-run one recorded seq command on the working tree (implementation and model)"""
    cmd = case["harness_command"]
    exe, drv = build(ctx)
    io = run_impl(exe, [cmd], timeout=300)[0]
    rc2, mo, _ = core.run_lines(drv, [cmd], timeout=300)
    mo = mo[0] if mo else "none"
    print("# re-run on the working tree: %s\n#  impl : %s\n#  model: %s" % (cmd[:200], io[:300], mo[:300]))
    toks = cmd.split()
    c = {"ty": toks[1], "pre": int(toks[2]), "n": int(toks[3]), "post": int(toks[4]), "words": [int(w, 16) for w in toks[5:]], "pattern": "replay"}
    why = oracle(c, io)
    fi, fm = fields(io.split(" | ", 1)[0]), fields(mo)
    keys = ("arr", "h") if fi.get("cap") == "-" else ("cap", "depth", "it", "arr", "h")
    if why or any(fi.get(f) != fm.get(f) for f in keys):
        ctx.violation(j.get("signature", "replay"), "replayed sequential sort still fails: " + (why or "differs from the model"), case)
